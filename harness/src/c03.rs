//! C03 — plan optimisation never changes what a pipeline computes.
//!
//! (a) `PLAN <chain>`: the REAL private passes (hook `planner::verif::{fuse, reorder, lift, drop_mid}`)
//!     run one by one on SYNTHETIC chains — custom `DynOp`s with arbitrary capability flags / costs,
//!     mid-chain and terminal `Materialized`, GBK followed by lifted and non-lifted combines — and the
//!     resulting shapes are compared op by op (pointer identity) with the model's passes.
//! (b) `PLANX <chain>`: well-typed synthetic chains are EXECUTED by the real engines (hook
//!     `runner::verif::{exec_seq, exec_par}`) literally and after optimisation. Oracle: same result.
//! (c) `EXPLAIN`: `Plan::explain()` of `build_plan` lists exactly the nodes of the optimised chain.
//! (d) programs through the public builders: planned run == plain-vector reference (pipe::reference).

use crate::ctx::{Ctx, guarded};
use crate::pipe;
use ironbeam::combiners::Sum;
use ironbeam::node::{DynOp, Node};
use ironbeam::planner::verif as pv;
use ironbeam::runner::verif as rv;
use ironbeam::type_token::{Partition, TypeTag, vec_ops_for};
use ironbeam::{Pipeline, from_vec};
use std::sync::Arc;

type Row = (i64, i64);
type GRow = (i64, Vec<i64>);

#[derive(Clone, Debug)]
struct OpDesc { code: char, arg: i64, kp: bool, vo: bool, rs: bool, cost: u8, /// relies on the trait's DEFAULT `reorder_safe_with_value_only` (documented: false)
    defaulting: bool }

struct CustomOp(OpDesc);
impl DynOp for CustomOp {
    fn apply(&self, input: Partition) -> Partition {
        let d = &self.0;
        match d.code {
            'G' => { let v = *input.downcast::<Vec<GRow>>().expect("G: groups"); Box::new(v.into_iter().map(|(k, vs)| (k, vs.iter().sum::<i64>())).collect::<Vec<Row>>()) }
            'H' => match input.downcast::<Vec<GRow>>() {
                Ok(v) => Box::new(v.into_iter().filter(|r| r.0.rem_euclid(2) == 0).collect::<Vec<GRow>>()),
                Err(other) => { let v = *other.downcast::<Vec<Row>>().expect("H: rows"); Box::new(v.into_iter().filter(|r| r.0.rem_euclid(2) == 0).collect::<Vec<Row>>()) }
            },
            c => {
                let v = *input.downcast::<Vec<Row>>().expect("custom op: rows");
                let out: Vec<Row> = match c {
                    'A' => v.into_iter().map(|(k, x)| (k, x + d.arg)).collect(),
                    'M' => v.into_iter().map(|(k, x)| (k, x * d.arg)).collect(),
                    'F' => v.into_iter().filter(|(_, x)| x.rem_euclid(d.arg.max(1)) != 0).collect(),
                    'K' => v.into_iter().map(|(k, x)| (k + d.arg, x)).collect(),
                    'D' => v.into_iter().flat_map(|r| vec![r, r]).collect(),
                    _ => panic!("unknown op"),
                };
                Box::new(out)
            }
        }
    }
    fn key_preserving(&self) -> bool { self.0.kp }
    fn value_only(&self) -> bool { self.0.vo }
    fn reorder_safe_with_value_only(&self) -> bool { self.0.rs }
    fn cost_hint(&self) -> u8 { self.0.cost }
}

/// same semantics, but does NOT override `reorder_safe_with_value_only` (and, when its cost is 10, not
/// `cost_hint` either): what a user-written operator that only states the two descriptive flags looks like
struct DefaultingOp(OpDesc);
impl DynOp for DefaultingOp {
    fn apply(&self, input: Partition) -> Partition { CustomOp(self.0.clone()).apply(input) }
    fn key_preserving(&self) -> bool { self.0.kp }
    fn value_only(&self) -> bool { self.0.vo }
    fn cost_hint(&self) -> u8 { self.0.cost }
}

#[derive(Clone, Debug)]
enum ND { Src(Vec<Row>), St(Vec<OpDesc>), Gbk, Cvl, Cv, Mat(Vec<Row>) }

fn b01(b: bool) -> char { if b { '1' } else { '0' } }
fn rows_enc(r: &[Row]) -> String { if r.is_empty() { "-".into() } else { r.iter().map(|(k, v)| format!("{k}:{v}")).collect::<Vec<_>>().join(",") } }
fn op_enc(o: &OpDesc) -> String { format!("{}{}/{}{}{}/{}", o.code, o.arg, b01(o.kp), b01(o.vo), b01(o.rs), o.cost) }
fn chain_enc(c: &[ND]) -> String {
    c.iter().map(|n| match n {
        ND::Src(r) => format!("SRC {}", rows_enc(r)),
        ND::St(ops) => format!("ST {}", ops.iter().map(op_enc).collect::<Vec<_>>().join(";")),
        ND::Gbk => "GBK".into(), ND::Cvl => "CVL".into(), ND::Cv => "CV".into(),
        ND::Mat(r) => format!("MAT {}", rows_enc(r)),
    }).collect::<Vec<_>>().join(" | ")
}

struct Built { chain: Vec<Node>, ops: Vec<(*const (), String)> }

fn node_of<T: ironbeam::RFBound>(p: &Pipeline, pc: &ironbeam::PCollection<T>) -> Node {
    let (nodes, _) = p.snapshot();
    nodes.get(&pc.node_id()).cloned().expect("node")
}

fn build_chain(desc: &[ND]) -> Built {
    let p = Pipeline::default();
    let gbk = node_of(&p, &from_vec(&p, vec![(0i64, 0i64)]).group_by_key());
    let cvl = node_of(&p, &from_vec(&p, vec![(0i64, vec![0i64])]).combine_values_lifted(Sum::<i64>::new()));
    let cv = node_of(&p, &from_vec(&p, vec![(0i64, 0i64)]).combine_values(Sum::<i64>::new()));
    let mut chain = vec![];
    let mut ops = vec![];
    for n in desc {
        chain.push(match n {
            ND::Src(rows) => Node::Source { payload: Arc::new(rows.clone()), vec_ops: vec_ops_for::<Row>(), elem_tag: TypeTag::of::<Row>() },
            ND::St(ds) => Node::Stateless(ds.iter().map(|d| {
                let a: Arc<dyn DynOp> = if d.defaulting { Arc::new(DefaultingOp(d.clone())) } else { Arc::new(CustomOp(d.clone())) };
                ops.push((Arc::as_ptr(&a) as *const (), format!("{}{}", d.code, d.arg)));
                a
            }).collect()),
            ND::Gbk => gbk.clone(), ND::Cvl => cvl.clone(), ND::Cv => cv.clone(),
            ND::Mat(rows) => Node::Materialized(Arc::new(rows.clone())),
        });
    }
    Built { chain, ops }
}

fn shape(chain: &[Node], ops: &[(*const (), String)]) -> String {
    chain.iter().map(|n| match n {
        Node::Source { .. } => "SRC".to_string(),
        Node::Stateless(os) => format!("ST[{}]", os.iter().map(|o| {
            let ptr = Arc::as_ptr(o) as *const ();
            ops.iter().find(|(q, _)| *q == ptr).map_or("?".to_string(), |(_, l)| l.clone())
        }).collect::<Vec<_>>().join(";")),
        Node::GroupByKey { .. } => "GBK".into(),
        Node::CombineValues { local_groups, .. } => if local_groups.is_some() { "CVL".into() } else { "CV".into() },
        Node::CoGroup { .. } => "COGROUP".into(),
        Node::CombineGlobal { .. } => "CG".into(),
        Node::Materialized(_) => "MAT".into(),
    }).collect::<Vec<_>>().join(",")
}

fn real_optimise(chain: Vec<Node>) -> Vec<Node> { pv::drop_mid(pv::lift(pv::reorder(pv::fuse(chain)))) }

fn plan_case(cx: &mut Ctx, desc: &[ND]) {
    let b = build_chain(desc);
    let f = pv::fuse(b.chain.clone());
    let r = pv::reorder(f.clone());
    let l = pv::lift(r.clone());
    let d = pv::drop_mid(l.clone());
    let ans = format!("fuse={} reorder={} lift={} drop={}", shape(&f, &b.ops), shape(&r, &b.ops), shape(&l, &b.ops), shape(&d, &b.ops));
    let idx = cx.case(format!("PLAN {}", chain_enc(desc)), ans, desc.len() >= 3);
    cx.count("plan:structural");
    // structural legality, independent of the model: the multiset of op labels is unchanged by every pass,
    // barriers keep their relative order, the terminal node survives
    let labels = |c: &[Node]| { let mut v: Vec<String> = vec![]; for n in c { if let Node::Stateless(os) = n { for o in os { let ptr = Arc::as_ptr(o) as *const (); v.push(b.ops.iter().find(|(q, _)| *q == ptr).map_or("?".into(), |(_, l)| l.clone())); } } } v };
    let before = labels(&b.chain);
    let after = labels(&d);
    let (mut s1, mut s2) = (before.clone(), after.clone());
    s1.sort(); s2.sort();
    if s1 != s2 { cx.oracle_fail(idx, "optimise-drops-or-duplicates-an-op", format!("before={before:?} after={after:?}")); }
    // ops may only move inside an all-movable fused block
    if before != after {
        let movable_everywhere = desc.iter().all(|n| match n { ND::St(ops) => ops.iter().all(|o| o.kp && o.vo && o.rs), _ => true });
        if !movable_everywhere {
            // find a fused block containing a non-movable op whose order changed
            let fused_blocks: Vec<Vec<(String, bool)>> = fused_desc_blocks(desc);
            let opt_blocks: Vec<Vec<String>> = d.iter().filter_map(|n| if let Node::Stateless(os) = n { Some(os.iter().map(|o| { let ptr = Arc::as_ptr(o) as *const (); b.ops.iter().find(|(q, _)| *q == ptr).map_or("?".into(), |(_, l)| l.clone()) }).collect()) } else { None }).collect();
            for (fb, ob) in fused_blocks.iter().zip(opt_blocks.iter()) {
                let names: Vec<String> = fb.iter().map(|x| x.0.clone()).collect();
                if &names != ob && fb.iter().any(|x| !x.1) {
                    cx.oracle_fail(idx, "reorders-a-block-containing-a-non-movable-op", format!("block={names:?} became {ob:?}"));
                }
            }
        }
    }
    if let Some(last) = desc.last() {
        let last_kind = match last { ND::Src(_) => "SRC", ND::St(_) => "ST", ND::Gbk => "GBK", ND::Cvl => "CVL", ND::Cv => "CV", ND::Mat(_) => "MAT" };
        let got = shape(&d, &b.ops);
        let got_last = got.rsplit(',').next().unwrap_or("").to_string();
        let lifted_tail = desc.len() >= 2 && matches!(desc[desc.len() - 2], ND::Gbk) && matches!(last, ND::Cvl);
        if !(got_last.starts_with(last_kind) || (lifted_tail && got_last == "CV")) {
            cx.oracle_fail(idx, "optimise-changes-the-terminal-node", format!("terminal {last_kind} became {got_last}"));
        }
    }
}

fn fused_desc_blocks(desc: &[ND]) -> Vec<Vec<(String, bool)>> {
    let mut out: Vec<Vec<(String, bool)>> = vec![];
    let mut cur: Option<Vec<(String, bool)>> = None;
    for n in desc {
        match n {
            ND::St(ops) => { let c = cur.get_or_insert_with(Vec::new); for o in ops { c.push((format!("{}{}", o.code, o.arg), o.kp && o.vo && o.rs)); } }
            ND::Mat(_) => { if let Some(c) = cur.take() { out.push(c); } }
            _ => { if let Some(c) = cur.take() { out.push(c); } }
        }
    }
    if let Some(c) = cur.take() { out.push(c); }
    out
}

fn exec_answer(r: Result<anyhow::Result<Vec<Row>>, String>) -> String {
    match r {
        Err(_) => "PANIC".into(),
        Ok(Err(e)) => format!("ERR:{}", format!("{e}").replace(' ', "_")),
        Ok(Ok(mut rows)) => { rows.sort(); rows_enc(&rows) }
    }
}

fn planx_case(cx: &mut Ctx, desc: &[ND]) {
    let parts = 1 + cx.rng.below(4);
    let run = |optimise: bool, par: Option<usize>, skip_reorder: bool| -> String {
        let b = build_chain(desc);
        ironbeam::verif_hooks::set_skip_reorder(skip_reorder);
        let chain = if optimise { real_optimise(b.chain) } else { b.chain };
        ironbeam::verif_hooks::set_skip_reorder(false);
        exec_answer(guarded(move || match par { None => rv::exec_seq::<Row>(chain), Some(n) => rv::exec_par::<Row>(&chain, n) }))
    };
    let lit = run(false, None, false);
    let opt = run(true, None, false);
    let optp = run(true, Some(parts), false);
    let ans = format!("lit={lit} opt={opt} par={optp}");
    let idx = cx.case(format!("PLANX parts={parts} {}", chain_enc(desc)), ans, desc.len() >= 3);
    cx.count("plan:executed");
    if lit != opt || lit != optp {
        let nore = run(true, None, true);
        // the listed finding is exactly "every all-movable fused block is STABLY sorted by (cost != 1, cost)": the
        // optimised run must equal the literal run of the chain whose blocks the harness itself sorted that way
        // (std's stable `sort_by_key`, nothing from the planner). Any other deviation has an unlisted signature.
        let sd = stable_sorted_desc(desc);
        // (run through the OTHER passes — fuse, lift, drop_mid — so that restating markers are dropped exactly as in
        // the optimised chain; only the reorder pass is replaced by the harness's own sort)
        let st = { let b = build_chain(&sd); let chain = pv::drop_mid(pv::lift(pv::fuse(b.chain))); exec_answer(guarded(move || rv::exec_seq::<Row>(chain))) };
        let sig = if nore == lit && lit == run(true, Some(parts), true) && opt == st && optp == st { "planned-differs-from-literal-only-through-reorder-pass" }
                  else if nore == lit { "reorder-pass-is-not-the-stable-cost-sort" }
                  else { "optimised-chain-computes-something-else" };
        cx.oracle_fail(idx, sig, format!("literal={lit} optimised={opt} optimised-par{parts}={optp} without-reorder-pass={nore} stable-cost-sorted-literal={st}"));
    }
}

/// the chain with consecutive stateless nodes fused and every all-movable block sorted by the HARNESS with std's
/// stable sort on `(cost != 1, cost)` — what the documented reorder pass is allowed to produce, computed independently
fn stable_sorted_desc(desc: &[ND]) -> Vec<ND> {
    let mut out: Vec<ND> = vec![];
    for n in desc {
        match (out.last_mut(), n) {
            (Some(ND::St(acc)), ND::St(ops)) => acc.extend(ops.iter().cloned()),
            _ => out.push(n.clone()),
        }
    }
    for n in out.iter_mut() {
        if let ND::St(ops) = n {
            if ops.iter().all(|o| o.kp && o.vo && o.rs) { ops.sort_by_key(|o| (o.cost != 1, o.cost)); }
        }
    }
    out
}

/// a LONG all-movable block (21..100 ops, costs drawn from a small set so that most keys tie, few multiplications so
/// that nothing overflows): longer than the insertion-sort regime of std's unstable sorts, so a planner that loses
/// stability, or sorts by a different key, shows up both structurally and in the executed result
fn gen_long_block(cx: &mut Ctx) -> Vec<OpDesc> {
    let len = *cx.rng.pick(&[21usize, 24, 33, 40, 48, 64, 100]);
    let costs: &[u8] = *cx.rng.pick(&[&[1u8, 2, 3][..], &[2, 3][..], &[1, 3, 3, 3][..], &[0, 1, 2, 3, 10][..]]);
    let mut muls = 0;
    (0..len).map(|_| {
        let mut code = *cx.rng.pick(&['A', 'A', 'A', 'F', 'M']);
        if code == 'M' { muls += 1; if muls > 6 { code = 'A'; } }
        let arg = match code { 'A' => cx.rng.range(-3, 4), 'M' => cx.rng.range(2, 3), _ => cx.rng.range(2, 4) };
        OpDesc { code, arg, kp: true, vo: true, rs: true, cost: *cx.rng.pick(costs), defaulting: false }
    }).collect()
}

fn gen_long_chain(cx: &mut Ctx) -> Vec<ND> {
    let block = gen_long_block(cx);
    let mut c = vec![ND::Src((0..1 + cx.rng.below(8)).map(|_| (cx.rng.range(0, 3), cx.rng.range(-4, 9))).collect())];
    // the block arrives as one node or as several consecutive nodes that fuse
    if cx.rng.chance(1, 2) { c.push(ND::St(block)); }
    else { let cut = 1 + cx.rng.below(block.len() - 1); c.push(ND::St(block[..cut].to_vec())); c.push(ND::St(block[cut..].to_vec())); }
    if cx.rng.chance(1, 3) { c.push(ND::Gbk); c.push(ND::Cvl); }
    c
}

fn gen_op(cx: &mut Ctx, group_typed: bool, honest: bool) -> OpDesc {
    if group_typed {
        return OpDesc { code: 'H', arg: 0, kp: cx.rng.chance(1, 2), vo: false, rs: cx.rng.chance(1, 2), cost: *cx.rng.pick(&[1, 5, 10]), defaulting: false };
    }
    let code = *cx.rng.pick(&['A', 'A', 'M', 'F', 'F', 'K', 'D', 'H']);
    let arg = match code { 'A' => cx.rng.range(-2, 3), 'M' => cx.rng.range(2, 3), 'F' => cx.rng.range(2, 3), 'K' => cx.rng.range(1, 2), _ => 0 };
    let value_only = matches!(code, 'A' | 'M' | 'F');
    let (kp, vo, rs) = if honest { (code != 'K', value_only, value_only) } else { (cx.rng.chance(3, 4), cx.rng.chance(3, 4), cx.rng.chance(3, 4)) };
    let cost = *cx.rng.pick(&[0u8, 1, 1, 2, 3, 3, 10, 255]);
    // one op in five leaves `reorder_safe_with_value_only` to the trait default (false)
    if cx.rng.chance(1, 5) {
        cx.count("op:relies-on-trait-default-reorder-flag");
        return OpDesc { code, arg, kp: if honest { code != 'K' } else { true }, vo: if honest { value_only } else { true }, rs: false, cost, defaulting: true };
    }
    OpDesc { code, arg, kp, vo, rs, cost, defaulting: false }
}

fn gen_rows(cx: &mut Ctx) -> Vec<Row> { (0..cx.rng.below(9)).map(|_| (cx.rng.range(0, 3), cx.rng.range(-4, 9))).collect() }

/// structural chains: anything goes (ill-typed chains are never executed)
fn gen_struct_chain(cx: &mut Ctx) -> Vec<ND> {
    let mut c = vec![ND::Src(gen_rows(cx))];
    for _ in 0..cx.rng.below(9) {
        c.push(match cx.rng.below(10) {
            0..=4 => ND::St((0..1 + cx.rng.below(4)).map(|_| gen_op(cx, false, false)).collect()),
            5 | 6 => ND::Gbk,
            7 => ND::Cvl,
            8 => ND::Cv,
            _ => ND::Mat(gen_rows(cx)),
        });
    }
    c
}

/// well-typed chains over rows `(i64, i64)`: GBK is followed by a lifted combine (possibly after a
/// group-typed block — which must block the lift) or by the group-summing op; a mid-chain
/// `Materialized` holds exactly the rows flowing at that point is NOT generated (its payload would
/// replace the buffer), only payload-carrying terminal ones after a source-only prefix are.
fn gen_exec_chain(cx: &mut Ctx, honest: bool) -> Vec<ND> {
    let mut c = vec![ND::Src(gen_rows(cx))];
    for _ in 0..cx.rng.below(5) {
        match cx.rng.below(8) {
            0..=4 => c.push(ND::St((0..1 + cx.rng.below(4)).map(|_| gen_op(cx, false, honest)).collect())),
            5 => { c.push(ND::Gbk); c.push(ND::Cvl); }
            6 => { c.push(ND::Gbk); c.push(ND::St(vec![gen_op(cx, true, honest)])); c.push(ND::Cvl); }
            _ => c.push(ND::Cv),
        }
    }
    if cx.rng.chance(1, 6) {
        c.push(ND::Gbk);
        c.push(ND::St(vec![OpDesc { code: 'G', arg: 0, kp: true, vo: false, rs: false, cost: 10, defaulting: false }]));
    }
    c
}

/// insert a RESTATING mid-chain marker: a `Materialized` whose payload is exactly the rows flowing at that
/// point (computed by the real sequential engine on the literal prefix). Dropping such a marker must not
/// change the result; the literal chain replaces the buffer by an equal one.
fn with_restating_marker(cx: &mut Ctx, chain: &[ND]) -> Option<Vec<ND>> {
    // positions after which the flowing partition is `Vec<Row>`
    let mut ok_pos: Vec<usize> = vec![];
    let mut grouped = false;
    for (i, n) in chain.iter().enumerate() {
        match n {
            ND::Src(_) | ND::Cv | ND::Cvl | ND::Mat(_) => grouped = false,
            ND::Gbk => grouped = true,
            ND::St(ops) => { if ops.iter().any(|o| o.code == 'G') { grouped = false; } }
        }
        if !grouped && i + 1 < chain.len() { ok_pos.push(i); }
    }
    if ok_pos.is_empty() { return None; }
    let i = *cx.rng.pick(&ok_pos);
    let prefix = build_chain(&chain[..=i]);
    let rows = match guarded(move || rv::exec_seq::<Row>(prefix.chain)) { Ok(Ok(r)) => r, _ => return None };
    let mut out = chain[..=i].to_vec();
    out.push(ND::Mat(rows));
    out.extend_from_slice(&chain[i + 1..]);
    Some(out)
}

fn explain_case(cx: &mut Ctx, prog: &pipe::Prog) {
    use pipe::Coll;
    let p = Pipeline::default();
    let c = pipe::build(&p, prog);
    let id = match &c { Coll::T(x) => x.node_id(), Coll::KV(x) => x.node_id(), Coll::KG(x) => x.node_id(), Coll::R(x) => x.node_id() };
    let plan = match ironbeam::planner::build_plan(&p, id) { Ok(pl) => pl, Err(_) => return };
    let ex = plan.explain();
    let kinds: Vec<String> = plan.chain.iter().map(|n| match n {
        Node::Source { .. } => "Source".to_string(), Node::Stateless(os) => format!("Stateless{}", os.len()),
        Node::GroupByKey { .. } => "GroupByKey".into(),
        Node::CombineValues { local_groups, .. } => if local_groups.is_some() { "CombineValues+lifted".into() } else { "CombineValues".into() },
        Node::CoGroup { .. } => "CoGroup".into(), Node::CombineGlobal { .. } => "CombineGlobal".into(), Node::Materialized(_) => "Materialized".into(),
    }).collect();
    // the chain the RUNNER actually receives, observed through the on_plan hook during a real collect
    let observed: std::sync::Arc<std::sync::Mutex<Vec<Vec<String>>>> = Default::default();
    {
        let o2 = observed.clone();
        ironbeam::verif_hooks::set_plan_callback(Some(std::sync::Arc::new(move |k: &[String]| o2.lock().unwrap().push(k.to_vec()))));
        let _ = guarded(|| pipe::collect(c, pipe::Mode::Seq));
        ironbeam::verif_hooks::set_plan_callback(None);
    }
    let ran: Vec<String> = observed.lock().unwrap().first().cloned().unwrap_or_default();
    let idx = cx.case(format!("EXPLAIN {}", prog.request("seq").splitn(2, ' ').nth(1).unwrap_or("")), ran.join(","), prog.steps.len() >= 2);
    cx.count("plan:explain");
    if ran != kinds {
        cx.oracle_fail(idx, "explain-is-not-the-plan-that-runs", format!("build_plan chain={kinds:?} chain received by the runner={ran:?}"));
    }
    // per-step facts of explain(): barrier flags, op counts of every Stateless step
    for (st, k) in ex.steps.iter().zip(kinds.iter()) {
        let is_barrier = matches!(k.as_str(), "GroupByKey" | "CombineValues" | "CombineValues+lifted" | "CoGroup" | "CombineGlobal");
        let n_ops = k.strip_prefix("Stateless").and_then(|n| n.parse::<usize>().ok());
        let desc_ok = n_ops.is_none_or(|n| st.description.starts_with(&format!("Apply {n} operations")));
        if st.is_barrier != is_barrier || !desc_ok {
            cx.oracle_fail(idx, "explain-is-not-the-plan-that-runs", format!("step {} ({}) barrier={} description={:?} vs chain node {k}", st.step, st.node_type, st.is_barrier, st.description));
        }
    }
    // explain() must list exactly the nodes of the chain that runs, in order, with matching op counts
    let lit = pv::backwalk(&p, id).map(real_optimise).unwrap_or_default();
    let ex_types: Vec<String> = ex.steps.iter().map(|s| s.node_type.clone()).collect();
    let chain_types: Vec<String> = lit.iter().map(|n| match n {
        Node::Source { .. } => "Source", Node::Stateless(_) => "Stateless", Node::GroupByKey { .. } => "GroupByKey",
        Node::CombineValues { .. } => "CombineValues", Node::CoGroup { .. } => "CoGroup", Node::CombineGlobal { .. } => "CombineGlobal", Node::Materialized(_) => "Materialized",
    }.to_string()).collect();
    let stateless_ops: usize = lit.iter().map(|n| if let Node::Stateless(os) = n { os.len() } else { 0 }).sum();
    if ex_types != chain_types || ex.cost_estimate.stateless_ops != stateless_ops || ex.steps.iter().enumerate().any(|(i, s)| s.step != i + 1) {
        cx.oracle_fail(idx, "explain-is-not-the-plan-that-runs", format!("explain={ex_types:?} chain={chain_types:?}"));
    }
}

/// GBK followed by a lifted combine with an APPROXIMATE combiner (t-digest quantiles): the lift pass
/// replaces `build_from_group` (adds + a final compress) by element-wise adds. Oracle only: literal
/// chain vs optimised chain on the real engine, compared exactly.
fn approx_lift_case(cx: &mut Ctx, n: usize, compression: f64) {
    use ironbeam::combiners::ApproxQuantiles;
    let rows: Vec<(i64, f64)> = (0..n).map(|i| ((i % 3) as i64, ((i * 7919) % 1000) as f64 / 8.0)).collect();
    let p = Pipeline::default();
    let out = from_vec(&p, rows).group_by_key().combine_values_lifted(ApproxQuantiles::<f64>::new(vec![0.1, 0.5, 0.9], compression));
    let id = out.node_id();
    let run = |optimise: bool| -> String {
        let chain = match pv::backwalk(&p, id) { Ok(c) => c, Err(e) => return format!("ERR {e}") };
        let chain = if optimise { real_optimise(chain) } else { chain };
        match guarded(move || rv::exec_seq::<(i64, Vec<f64>)>(chain)) {
            Ok(Ok(mut rows)) => { rows.sort_by_key(|r| r.0); rows.iter().map(|(k, qs)| format!("{k}:{}", qs.iter().map(|q| format!("{q:?}")).collect::<Vec<_>>().join("/"))).collect::<Vec<_>>().join(",") }
            Ok(Err(e)) => format!("ERR {e}"),
            Err(_) => "PANIC".into(),
        }
    };
    let lit = run(false);
    let opt = run(true);
    let idx = cx.case(format!("ORACLE-ONLY approx-lift n={n} compression={compression}"), "-".into(), true);
    cx.count("plan:approx-lift");
    if lit != opt {
        cx.oracle_fail(idx, "lift-changes-approximate-combiner-result", format!("literal={lit} optimised={opt}"));
    }
}

/// `group_by_key()` followed by a CLASSIC `combine_values` whose values are the groups themselves
/// (`Count` over `Vec<V>`): a legal, well-typed chain that must NOT be lifted. Oracle only.
fn gbk_then_classic_combine_case(cx: &mut Ctx, rows: Vec<(i64, i64)>, parts: usize) {
    let mut keys: Vec<i64> = rows.iter().map(|r| r.0).collect();
    keys.sort();
    keys.dedup();
    let want: Vec<(i64, u64)> = keys.iter().map(|k| (*k, 1u64)).collect();
    let run = |par: Option<usize>| -> Result<Vec<(i64, u64)>, String> {
        let rows = rows.clone();
        match guarded(move || {
            let p = Pipeline::default();
            let out = from_vec(&p, rows).group_by_key().combine_values(ironbeam::Count);
            match par { None => out.collect_seq(), Some(n) => out.collect_par(None, Some(n)) }
        }) {
            Ok(Ok(mut v)) => { v.sort(); Ok(v) }
            Ok(Err(e)) => Err(format!("Err({e})")),
            Err(m) => Err(format!("panic: {m}")),
        }
    };
    let idx = cx.case(format!("ORACLE-ONLY gbk-then-classic-combine rows={} parts={parts}", rows.len()), "-".into(), rows.len() >= 2);
    cx.count("plan:gbk-then-classic-combine");
    for (mode, r) in [("seq", run(None)), ("par", run(Some(parts)))] {
        if r.as_ref() != Ok(&want) {
            cx.oracle_fail(idx, "gbk-then-classic-combine-wrong", format!("mode={mode} got={r:?} want={want:?}"));
        }
    }
}

pub fn run(cx: &mut Ctx) {
    gbk_then_classic_combine_case(cx, vec![(1, 10), (2, 20), (1, 30)], 2);
    gbk_then_classic_combine_case(cx, vec![], 3);
    for i in 0..cx.budget(20, 300) {
        let n = cx.rng.below(12 + i % 5);
        let rows: Vec<(i64, i64)> = (0..n).map(|_| (cx.rng.range(0, 3), cx.rng.range(-5, 5))).collect();
        let parts = 1 + cx.rng.below(5);
        gbk_then_classic_combine_case(cx, rows, parts);
    }
    for (n, c) in [(12usize, 100.0), (300, 20.0), (2000, 20.0), (5000, 50.0)] { approx_lift_case(cx, n, c); }
    // corpus: the shapes the property names
    let op = |code, arg, kp, vo, rs, cost| OpDesc { code, arg, kp, vo, rs, cost, defaulting: false };
    let dop = |code, arg, cost| OpDesc { code, arg, kp: true, vo: true, rs: false, cost, defaulting: true };
    let src = vec![(0, 1), (0, 2), (1, 3)];
    let corpus: Vec<Vec<ND>> = vec![
        vec![ND::Src(src.clone()), ND::St(vec![op('A', 1, true, true, true, 3)]), ND::St(vec![op('F', 2, true, true, true, 1)])],
        vec![ND::Src(src.clone()), ND::Gbk, ND::Cvl],
        vec![ND::Src(src.clone()), ND::Gbk, ND::Cv],
        vec![ND::Src(src.clone()), ND::Gbk, ND::St(vec![op('H', 0, true, false, false, 10)]), ND::Cvl],
        vec![ND::Src(src.clone()), ND::Mat(src.clone()), ND::St(vec![op('A', 1, true, true, true, 3)]), ND::Mat(src.clone())],
        vec![ND::Src(src.clone()), ND::St(vec![op('A', 1, true, true, true, 3), op('K', 1, false, false, false, 1), op('F', 2, true, true, true, 1)])],
        vec![ND::Src(src.clone()), ND::St(vec![op('A', 1, true, true, true, 2), op('M', 2, true, true, true, 2), op('A', 2, true, true, true, 2)])],
        // a value-only, key-preserving op that does NOT claim reorder safety pins its block
        vec![ND::Src(src.clone()), ND::St(vec![dop('M', 2, 10)]), ND::St(vec![op('F', 2, true, true, true, 1)])],
        vec![ND::Src(src.clone()), ND::St(vec![op('A', 1, true, true, true, 3), dop('A', 1, 10), op('F', 2, true, true, true, 1)])],
    ];
    for c in &corpus { plan_case(cx, c); }
    for c in &[corpus[0].clone(), corpus[1].clone(), corpus[3].clone(), corpus[5].clone(), corpus[6].clone(), corpus[7].clone(), corpus[8].clone()] { planx_case(cx, c); }

    // long all-movable blocks (beyond the small-sort regime of std's sorts)
    cx.notes.push("long all-movable blocks: lengths 21,24,33,40,48,64,100 with tied costs, structural (PLAN) and executed (PLANX)".into());
    for _ in 0..cx.budget(16, 300) { let c = gen_long_chain(cx); cx.count("plan:long-movable-block"); plan_case(cx, &c); planx_case(cx, &c); }

    let n = cx.budget(1500, 30000);
    for _ in 0..n { let c = gen_struct_chain(cx); plan_case(cx, &c); }
    let n = cx.budget(500, 10000);
    for i in 0..n {
        let c = gen_exec_chain(cx, i % 2 == 0);
        planx_case(cx, &c);
        if i % 4 == 0 {
            if let Some(m) = with_restating_marker(cx, &c) { cx.count("plan:executed-with-restating-marker"); planx_case(cx, &m); }
        }
    }

    // builder programs: explain() and planned == reference
    let o = pipe::CheckOpts { par_vs_seq: false, vs_reference: true };
    let n = cx.budget(250, 5000);
    for i in 0..n {
        let opts = pipe::GenOpts { max_steps: 8, max_rows: 20, barriers: true, joins: i % 7 == 0, globals: true, nonlocal_batches: false };
        let p = pipe::gen_prog(&mut cx.rng, &opts);
        if matches!(pipe::reference(&p), pipe::RefOut::Panic) { continue; }
        explain_case(cx, &p);
        let parts = 1 + cx.rng.below(5);
        pipe::check_prog(cx, &p, &[pipe::Mode::Seq, pipe::Mode::Par(parts)], &o);
    }
}
