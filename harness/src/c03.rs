//! C03 — plan optimisation never changes what a pipeline computes.
//!
//! (a) `PLAN <chain>`: the REAL private passes (hook `planner::verif::{fuse, reorder, lift, drop_mid}`)
//!     run one by one on SYNTHETIC chains — custom `DynOp`s with arbitrary capability flags / costs,
//!     mid-chain and terminal `Materialized`, GBK followed by lifted and non-lifted combines — and the
//!     resulting shapes are compared op by op (pointer identity) with the model's passes.
//! (b) `PLANX <chain>`: well-typed synthetic chains are EXECUTED by the real engines (hook
//!     `runner::verif::{exec_seq, exec_par}`) literally and after optimisation. Oracle: same result.
//! (c) `EXPLAIN`: `Plan::explain()` of `build_plan` lists exactly the nodes of the optimised chain.
//! (d) programs through the public builders: planned run == plain-vector reference (pipe::reference).
//!
//! Round 3 (audit-C): every PLAN case also runs the REAL `build_plan` on the same synthetic chain (a pipeline
//! built through `Pipeline::verif_insert_node/verif_connect`): its chain must be the four passes composed, its
//! `optimizations` the passes' own decisions in the documented order, every decision is reported iff its pass
//! changed the chain (reorder: one decision per sorted block), `explain()` is recomputed from the chain
//! independently (steps, barrier flags, costs, descriptions, counters, Display text) and everything is compared
//! with the model (`Model/PlannerExplain.lean`). PLANX additionally runs `Runner::run_collect` (which plans by
//! itself) sequentially and in parallel and observes the chain it received. Synthetic chains contain
//! `CombineGlobal` (a user combiner, every fan-out shape) and `CoGroup` (sub-chains with their own blocks)
//! nodes. `PARTS`: `suggest_partitions` and the partition count `collect_par(None, None)` really uses (counted
//! by an operator that records every partition it is applied to). `LIFTNEG`: a user `LiftableCombiner` whose
//! `build_from_group` is not the fold — a contract breach OUTSIDE the property, recorded, never a violation.

use crate::ctx::{Ctx, guarded};
use crate::pipe;
use ironbeam::collection::LiftableCombiner;
use ironbeam::combiners::Sum;
use ironbeam::node::{DynOp, Node};
use ironbeam::planner::verif as pv;
use ironbeam::planner::{OptimizationDecision, Plan, build_plan};
use ironbeam::runner::verif as rv;
use ironbeam::type_token::{Partition, TypeTag, vec_ops_for};
use ironbeam::{CombineFn, ExecMode, NodeId, Pipeline, Runner, from_vec};
use std::sync::{Arc, Mutex};

type Row = (i64, i64);
type GRow = (i64, Vec<i64>);

#[derive(Clone, Debug)]
struct OpDesc { code: char, arg: i64, kp: bool, vo: bool, rs: bool, cost: u8, /// relies on the trait's DEFAULT `reorder_safe_with_value_only` (documented: false)
    defaulting: bool }

struct CustomOp(OpDesc);
impl DynOp for CustomOp {
    fn apply(&self, input: Partition) -> Partition {
        let d = &self.0;
        match d.code {
            'G' => { let v = *input.downcast::<Vec<GRow>>().expect("G: groups"); Box::new(v.into_iter().map(|(k, vs)| (k, vs.iter().sum::<i64>())).collect::<Vec<Row>>()) }
            'H' => match input.downcast::<Vec<GRow>>() {
                Ok(v) => Box::new(v.into_iter().filter(|r| r.0.rem_euclid(2) == 0).collect::<Vec<GRow>>()),
                Err(other) => { let v = *other.downcast::<Vec<Row>>().expect("H: rows"); Box::new(v.into_iter().filter(|r| r.0.rem_euclid(2) == 0).collect::<Vec<Row>>()) }
            },
            c => {
                let v = *input.downcast::<Vec<Row>>().expect("custom op: rows");
                let out: Vec<Row> = match c {
                    'A' => v.into_iter().map(|(k, x)| (k, x + d.arg)).collect(),
                    'M' => v.into_iter().map(|(k, x)| (k, x * d.arg)).collect(),
                    'F' => v.into_iter().filter(|(_, x)| x.rem_euclid(d.arg.max(1)) != 0).collect(),
                    'K' => v.into_iter().map(|(k, x)| (k + d.arg, x)).collect(),
                    'D' => v.into_iter().flat_map(|r| vec![r, r]).collect(),
                    _ => panic!("unknown op"),
                };
                Box::new(out)
            }
        }
    }
    fn key_preserving(&self) -> bool { self.0.kp }
    fn value_only(&self) -> bool { self.0.vo }
    fn reorder_safe_with_value_only(&self) -> bool { self.0.rs }
    fn cost_hint(&self) -> u8 { self.0.cost }
}

/// same semantics, but does NOT override `reorder_safe_with_value_only` (and, when its cost is 10, not
/// `cost_hint` either): what a user-written operator that only states the two descriptive flags looks like
struct DefaultingOp(OpDesc);
impl DynOp for DefaultingOp {
    fn apply(&self, input: Partition) -> Partition { CustomOp(self.0.clone()).apply(input) }
    fn key_preserving(&self) -> bool { self.0.kp }
    fn value_only(&self) -> bool { self.0.vo }
    fn cost_hint(&self) -> u8 { self.0.cost }
}

/// user combiner for the synthetic `CombineGlobal` nodes: component-wise sums of the rows
#[derive(Clone)]
struct PairSum;
impl CombineFn<Row, Row, Row> for PairSum {
    fn create(&self) -> Row { (0, 0) }
    fn add_input(&self, acc: &mut Row, v: Row) { acc.0 += v.0; acc.1 += v.1; }
    fn merge(&self, acc: &mut Row, other: Row) { acc.0 += other.0; acc.1 += other.1; }
    fn finish(&self, acc: Row) -> Row { acc }
}

/// a user `LiftableCombiner` that BREAKS the trait's contract: `build_from_group` is not the fold of `add_input`
/// (it adds 1000). The planner lifts on `local_groups.is_some()` alone, so GBK -> lifted combine and the direct combine
/// differ for it. Outside the property (the combiner is not a combiner); used as a documented negative example.
#[derive(Clone)]
struct BadSum;
impl CombineFn<i64, i64, i64> for BadSum {
    fn create(&self) -> i64 { 0 }
    fn add_input(&self, acc: &mut i64, v: i64) { *acc += v; }
    fn merge(&self, acc: &mut i64, other: i64) { *acc += other; }
    fn finish(&self, acc: i64) -> i64 { acc }
}
impl LiftableCombiner<i64, i64, i64> for BadSum {
    fn build_from_group(&self, values: &[i64]) -> i64 { values.iter().sum::<i64>() + 1000 }
}

#[derive(Clone, Debug)]
enum ND { Src(Vec<Row>), St(Vec<OpDesc>), Gbk, Cvl, Cv, Cvb, Cg(Option<usize>), Cog(Vec<ND>, Vec<ND>), Cogn, Mat(Vec<Row>) }

fn b01(b: bool) -> char { if b { '1' } else { '0' } }
fn rows_enc(r: &[Row]) -> String { if r.is_empty() { "-".into() } else { r.iter().map(|(k, v)| format!("{k}:{v}")).collect::<Vec<_>>().join(",") } }
fn op_enc(o: &OpDesc) -> String { format!("{}{}/{}{}{}/{}", o.code, o.arg, b01(o.kp), b01(o.vo), b01(o.rs), o.cost) }
fn node_enc(n: &ND) -> String {
    match n {
        ND::Src(r) => format!("SRC {}", rows_enc(r)),
        ND::St(ops) => format!("ST {}", ops.iter().map(op_enc).collect::<Vec<_>>().join(";")),
        ND::Gbk => "GBK".into(), ND::Cvl => "CVL".into(), ND::Cv => "CV".into(), ND::Cvb => "CVB".into(),
        ND::Cg(fo) => format!("CG {}", fo.map_or("none".to_string(), |f| f.to_string())),
        ND::Cog(l, r) => {
            let side = |c: &[ND]| if c.is_empty() { "< >".to_string() } else { format!("< {} >", c.iter().map(node_enc).collect::<Vec<_>>().join(" & ")) };
            format!("COG {} {}", side(l), side(r))
        }
        ND::Cogn => "COGN".into(),
        ND::Mat(r) => format!("MAT {}", rows_enc(r)),
    }
}
fn chain_enc(c: &[ND]) -> String { c.iter().map(node_enc).collect::<Vec<_>>().join(" | ") }

struct Built { chain: Vec<Node>, ops: Vec<(*const (), String)> }

fn node_of<T: ironbeam::RFBound>(p: &Pipeline, pc: &ironbeam::PCollection<T>) -> Node {
    let (nodes, _) = p.snapshot();
    nodes.get(&pc.node_id()).cloned().expect("node")
}

/// the co-group closure of the synthetic `CoGroup` nodes: inner join of rows, `(k, v) x (k, w) -> (k, 100 v + w)`
fn cog_exec(l: Partition, r: Partition) -> Partition {
    let l = *l.downcast::<Vec<Row>>().expect("cog: left rows");
    let r = *r.downcast::<Vec<Row>>().expect("cog: right rows");
    let mut out: Vec<Row> = vec![];
    for (k, v) in &l { for (k2, w) in &r { if k == k2 { out.push((*k, v * 100 + w)); } } }
    Box::new(out)
}
fn cog_coalesce(parts: Vec<Partition>) -> Partition {
    let mut out: Vec<Row> = vec![];
    for p in parts { out.extend(*p.downcast::<Vec<Row>>().expect("cog: coalesce rows")); }
    Box::new(out)
}

struct Protos { gbk: Node, cvl: Node, cv: Node, cvb: Node, cg: Vec<(Option<usize>, Node)> }
const FANOUTS: [Option<usize>; 6] = [None, Some(0), Some(1), Some(2), Some(3), Some(64)];
fn protos() -> Protos {
    let p = Pipeline::default();
    Protos {
        gbk: node_of(&p, &from_vec(&p, vec![(0i64, 0i64)]).group_by_key()),
        cvl: node_of(&p, &from_vec(&p, vec![(0i64, vec![0i64])]).combine_values_lifted(Sum::<i64>::new())),
        cv: node_of(&p, &from_vec(&p, vec![(0i64, 0i64)]).combine_values(Sum::<i64>::new())),
        cvb: node_of(&p, &from_vec(&p, vec![(0i64, vec![0i64])]).combine_values_lifted(BadSum)),
        cg: FANOUTS.iter().map(|fo| (*fo, node_of(&p, &from_vec(&p, vec![(0i64, 0i64)]).combine_globally(PairSum, *fo)))).collect(),
    }
}

fn build_nodes(desc: &[ND], pr: &Protos, ops: &mut Vec<(*const (), String)>) -> Vec<Node> {
    desc.iter().map(|n| match n {
        ND::Src(rows) => Node::Source { payload: Arc::new(rows.clone()), vec_ops: vec_ops_for::<Row>(), elem_tag: TypeTag::of::<Row>() },
        ND::St(ds) => Node::Stateless(ds.iter().map(|d| {
            let a: Arc<dyn DynOp> = if d.defaulting { Arc::new(DefaultingOp(d.clone())) } else { Arc::new(CustomOp(d.clone())) };
            ops.push((Arc::as_ptr(&a) as *const (), format!("{}{}", d.code, d.arg)));
            a
        }).collect()),
        ND::Gbk => pr.gbk.clone(), ND::Cvl => pr.cvl.clone(), ND::Cv => pr.cv.clone(), ND::Cvb => pr.cvb.clone(),
        ND::Cg(fo) => pr.cg.iter().find(|(f, _)| f == fo).map(|x| x.1.clone()).expect("fan-out prototype"),
        ND::Cog(l, r) => Node::CoGroup {
            left_chain: Arc::new(build_nodes(l, pr, ops)), right_chain: Arc::new(build_nodes(r, pr, ops)),
            coalesce_left: Arc::new(cog_coalesce), coalesce_right: Arc::new(cog_coalesce), exec: Arc::new(cog_exec),
        },
        ND::Cogn => Node::CoGroup {
            left_chain: Arc::new(vec![]), right_chain: Arc::new(vec![]),
            coalesce_left: Arc::new(cog_coalesce), coalesce_right: Arc::new(cog_coalesce), exec: Arc::new(cog_exec),
        },
        ND::Mat(rows) => Node::Materialized(Arc::new(rows.clone())),
    }).collect()
}

fn build_chain(desc: &[ND]) -> Built {
    let pr = protos();
    let mut ops = vec![];
    let chain = build_nodes(desc, &pr, &mut ops);
    Built { chain, ops }
}

/// the same chain as a pipeline graph (hook `Pipeline::verif_insert_node/verif_connect`), so that the REAL
/// `build_plan` / `Runner::run_collect` can be called on it
fn pipeline_of(chain: &[Node]) -> (Pipeline, Option<NodeId>) {
    let p = Pipeline::default();
    let mut prev: Option<NodeId> = None;
    for n in chain {
        let id = p.verif_insert_node(n.clone());
        if let Some(pr) = prev { p.verif_connect(pr, id); }
        prev = Some(id);
    }
    (p, prev)
}

fn shape(chain: &[Node], ops: &[(*const (), String)]) -> String {
    chain.iter().map(|n| match n {
        Node::Source { .. } => "SRC".to_string(),
        Node::Stateless(os) => format!("ST[{}]", os.iter().map(|o| {
            let ptr = Arc::as_ptr(o) as *const ();
            ops.iter().find(|(q, _)| *q == ptr).map_or("?".to_string(), |(_, l)| l.clone())
        }).collect::<Vec<_>>().join(";")),
        Node::GroupByKey { .. } => "GBK".into(),
        Node::CombineValues { local_groups, .. } => if local_groups.is_some() { "CVL".into() } else { "CV".into() },
        Node::CoGroup { .. } => "COGROUP".into(),
        Node::CombineGlobal { .. } => "CG".into(),
        Node::Materialized(_) => "MAT".into(),
    }).collect::<Vec<_>>().join(",")
}

fn real_optimise(chain: Vec<Node>) -> Vec<Node> { pv::drop_mid(pv::lift(pv::reorder(pv::fuse(chain)))) }

/// `hw = num_cpus::get().max(2)` as the crate sees it: `Runner::default().default_partitions` is `2 * hw`
fn hw() -> usize { Runner::default().default_partitions / 2 }

fn kinds_of(chain: &[Node]) -> Vec<String> {
    chain.iter().map(|n| match n {
        Node::Source { .. } => "Source".to_string(), Node::Stateless(os) => format!("Stateless{}", os.len()),
        Node::GroupByKey { .. } => "GroupByKey".into(),
        Node::CombineValues { local_groups, .. } => if local_groups.is_some() { "CombineValues+lifted".into() } else { "CombineValues".into() },
        Node::CoGroup { .. } => "CoGroup".into(), Node::CombineGlobal { .. } => "CombineGlobal".into(), Node::Materialized(_) => "Materialized".into(),
    }).collect()
}

/* ---------------------------------------------------------------- decisions and explain(): rendering + independent oracle */

fn opt_usize(o: Option<usize>) -> String { o.map_or("none".to_string(), |n| n.to_string()) }

fn dec_enc(d: &OptimizationDecision) -> String {
    match d {
        OptimizationDecision::FusedStateless { blocks_before, blocks_after, ops_count } => format!("Fused({blocks_before},{blocks_after},{ops_count})"),
        OptimizationDecision::ReorderedValueOps { ops_count, by_cost } => format!("Reordered({ops_count},{})", u8::from(*by_cost)),
        OptimizationDecision::LiftedGBKCombine { removed_barrier } => format!("Lifted({})", u8::from(*removed_barrier)),
        OptimizationDecision::DroppedMidMaterialized { count } => format!("Dropped({count})"),
        OptimizationDecision::PartitionSuggestion { source_len, partitions } => format!("Parts({},{partitions})", opt_usize(*source_len)),
    }
}
fn decs_enc<'a>(ds: impl IntoIterator<Item = &'a OptimizationDecision>) -> String {
    let v: Vec<String> = ds.into_iter().map(dec_enc).collect();
    if v.is_empty() { "-".into() } else { v.join(",") }
}

/// canonical one-line form of `plan.explain()` (the Lean side is `Explanation.render`)
fn render_explain(plan: &Plan) -> String {
    let ex = plan.explain();
    let steps: Vec<String> = ex.steps.iter().map(|s| format!("{}:{}:{}:{}:{}", s.step, s.node_type, u8::from(s.is_barrier), s.cost_hint, s.description.replace(' ', "_"))).collect();
    format!("opts={} est={}/{}/{}/{} parts={} steps={}", decs_enc(&ex.optimizations), ex.cost_estimate.barriers, ex.cost_estimate.total_ops,
        ex.cost_estimate.stateless_ops, opt_usize(ex.cost_estimate.source_size), opt_usize(ex.suggested_partitions), if steps.is_empty() { "-".into() } else { steps.join(";") })
}

/// "The plan reported by explain is the plan that runs", evaluated WITHOUT the model: everything `explain()` says is
/// recomputed here from `plan.chain` (the chain `run_collect` executes) with this file's own tables.
fn explain_oracle(cx: &mut Ctx, idx: usize, plan: &Plan) {
    let ex = plan.explain();
    let chain = &plan.chain;
    let mut fails: Vec<(&'static str, String)> = vec![];
    if ex.steps.len() != chain.len() {
        fails.push(("explain-is-not-the-plan-that-runs", format!("{} steps for a chain of {} nodes", ex.steps.len(), chain.len())));
    }
    let (mut barriers, mut total, mut stateless, mut source_size) = (0usize, 0usize, 0usize, None::<usize>);
    for (i, (st, n)) in ex.steps.iter().zip(chain.iter()).enumerate() {
        let (ty, barrier, cost, desc): (&str, bool, u64, String) = match n {
            Node::Source { payload, vec_ops, .. } => {
                source_size = vec_ops.len(payload.as_ref());
                ("Source", false, 1, format!("Read data source ({})", source_size.map_or("unknown size".to_string(), |s| format!("{s} elements"))))
            }
            Node::Stateless(os) => {
                stateless += os.len(); total += os.len();
                let list: Vec<String> = os.iter().map(|o| format!("op(cost={})", o.cost_hint())).collect();
                ("Stateless", false, os.iter().map(|o| u64::from(o.cost_hint())).sum(), format!("Apply {} operations: [{}]", os.len(), list.join(", ")))
            }
            Node::GroupByKey { .. } => { barriers += 1; total += 1; ("GroupByKey", true, 100, "Group elements by key (BARRIER)".into()) }
            Node::CombineValues { local_groups, .. } => {
                barriers += 1; total += 1;
                ("CombineValues", true, 80, format!("Combine values per key {} (BARRIER)", if local_groups.is_some() { "with local pre-aggregation" } else { "on pairs" }))
            }
            Node::CoGroup { .. } => { barriers += 1; total += 1; ("CoGroup", true, 150, "Co-group two collections (BARRIER)".into()) }
            Node::CombineGlobal { fanout, .. } => {
                barriers += 1; total += 1;
                ("CombineGlobal", true, 90, format!("Global aggregation with fanout={} (BARRIER)", fanout.map_or("unbounded".to_string(), |f| f.to_string())))
            }
            Node::Materialized(_) => { total += 1; ("Materialized", false, 1, "Materialize results".into()) }
        };
        if st.step != i + 1 || st.node_type != ty || st.is_barrier != barrier {
            fails.push(("explain-is-not-the-plan-that-runs", format!("step {} reported as #{} {} barrier={} but the chain has {ty} barrier={barrier} there", i + 1, st.step, st.node_type, st.is_barrier)));
        }
        if st.cost_hint != cost { fails.push(("explain-step-cost-wrong", format!("step {} ({ty}): cost_hint {} but the node's cost is {cost}", i + 1, st.cost_hint))); }
        if st.description != desc { fails.push(("explain-step-description-wrong", format!("step {} ({ty}): {:?} but the node is {desc:?}", i + 1, st.description))); }
    }
    let ce = &ex.cost_estimate;
    if (ce.barriers, ce.total_ops, ce.stateless_ops, ce.source_size) != (barriers, total, stateless, source_size) {
        fails.push(("explain-miscounts-the-plan", format!("cost_estimate barriers/total_ops/stateless_ops/source_size = {}/{}/{}/{:?}, the chain has {barriers}/{total}/{stateless}/{source_size:?}", ce.barriers, ce.total_ops, ce.stateless_ops, ce.source_size)));
    }
    if decs_enc(&ex.optimizations) != decs_enc(&plan.optimizations) || ex.suggested_partitions != plan.suggested_partitions {
        fails.push(("explain-does-not-report-the-plans-decisions", format!("explain: {} / {:?}; plan: {} / {:?}", decs_enc(&ex.optimizations), ex.suggested_partitions, decs_enc(&plan.optimizations), plan.suggested_partitions)));
    }
    // the Display text says the same numbers (looked up by label, not by layout)
    let text = format!("{ex}");
    let line_val = |label: &str| text.lines().find(|l| l.contains(label)).map(|l| l.split(label).nth(1).unwrap_or("").trim().to_string());
    let mut want: Vec<(&str, Option<String>)> = vec![
        ("Source Size:", Some(ce.source_size.map_or("Unknown".to_string(), |s| s.to_string()))),
        ("Total Operations:", Some(ce.total_ops.to_string())), ("Stateless Ops:", Some(ce.stateless_ops.to_string())), ("Barrier Ops:", Some(ce.barriers.to_string())),
    ];
    want.push(("Suggested Parts:", ex.suggested_partitions.map(|p| p.to_string())));
    for (label, w) in &want {
        if line_val(label) != *w { fails.push(("explain-display-disagrees-with-explain", format!("the printed explanation says {label} {:?}, explain() says {w:?}", line_val(label)))); }
    }
    for st in &ex.steps {
        let head = format!("Step {}: {}", st.step, st.node_type);
        let ok = text.lines().any(|l| l.contains(&head) && l.contains("[BARRIER]") == st.is_barrier && (l.trim_end().ends_with(&head) || l.contains("[BARRIER]")))
            && text.lines().any(|l| l.contains(&st.description)) && text.lines().any(|l| l.contains(&format!("Cost: {}", st.cost_hint)));
        if !ok { fails.push(("explain-display-disagrees-with-explain", format!("the printed explanation lacks step {} ({}, barrier={}, cost {}, {:?})", st.step, st.node_type, st.is_barrier, st.cost_hint, st.description))); break; }
    }
    if text.contains("OPTIMIZATIONS APPLIED") == ex.optimizations.is_empty() {
        fails.push(("explain-display-disagrees-with-explain", "optimisation section present iff no decision".into()));
    }
    for (sig, d) in fails { cx.oracle_fail(idx, sig, d); }
}

/// what `suggest_partitions` documents, recomputed: ceil(len / 64 000) clamped to [hw, 8 hw]
fn expected_suggestion(len: Option<usize>) -> Option<usize> {
    let n = len?;
    let h = hw();
    Some(n.div_ceil(64_000).max(h).min(h * 8))
}

fn plan_case(cx: &mut Ctx, desc: &[ND]) {
    let b = build_chain(desc);
    let (f, fdec) = pv::fuse_tracked(b.chain.clone());
    let (r, rdec) = pv::reorder_tracked(f.clone());
    let (l, ldec) = pv::lift_tracked(r.clone());
    let (d, ddec) = pv::drop_mid_tracked(l.clone());
    // the REAL build_plan on the same chain as a pipeline graph
    let (p, last) = pipeline_of(&b.chain);
    let plan = match last.map(|id| build_plan(&p, id)) { Some(Ok(pl)) => pl, _ => { cx.count("plan:build_plan-error"); return; } };
    let sh = |c: &[Node]| { let s = shape(c, &b.ops); if s.is_empty() { "-".to_string() } else { s } };
    let ans = format!("fuse={} reorder={} lift={} drop={} fdec={} rdec={} ldec={} ddec={} plan={} {}", sh(&f), sh(&r), sh(&l), sh(&d),
        decs_enc(fdec.as_ref()), decs_enc(&rdec), decs_enc(ldec.as_ref()), decs_enc(ddec.as_ref()), sh(&plan.chain), render_explain(&plan));
    let idx = cx.case(format!("PLAN cpus={} {}", hw(), chain_enc(desc)), ans, desc.len() >= 3);
    cx.count("plan:structural");
    // ---- build_plan is the four passes in the documented order
    if sh(&plan.chain) != sh(&d) {
        cx.oracle_fail(idx, "build-plan-chain-is-not-the-four-passes-composed", format!("build_plan: {} ; fuse->reorder->lift->drop_mid: {}", sh(&plan.chain), sh(&d)));
    }
    let src_len = match b.chain.first() { Some(Node::Source { payload, vec_ops, .. }) => vec_ops.len(payload.as_ref()), _ => None };
    let want_sug = expected_suggestion(src_len);
    if plan.suggested_partitions != want_sug {
        cx.oracle_fail(idx, "partition-suggestion-wrong", format!("suggested {:?} for source length {src_len:?} on {} hardware threads, documented heuristic gives {want_sug:?}", plan.suggested_partitions, hw()));
    }
    let mut want_decs: Vec<String> = fdec.iter().chain(rdec.iter()).chain(ldec.iter()).chain(ddec.iter()).map(dec_enc).collect();
    if let Some(parts) = want_sug { want_decs.push(format!("Parts({},{parts})", opt_usize(src_len))); }
    let got_decs: Vec<String> = plan.optimizations.iter().map(dec_enc).collect();
    if got_decs != want_decs {
        cx.oracle_fail(idx, "build-plan-decisions-are-not-the-passes-decisions-in-order", format!("build_plan reports {got_decs:?}; the passes report {want_decs:?}"));
    }
    // ---- a decision is reported iff its pass changed the chain
    let n_st = |c: &[Node]| c.iter().filter(|n| matches!(n, Node::Stateless(_))).count();
    let n_ops = |c: &[Node]| c.iter().map(|n| if let Node::Stateless(os) = n { os.len() } else { 0 }).sum::<usize>();
    if fdec.is_some() != (sh(&f) != sh(&b.chain)) {
        cx.oracle_fail(idx, "fuse-decision-not-reported-iff-the-pass-changed-the-chain", format!("decision {} for {} -> {}", decs_enc(fdec.as_ref()), sh(&b.chain), sh(&f)));
    }
    if let Some(OptimizationDecision::FusedStateless { blocks_before, blocks_after, ops_count }) = &fdec {
        if (*blocks_before, *blocks_after, *ops_count) != (n_st(&b.chain), n_st(&f), n_ops(&b.chain)) {
            cx.oracle_fail(idx, "fuse-decision-miscounts", format!("reported {blocks_before} -> {blocks_after} blocks, {ops_count} ops; the chains have {} -> {} blocks, {} ops", n_st(&b.chain), n_st(&f), n_ops(&b.chain)));
        }
    } else if fdec.is_some() { cx.oracle_fail(idx, "fuse-decision-miscounts", format!("wrong kind of decision {}", decs_enc(fdec.as_ref()))); }
    // reorder: exactly one decision per block the pass sorts (all ops movable, more than one op), in chain order, carrying the block's length
    let sorted_blocks: Vec<String> = f.iter().filter_map(|n| match n {
        Node::Stateless(os) if os.len() > 1 && os.iter().all(|o| o.value_only() && o.key_preserving() && o.reorder_safe_with_value_only()) => Some(format!("Reordered({},1)", os.len())),
        _ => None }).collect();
    let got_r: Vec<String> = rdec.iter().map(dec_enc).collect();
    if got_r != sorted_blocks {
        cx.oracle_fail(idx, "reorder-decisions-not-one-per-sorted-block", format!("reported {got_r:?}; all-movable blocks of more than one op: {sorted_blocks:?}"));
    }
    if sh(&r) != sh(&f) && rdec.is_empty() {
        cx.oracle_fail(idx, "reorder-changed-the-chain-without-reporting", format!("{} -> {}", sh(&f), sh(&r)));
    }
    if ldec.is_some() != (sh(&l) != sh(&r)) || ldec.as_ref().is_some_and(|x| dec_enc(x) != "Lifted(1)") {
        cx.oracle_fail(idx, "lift-decision-not-reported-iff-the-pass-changed-the-chain", format!("decision {} for {} -> {}", decs_enc(ldec.as_ref()), sh(&r), sh(&l)));
    }
    if ddec.is_some() != (l.len() != d.len()) || ddec.as_ref().is_some_and(|x| dec_enc(x) != format!("Dropped({})", l.len() - d.len())) {
        cx.oracle_fail(idx, "drop-decision-not-reported-iff-the-pass-changed-the-chain", format!("decision {} for {} -> {}", decs_enc(ddec.as_ref()), sh(&l), sh(&d)));
    }
    explain_oracle(cx, idx, &plan);
    // structural legality, independent of the model: the multiset of op labels is unchanged by every pass,
    // barriers keep their relative order, the terminal node survives
    let labels = |c: &[Node]| { let mut v: Vec<String> = vec![]; for n in c { if let Node::Stateless(os) = n { for o in os { let ptr = Arc::as_ptr(o) as *const (); v.push(b.ops.iter().find(|(q, _)| *q == ptr).map_or("?".into(), |(_, l)| l.clone())); } } } v };
    let before = labels(&b.chain);
    let after = labels(&d);
    let (mut s1, mut s2) = (before.clone(), after.clone());
    s1.sort(); s2.sort();
    if s1 != s2 { cx.oracle_fail(idx, "optimise-drops-or-duplicates-an-op", format!("before={before:?} after={after:?}")); }
    // the reorder pass is EXACTLY: every all-movable fused block of more than one op stably sorted by (cost != 1, cost),
    // every other block untouched — recomputed here with std's stable sort on the descriptors, nothing from the planner
    {
        let want_blocks: Vec<Vec<String>> = stable_sorted_desc(desc).iter().filter_map(|n| if let ND::St(ops) = n { Some(ops.iter().map(|o| format!("{}{}", o.code, o.arg)).collect()) } else { None }).collect();
        let got_blocks: Vec<Vec<String>> = r.iter().filter_map(|n| if let Node::Stateless(os) = n { Some(os.iter().map(|o| { let ptr = Arc::as_ptr(o) as *const (); b.ops.iter().find(|(q, _)| *q == ptr).map_or("?".into(), |(_, l)| l.clone()) }).collect()) } else { None }).collect();
        if want_blocks != got_blocks {
            let i = want_blocks.iter().zip(got_blocks.iter()).position(|(a, b)| a != b);
            cx.oracle_fail(idx, "reorder-pass-is-not-the-stable-cost-sort", format!("first differing block: planner {:?}, stable sort by (cost != 1, cost) of an all-movable block / identity otherwise {:?}", i.map(|i| &got_blocks[i]), i.map(|i| &want_blocks[i])));
        }
    }
    // ops may only move inside an all-movable fused block
    if before != after {
        let movable_everywhere = desc.iter().all(|n| match n { ND::St(ops) => ops.iter().all(|o| o.kp && o.vo && o.rs), _ => true });
        if !movable_everywhere {
            // find a fused block containing a non-movable op whose order changed
            let fused_blocks: Vec<Vec<(String, bool)>> = fused_desc_blocks(desc);
            let opt_blocks: Vec<Vec<String>> = r.iter().filter_map(|n| if let Node::Stateless(os) = n { Some(os.iter().map(|o| { let ptr = Arc::as_ptr(o) as *const (); b.ops.iter().find(|(q, _)| *q == ptr).map_or("?".into(), |(_, l)| l.clone()) }).collect()) } else { None }).collect();
            for (fb, ob) in fused_blocks.iter().zip(opt_blocks.iter()) {
                let names: Vec<String> = fb.iter().map(|x| x.0.clone()).collect();
                if &names != ob && fb.iter().any(|x| !x.1) {
                    cx.oracle_fail(idx, "reorders-a-block-containing-a-non-movable-op", format!("block={names:?} became {ob:?}"));
                }
            }
        }
    }
    // barriers (everything that is not a Stateless block or a dropped marker) keep their kind and order, except that
    // a GBK directly followed by a lifted combine becomes a plain combine
    {
        let mut want: Vec<&str> = vec![];
        let fused: Vec<&ND> = desc.iter().collect();
        let mut i = 0;
        // the window is looked for after fusion: Stateless nodes between GBK and CVL block it, markers too
        while i < fused.len() {
            match fused[i] {
                ND::St(_) => {}
                ND::Gbk if i + 1 < fused.len() && matches!(fused[i + 1], ND::Cvl | ND::Cvb) => { want.push("CV"); i += 1; }
                ND::Mat(_) => { if i + 1 == fused.len() { want.push("MAT"); } }
                ND::Src(_) => want.push("SRC"), ND::Gbk => want.push("GBK"), ND::Cvl | ND::Cvb => want.push("CVL"), ND::Cv => want.push("CV"),
                ND::Cg(_) => want.push("CG"), ND::Cog(..) | ND::Cogn => want.push("COGROUP"),
            }
            i += 1;
        }
        let got: Vec<String> = sh(&d).split(',').filter(|x| !x.starts_with("ST[") && *x != "-").map(str::to_string).collect();
        if got != want { cx.oracle_fail(idx, "optimise-changes-the-barrier-sequence", format!("non-stateless nodes {got:?}, expected {want:?}")); }
    }
    if let Some(last) = desc.last() {
        let last_kind = match last { ND::Src(_) => "SRC", ND::St(_) => "ST", ND::Gbk => "GBK", ND::Cvl | ND::Cvb => "CVL", ND::Cv => "CV", ND::Cg(_) => "CG", ND::Cog(..) | ND::Cogn => "COGROUP", ND::Mat(_) => "MAT" };
        let got = shape(&d, &b.ops);
        let got_last = got.rsplit(',').next().unwrap_or("").to_string();
        let lifted_tail = desc.len() >= 2 && matches!(desc[desc.len() - 2], ND::Gbk) && matches!(last, ND::Cvl | ND::Cvb);
        if !(got_last.starts_with(last_kind) || (lifted_tail && got_last == "CV")) {
            cx.oracle_fail(idx, "optimise-changes-the-terminal-node", format!("terminal {last_kind} became {got_last}"));
        }
    }
}

fn fused_desc_blocks(desc: &[ND]) -> Vec<Vec<(String, bool)>> {
    let mut out: Vec<Vec<(String, bool)>> = vec![];
    let mut cur: Option<Vec<(String, bool)>> = None;
    for n in desc {
        match n {
            ND::St(ops) => { let c = cur.get_or_insert_with(Vec::new); for o in ops { c.push((format!("{}{}", o.code, o.arg), o.kp && o.vo && o.rs)); } }
            _ => { if let Some(c) = cur.take() { out.push(c); } }
        }
    }
    if let Some(c) = cur.take() { out.push(c); }
    out
}

fn exec_answer(r: Result<anyhow::Result<Vec<Row>>, String>) -> String {
    match r {
        Err(_) => "PANIC".into(),
        Ok(Err(e)) => {
            let m = format!("{e}");
            if m.contains("unexpected") { "ERR:unexpected-source".into() }
            else if m.contains("must start with a Source") { "ERR:no-source".into() }
            else if m.contains("nested CoGroup") { "ERR:nested-cogroup".into() }
            else { format!("ERR:other:{}", m.replace(' ', "_")) }
        }
        Ok(Ok(mut rows)) => { rows.sort(); rows_enc(&rows) }
    }
}

/// `Runner::run_collect` on the chain as a pipeline graph (it plans by itself); returns the result and the node kinds
/// of the chain it executed (hook `verif_hooks::on_plan`)
fn run_collect_on(desc: &[ND], mode: ExecMode) -> (String, Vec<String>) {
    let b = build_chain(desc);
    let (p, last) = pipeline_of(&b.chain);
    let Some(id) = last else { return ("ERR:empty".into(), vec![]) };
    let observed: Arc<Mutex<Vec<Vec<String>>>> = Default::default();
    let o2 = observed.clone();
    ironbeam::verif_hooks::set_plan_callback(Some(Arc::new(move |k: &[String]| o2.lock().unwrap().push(k.to_vec()))));
    let r = guarded(move || Runner { mode, ..Default::default() }.run_collect::<Row>(&p, id));
    ironbeam::verif_hooks::set_plan_callback(None);
    let ran = observed.lock().unwrap().first().cloned().unwrap_or_default();
    (exec_answer(r), ran)
}

fn planx_case(cx: &mut Ctx, desc: &[ND]) { planx_case_kind(cx, desc, "PLANX") }

fn planx_case_kind(cx: &mut Ctx, desc: &[ND], kind: &str) {
    let parts = 1 + cx.rng.below(4);
    let run = |optimise: bool, par: Option<usize>, skip_reorder: bool| -> String {
        let b = build_chain(desc);
        ironbeam::verif_hooks::set_skip_reorder(skip_reorder);
        let chain = if optimise { real_optimise(b.chain) } else { b.chain };
        ironbeam::verif_hooks::set_skip_reorder(false);
        exec_answer(guarded(move || match par { None => rv::exec_seq::<Row>(chain), Some(n) => rv::exec_par::<Row>(&chain, n) }))
    };
    let lit = run(false, None, false);
    let opt = run(true, None, false);
    let optp = run(true, Some(parts), false);
    let (rc, ran) = run_collect_on(desc, ExecMode::Sequential);
    let (rcp, ranp) = run_collect_on(desc, ExecMode::Parallel { threads: None, partitions: Some(parts) });
    let ans = format!("lit={lit} opt={opt} par={optp} run={rc} runpar={rcp} ran={}", ran.join(","));
    let idx = cx.case(format!("{kind} cpus={} parts={parts} {}", hw(), chain_enc(desc)), ans, desc.len() >= 3);
    cx.count("plan:executed");
    // the chain run_collect executed is the four passes composed, in both modes
    let want_kinds = kinds_of(&real_optimise(build_chain(desc).chain));
    if ran != want_kinds || ranp != want_kinds {
        cx.oracle_fail(idx, "run-collect-executes-another-chain-than-the-four-passes-composed", format!("seq ran {ran:?}, par ran {ranp:?}, fuse->reorder->lift->drop_mid gives {want_kinds:?}"));
    }
    if kind == "LIFTNEG" {
        // a combiner that breaks the LiftableCombiner contract: outside the property, recorded only
        cx.count(if lit == opt { "liftneg:contract-breaking-combiner:literal-equals-planned" } else { "liftneg:contract-breaking-combiner:literal-differs-from-planned(expected, outside the property)" });
        if rc != opt || rcp != optp { cx.oracle_fail(idx, "run-collect-differs-from-the-four-passes-composed", format!("run_collect seq={rc} par{parts}={rcp}; composed passes seq={opt} par{parts}={optp}")); }
        return;
    }
    if rc != opt || rcp != optp {
        cx.oracle_fail(idx, "run-collect-differs-from-the-four-passes-composed", format!("run_collect seq={rc} par{parts}={rcp}; composed passes seq={opt} par{parts}={optp}"));
    }
    if lit != opt || lit != optp {
        let nore = run(true, None, true);
        // the listed finding is exactly "every all-movable fused block is STABLY sorted by (cost != 1, cost)": the
        // optimised run must equal the literal run of the chain whose blocks the harness itself sorted that way
        // (std's stable `sort_by_key`, nothing from the planner). Any other deviation has an unlisted signature.
        let sd = stable_sorted_desc(desc);
        // (run through the OTHER passes — fuse, lift, drop_mid — so that restating markers are dropped exactly as in
        // the optimised chain; only the reorder pass is replaced by the harness's own sort)
        let st = { let b = build_chain(&sd); let chain = pv::drop_mid(pv::lift(pv::fuse(b.chain))); exec_answer(guarded(move || rv::exec_seq::<Row>(chain))) };
        let sig = if nore == lit && lit == run(true, Some(parts), true) && opt == st && optp == st { "planned-differs-from-literal-only-through-reorder-pass" }
                  else if nore == lit { "reorder-pass-is-not-the-stable-cost-sort" }
                  else { "optimised-chain-computes-something-else" };
        cx.oracle_fail(idx, sig, format!("literal={lit} optimised={opt} optimised-par{parts}={optp} without-reorder-pass={nore} stable-cost-sorted-literal={st}"));
    }
}

/// the chain with consecutive stateless nodes fused and every all-movable block sorted by the HARNESS with std's
/// stable sort on `(cost != 1, cost)` — what the documented reorder pass is allowed to produce, computed independently
/// (co-group sides are captured literally by the node and never planned: untouched)
fn stable_sorted_desc(desc: &[ND]) -> Vec<ND> {
    let mut out: Vec<ND> = vec![];
    for n in desc {
        match (out.last_mut(), n) {
            (Some(ND::St(acc)), ND::St(ops)) => acc.extend(ops.iter().cloned()),
            _ => out.push(n.clone()),
        }
    }
    for n in out.iter_mut() {
        if let ND::St(ops) = n {
            if ops.iter().all(|o| o.kp && o.vo && o.rs) { ops.sort_by_key(|o| (o.cost != 1, o.cost)); }
        }
    }
    out
}

/// a LONG all-movable block (21..100 ops, costs drawn from a small set so that most keys tie, few multiplications so
/// that nothing overflows): longer than the insertion-sort regime of std's unstable sorts, so a planner that loses
/// stability, or sorts by a different key, shows up both structurally and in the executed result
fn gen_long_block(cx: &mut Ctx) -> Vec<OpDesc> {
    let len = *cx.rng.pick(&[21usize, 24, 33, 40, 48, 64, 100]);
    let costs: &[u8] = *cx.rng.pick(&[&[1u8, 2, 3][..], &[2, 3][..], &[1, 3, 3, 3][..], &[0, 1, 2, 3, 10][..]]);
    let mut muls = 0;
    (0..len).map(|_| {
        let mut code = *cx.rng.pick(&['A', 'A', 'A', 'F', 'M']);
        if code == 'M' { muls += 1; if muls > 6 { code = 'A'; } }
        let arg = match code { 'A' => cx.rng.range(-3, 4), 'M' => cx.rng.range(2, 3), _ => cx.rng.range(2, 4) };
        OpDesc { code, arg, kp: true, vo: true, rs: true, cost: *cx.rng.pick(costs), defaulting: false }
    }).collect()
}

fn gen_long_chain(cx: &mut Ctx) -> Vec<ND> {
    let block = gen_long_block(cx);
    let mut c = vec![ND::Src((0..1 + cx.rng.below(8)).map(|_| (cx.rng.range(0, 3), cx.rng.range(-4, 9))).collect())];
    // the block arrives as one node or as several consecutive nodes that fuse
    if cx.rng.chance(1, 2) { c.push(ND::St(block)); }
    else { let cut = 1 + cx.rng.below(block.len() - 1); c.push(ND::St(block[..cut].to_vec())); c.push(ND::St(block[cut..].to_vec())); }
    if cx.rng.chance(1, 3) { c.push(ND::Gbk); c.push(ND::Cvl); }
    c
}

fn gen_op(cx: &mut Ctx, group_typed: bool, honest: bool) -> OpDesc {
    if group_typed {
        return OpDesc { code: 'H', arg: 0, kp: cx.rng.chance(1, 2), vo: false, rs: cx.rng.chance(1, 2), cost: *cx.rng.pick(&[1, 5, 10]), defaulting: false };
    }
    let code = *cx.rng.pick(&['A', 'A', 'M', 'F', 'F', 'K', 'D', 'H']);
    let arg = match code { 'A' => cx.rng.range(-2, 3), 'M' => cx.rng.range(2, 3), 'F' => cx.rng.range(2, 3), 'K' => cx.rng.range(1, 2), _ => 0 };
    let value_only = matches!(code, 'A' | 'M' | 'F');
    let (kp, vo, rs) = if honest { (code != 'K', value_only, value_only) } else { (cx.rng.chance(3, 4), cx.rng.chance(3, 4), cx.rng.chance(3, 4)) };
    let cost = *cx.rng.pick(&[0u8, 1, 1, 2, 3, 3, 10, 255]);
    // one op in five leaves `reorder_safe_with_value_only` to the trait default (false)
    if cx.rng.chance(1, 5) {
        cx.count("op:relies-on-trait-default-reorder-flag");
        return OpDesc { code, arg, kp: if honest { code != 'K' } else { true }, vo: if honest { value_only } else { true }, rs: false, cost, defaulting: true };
    }
    OpDesc { code, arg, kp, vo, rs, cost, defaulting: false }
}

fn gen_rows(cx: &mut Ctx) -> Vec<Row> { (0..cx.rng.below(9)).map(|_| (cx.rng.range(0, 3), cx.rng.range(-4, 9))).collect() }

fn gen_fanout(cx: &mut Ctx) -> Option<usize> { *cx.rng.pick(&FANOUTS) }

/// one side of a co-group; `typed` = starts with a source and ends row-typed (executable)
fn gen_side(cx: &mut Ctx, typed: bool, honest: bool) -> Vec<ND> {
    if typed {
        let mut c = vec![ND::Src(gen_rows(cx))];
        for _ in 0..cx.rng.below(3) {
            match cx.rng.below(8) {
                0..=3 => c.push(ND::St((0..1 + cx.rng.below(3)).map(|_| gen_op(cx, false, honest)).collect())),
                4 => { c.push(ND::Gbk); c.push(ND::Cvl); }
                5 => c.push(ND::Cv),
                6 => c.push(ND::Cg(gen_fanout(cx))),
                _ => c.push(ND::St((0..2).map(|_| gen_op(cx, false, honest)).collect())),
            }
        }
        if cx.rng.chance(1, 25) { c.push(ND::Cogn); cx.count("cogroup:nested-in-a-side"); }
        c
    } else {
        (0..cx.rng.below(5)).map(|_| match cx.rng.below(9) {
            0 => ND::Src(gen_rows(cx)), 1..=3 => ND::St((0..1 + cx.rng.below(3)).map(|_| gen_op(cx, false, false)).collect()),
            4 => ND::Gbk, 5 => ND::Cvl, 6 => ND::Cv, 7 => ND::Mat(gen_rows(cx)), _ => ND::Cogn,
        }).collect()
    }
}

/// structural chains: anything goes (ill-typed chains are never executed)
fn gen_struct_chain(cx: &mut Ctx) -> Vec<ND> {
    // one chain in twelve does not start with a source (no length hint, no partition suggestion)
    let mut c = if cx.rng.chance(1, 12) { cx.count("plan:chain-without-head-source"); vec![] } else { vec![ND::Src(gen_rows(cx))] };
    for _ in 0..cx.rng.below(9) {
        c.push(match cx.rng.below(13) {
            0..=4 => ND::St((0..1 + cx.rng.below(4)).map(|_| gen_op(cx, false, false)).collect()),
            5 | 6 => ND::Gbk,
            7 => ND::Cvl,
            8 => ND::Cv,
            9 => ND::Cg(gen_fanout(cx)),
            10 => { let (l, r) = (gen_side(cx, false, false), gen_side(cx, false, false)); ND::Cog(l, r) }
            11 => { if cx.rng.chance(1, 2) { ND::Gbk } else { ND::St(vec![gen_op(cx, false, false)]) } }
            _ => ND::Mat(gen_rows(cx)),
        });
    }
    if c.is_empty() { c.push(ND::St(vec![gen_op(cx, false, false)])); }
    c
}

/// well-typed chains over rows `(i64, i64)`: GBK is followed by a lifted combine (possibly after a
/// group-typed block — which must block the lift) or by the group-summing op; a mid-chain
/// `Materialized` holds exactly the rows flowing at that point is NOT generated (its payload would
/// replace the buffer), only payload-carrying terminal ones after a source-only prefix are.
/// `CombineGlobal` (rows -> one row) and `CoGroup` (ignores the buffer, joins its two sides) keep the row type.
fn gen_exec_chain(cx: &mut Ctx, honest: bool) -> Vec<ND> {
    let mut c = vec![ND::Src(gen_rows(cx))];
    for _ in 0..cx.rng.below(5) {
        match cx.rng.below(11) {
            0..=4 => c.push(ND::St((0..1 + cx.rng.below(4)).map(|_| gen_op(cx, false, honest)).collect())),
            5 => { c.push(ND::Gbk); c.push(ND::Cvl); }
            6 => { c.push(ND::Gbk); c.push(ND::St(vec![gen_op(cx, true, honest)])); c.push(ND::Cvl); }
            7 => c.push(ND::Cv),
            8 => { c.push(ND::Cg(gen_fanout(cx))); cx.count("plan:executed-with-combine-global"); }
            9 => { let (l, r) = (gen_side(cx, true, honest), gen_side(cx, true, honest)); c.push(ND::Cog(l, r)); cx.count("plan:executed-with-cogroup"); }
            _ => c.push(ND::Cv),
        }
    }
    if cx.rng.chance(1, 6) {
        c.push(ND::Gbk);
        c.push(ND::St(vec![OpDesc { code: 'G', arg: 0, kp: true, vo: false, rs: false, cost: 10, defaulting: false }]));
    }
    c
}

/// insert a RESTATING mid-chain marker: a `Materialized` whose payload is exactly the rows flowing at that
/// point (computed by the real sequential engine on the literal prefix). Dropping such a marker must not
/// change the result; the literal chain replaces the buffer by an equal one.
fn with_restating_marker(cx: &mut Ctx, chain: &[ND]) -> Option<Vec<ND>> {
    // positions after which the flowing partition is `Vec<Row>`
    let mut ok_pos: Vec<usize> = vec![];
    let mut grouped = false;
    for (i, n) in chain.iter().enumerate() {
        match n {
            ND::Src(_) | ND::Cv | ND::Cvl | ND::Cvb | ND::Mat(_) | ND::Cg(_) | ND::Cog(..) | ND::Cogn => grouped = false,
            ND::Gbk => grouped = true,
            ND::St(ops) => { if ops.iter().any(|o| o.code == 'G') { grouped = false; } }
        }
        if !grouped && i + 1 < chain.len() { ok_pos.push(i); }
    }
    if ok_pos.is_empty() { return None; }
    let i = *cx.rng.pick(&ok_pos);
    let prefix = build_chain(&chain[..=i]);
    let rows = match guarded(move || rv::exec_seq::<Row>(prefix.chain)) { Ok(Ok(r)) => r, _ => return None };
    let mut out = chain[..=i].to_vec();
    out.push(ND::Mat(rows));
    out.extend_from_slice(&chain[i + 1..]);
    Some(out)
}

fn explain_case(cx: &mut Ctx, prog: &pipe::Prog, parts: usize) {
    use pipe::Coll;
    let p = Pipeline::default();
    let c = pipe::build(&p, prog);
    let id = match &c { Coll::T(x) => x.node_id(), Coll::KV(x) => x.node_id(), Coll::KG(x) => x.node_id(), Coll::R(x) => x.node_id() };
    let plan = match build_plan(&p, id) { Ok(pl) => pl, Err(_) => return };
    let kinds = kinds_of(&plan.chain);
    // the chain the RUNNER actually receives, observed through the on_plan hook during a real collect, in BOTH modes
    let observe = |mode: pipe::Mode| -> Vec<String> {
        let p2 = Pipeline::default();
        let c2 = pipe::build(&p2, prog);
        let observed: Arc<Mutex<Vec<Vec<String>>>> = Default::default();
        let o2 = observed.clone();
        ironbeam::verif_hooks::set_plan_callback(Some(Arc::new(move |k: &[String]| o2.lock().unwrap().push(k.to_vec()))));
        let _ = guarded(|| pipe::collect(c2, mode));
        ironbeam::verif_hooks::set_plan_callback(None);
        let v = observed.lock().unwrap().first().cloned().unwrap_or_default();
        v
    };
    let ran = observe(pipe::Mode::Seq);
    let ranp = observe(pipe::Mode::Par(parts));
    drop(c);
    let idx = cx.case(format!("EXPLAIN cpus={} {}", hw(), prog.request("seq").splitn(2, ' ').nth(1).unwrap_or("")),
        format!("ran={} ranpar={} {}", ran.join(","), ranp.join(","), render_explain(&plan)), prog.steps.len() >= 2);
    cx.count("plan:explain");
    if ran != kinds || ranp != kinds {
        cx.oracle_fail(idx, "explain-is-not-the-plan-that-runs", format!("build_plan chain={kinds:?} chain received by the runner: seq={ran:?} par{parts}={ranp:?}"));
    }
    explain_oracle(cx, idx, &plan);
    // the decisions build_plan reports are the four passes' own decisions on the back-walked chain, in order
    if let Ok(lit0) = pv::backwalk(&p, id) {
        let src_len = match lit0.first() { Some(Node::Source { payload, vec_ops, .. }) => vec_ops.len(payload.as_ref()), _ => None };
        let (f, fdec) = pv::fuse_tracked(lit0);
        let (r, rdec) = pv::reorder_tracked(f);
        let (l, ldec) = pv::lift_tracked(r);
        let (_, ddec) = pv::drop_mid_tracked(l);
        let mut want: Vec<String> = fdec.iter().chain(rdec.iter()).chain(ldec.iter()).chain(ddec.iter()).map(dec_enc).collect();
        if let Some(parts) = expected_suggestion(src_len) { want.push(format!("Parts({},{parts})", opt_usize(src_len))); }
        let got: Vec<String> = plan.optimizations.iter().map(dec_enc).collect();
        if got != want { cx.oracle_fail(idx, "build-plan-decisions-are-not-the-passes-decisions-in-order", format!("build_plan reports {got:?}; the passes report {want:?}")); }
        if plan.suggested_partitions != expected_suggestion(src_len) {
            cx.oracle_fail(idx, "partition-suggestion-wrong", format!("suggested {:?} for source length {src_len:?}", plan.suggested_partitions));
        }
    }
    // explain() must list exactly the nodes of the four passes composed on the literal chain, in order
    let lit = pv::backwalk(&p, id).map(real_optimise).unwrap_or_default();
    if kinds_of(&lit) != kinds {
        cx.oracle_fail(idx, "build-plan-chain-is-not-the-four-passes-composed", format!("build_plan={kinds:?} composed={:?}", kinds_of(&lit)));
    }
}

/// operator that records the length of every partition it is applied to (= how many partitions the engine made)
struct PartProbe(Arc<Mutex<Vec<usize>>>);
impl DynOp for PartProbe {
    fn apply(&self, input: Partition) -> Partition {
        let v = input.downcast::<Vec<u8>>().expect("probe: bytes");
        self.0.lock().unwrap().push(v.len());
        v
    }
}

/// `suggest_partitions` against the documented heuristic, and against the partition count that
/// `collect_par(None, None)` (= `Runner::default()`) really uses, observed by counting the partitions a stateless
/// operator is applied to. `len` is chosen so that the split is exact (the source splits into exactly `parts` chunks).
fn parts_case(cx: &mut Ctx, len: Option<usize>) {
    let h = hw();
    let want = expected_suggestion(len);
    let direct = pv::suggest_partitions(len);
    let seen: Arc<Mutex<Vec<usize>>> = Default::default();
    let mut chain: Vec<Node> = vec![];
    if let Some(n) = len { chain.push(Node::Source { payload: Arc::new(vec![0u8; n]), vec_ops: vec_ops_for::<u8>(), elem_tag: TypeTag::of::<u8>() }); }
    chain.push(Node::Stateless(vec![Arc::new(PartProbe(seen.clone()))]));
    let (p, last) = pipeline_of(&chain);
    let id = last.expect("non-empty");
    let plan_sug = build_plan(&p, id).ok().and_then(|pl| pl.suggested_partitions);
    // observable only when the engine can make that many partitions and the split is exact
    let observable = match (len, want) { (Some(n), Some(w)) => n >= w && n.div_ceil(n.div_ceil(w)) == w, _ => false };
    let used: String = if observable {
        let r = guarded(move || Runner::default().run_collect::<u8>(&p, id).map(|v| v.len()));
        let parts = seen.lock().unwrap().len();
        match r { Ok(Ok(n)) if Some(n) == len => parts.to_string(), other => format!("run-failed:{other:?}").replace(' ', "_") }
    } else { "-".into() };
    let idx = cx.case(format!("PARTS cpus={h} len={} obs={}", opt_usize(len), u8::from(observable)), format!("suggested={} used={used}", opt_usize(plan_sug)), true);
    cx.count("plan:partition-suggestion");
    if plan_sug != want || direct != want {
        cx.oracle_fail(idx, "partition-suggestion-wrong", format!("build_plan suggests {plan_sug:?}, suggest_partitions gives {direct:?}, documented heuristic (ceil(len/64000) clamped to [{h}, {}]) gives {want:?}", 8 * h));
    }
    if observable && Some(used.clone()) != plan_sug.map(|w| w.to_string()) {
        cx.oracle_fail(idx, "collect-par-default-does-not-use-the-suggested-partitions", format!("collect_par(None, None) ran {used} partitions, the plan suggests {plan_sug:?}"));
    }
}

/// GBK followed by a lifted combine with an APPROXIMATE combiner (t-digest quantiles): the lift pass
/// replaces `build_from_group` (adds + a final compress) by element-wise adds. The two runs need not be bit-identical
/// (whether they are is recorded, not judged): each reported quantile must lie within a RANK tolerance of the
/// requested one in the exact data of its key, in the literal and in the planned run. The data, the compression and
/// the tolerance are fixed (nothing is derived from the seed).
fn approx_lift_case(cx: &mut Ctx, n: usize, compression: f64) {
    use ironbeam::combiners::ApproxQuantiles;
    let qs = [0.1, 0.5, 0.9];
    let rows: Vec<(i64, f64)> = (0..n).map(|i| ((i % 3) as i64, ((i * 7919) % 1000) as f64 / 8.0)).collect();
    let p = Pipeline::default();
    let out = from_vec(&p, rows.clone()).group_by_key().combine_values_lifted(ApproxQuantiles::<f64>::new(qs.to_vec(), compression));
    let id = out.node_id();
    let run = |optimise: bool| -> Result<Vec<(i64, Vec<f64>)>, String> {
        let chain = match pv::backwalk(&p, id) { Ok(c) => c, Err(e) => return Err(format!("ERR {e}")) };
        let chain = if optimise { real_optimise(chain) } else { chain };
        match guarded(move || rv::exec_seq::<(i64, Vec<f64>)>(chain)) {
            Ok(Ok(mut rows)) => { rows.sort_by_key(|r| r.0); Ok(rows) }
            Ok(Err(e)) => Err(format!("ERR {e}")),
            Err(_) => Err("PANIC".into()),
        }
    };
    let lit = run(false);
    let opt = run(true);
    let idx = cx.case(format!("ORACLE-ONLY approx-lift n={n} compression={compression}"), "-".into(), true);
    cx.count("plan:approx-lift");
    cx.count(if lit == opt { "approx-lift:literal-and-planned-bit-identical" } else { "approx-lift:literal-and-planned-differ-within-tolerance" });
    // rank tolerance: generous multiple of the t-digest's nominal accuracy, at least two ranks of the key's data
    let mut worst = 0.0f64;
    let mut worst_eps = 0.0f64;
    for (name, res) in [("literal", &lit), ("planned", &opt)] {
        let res = match res { Ok(r) => r, Err(e) => { cx.oracle_fail(idx, "lift-changes-approximate-combiner-result", format!("{name} run: {e}")); continue; } };
        for key in 0..3i64 {
            let mut data: Vec<f64> = rows.iter().filter(|r| r.0 == key).map(|r| r.1).collect();
            data.sort_by(f64::total_cmp);
            let got = res.iter().find(|r| r.0 == key).map(|r| r.1.clone());
            if data.is_empty() { if got.is_some() { cx.oracle_fail(idx, "lift-changes-approximate-combiner-result", format!("{name}: key {key} without data has a result")); } continue; }
            let Some(got) = got else { cx.oracle_fail(idx, "lift-changes-approximate-combiner-result", format!("{name}: key {key} missing")); continue; };
            if got.len() != qs.len() { cx.oracle_fail(idx, "lift-changes-approximate-combiner-result", format!("{name}: key {key} has {} quantiles", got.len())); continue; }
            let m = data.len() as f64;
            let eps = (2.0 / compression).max(2.0 / m).max(0.02);
            for (q, x) in qs.iter().zip(got.iter()) {
                let below = data.iter().filter(|d| **d < *x).count() as f64 / m;
                let upto = data.iter().filter(|d| **d <= *x).count() as f64 / m;
                let err = if below > *q { below - q } else if upto < *q { q - upto } else { 0.0 };
                if err > worst { worst = err; }
                worst_eps = eps;
                if !(x.is_finite() && below <= q + eps && upto >= q - eps) {
                    cx.oracle_fail(idx, "lift-changes-approximate-combiner-result", format!("{name}: key {key} q={q}: {x} has rank [{below}, {upto}] in {} values, tolerance {eps}", data.len()));
                }
            }
        }
    }
    cx.notes.push(format!("approx-lift n={n} compression={compression}: worst rank error {worst:.4} (tolerance {worst_eps:.4}); literal and planned bit-identical: {}", lit == opt));
}

/// `group_by_key()` followed by a CLASSIC `combine_values` whose values are the groups themselves
/// (`Count` over `Vec<V>`): a legal, well-typed chain that must NOT be lifted. Oracle only.
fn gbk_then_classic_combine_case(cx: &mut Ctx, rows: Vec<(i64, i64)>, parts: usize) {
    let mut keys: Vec<i64> = rows.iter().map(|r| r.0).collect();
    keys.sort();
    keys.dedup();
    let want: Vec<(i64, u64)> = keys.iter().map(|k| (*k, 1u64)).collect();
    let run = |par: Option<usize>| -> Result<Vec<(i64, u64)>, String> {
        let rows = rows.clone();
        match guarded(move || {
            let p = Pipeline::default();
            let out = from_vec(&p, rows).group_by_key().combine_values(ironbeam::Count);
            match par { None => out.collect_seq(), Some(n) => out.collect_par(None, Some(n)) }
        }) {
            Ok(Ok(mut v)) => { v.sort(); Ok(v) }
            Ok(Err(e)) => Err(format!("Err({e})")),
            Err(m) => Err(format!("panic: {m}")),
        }
    };
    let idx = cx.case(format!("ORACLE-ONLY gbk-then-classic-combine rows={} parts={parts}", rows.len()), "-".into(), rows.len() >= 2);
    cx.count("plan:gbk-then-classic-combine");
    for (mode, r) in [("seq", run(None)), ("par", run(Some(parts)))] {
        if r.as_ref() != Ok(&want) {
            cx.oracle_fail(idx, "gbk-then-classic-combine-wrong", format!("mode={mode} got={r:?} want={want:?}"));
        }
    }
}

pub fn run(cx: &mut Ctx) {
    gbk_then_classic_combine_case(cx, vec![(1, 10), (2, 20), (1, 30)], 2);
    gbk_then_classic_combine_case(cx, vec![], 3);
    for i in 0..cx.budget(20, 300) {
        let n = cx.rng.below(12 + i % 5);
        let rows: Vec<(i64, i64)> = (0..n).map(|_| (cx.rng.range(0, 3), cx.rng.range(-5, 5))).collect();
        let parts = 1 + cx.rng.below(5);
        gbk_then_classic_combine_case(cx, rows, parts);
    }
    for (n, c) in [(12usize, 100.0), (300, 20.0), (2000, 20.0), (5000, 50.0)] { approx_lift_case(cx, n, c); }

    // partition suggestion and the partition count collect_par(None, None) uses
    {
        let h = hw();
        let mut lens: Vec<Option<usize>> = vec![None, Some(0), Some(1), Some(5), Some(h), Some(10 * h), Some(64_000), Some(64_000 * h), Some(64_000 * h + 1),
            Some(64_000 * (h + 1)), Some(64_000 * 3 * h), Some(64_000 * 8 * h - 1)];
        if cx.tier != crate::ctx::Tier::Quick { lens.extend([Some(64_000 * 8 * h), Some(64_000 * 8 * h + 1), Some(64_000 * 9 * h), Some(64_000 * 5 * h + 12_345)]); }
        else { lens.push(Some(64_000 * 8 * h + 1)); }
        for l in lens { parts_case(cx, l); }
    }

    // corpus: the shapes the property names
    let op = |code, arg, kp, vo, rs, cost| OpDesc { code, arg, kp, vo, rs, cost, defaulting: false };
    let dop = |code, arg, cost| OpDesc { code, arg, kp: true, vo: true, rs: false, cost, defaulting: true };
    let src = vec![(0, 1), (0, 2), (1, 3)];
    let a3 = || ND::St(vec![op('A', 1, true, true, true, 3)]);
    let f1 = || ND::St(vec![op('F', 2, true, true, true, 1)]);
    let corpus: Vec<Vec<ND>> = vec![
        vec![ND::Src(src.clone()), ND::St(vec![op('A', 1, true, true, true, 3)]), ND::St(vec![op('F', 2, true, true, true, 1)])],
        vec![ND::Src(src.clone()), ND::Gbk, ND::Cvl],
        vec![ND::Src(src.clone()), ND::Gbk, ND::Cv],
        vec![ND::Src(src.clone()), ND::Gbk, ND::St(vec![op('H', 0, true, false, false, 10)]), ND::Cvl],
        vec![ND::Src(src.clone()), ND::Mat(src.clone()), ND::St(vec![op('A', 1, true, true, true, 3)]), ND::Mat(src.clone())],
        vec![ND::Src(src.clone()), ND::St(vec![op('A', 1, true, true, true, 3), op('K', 1, false, false, false, 1), op('F', 2, true, true, true, 1)])],
        vec![ND::Src(src.clone()), ND::St(vec![op('A', 1, true, true, true, 2), op('M', 2, true, true, true, 2), op('A', 2, true, true, true, 2)])],
        // a value-only, key-preserving op that does NOT claim reorder safety pins its block
        vec![ND::Src(src.clone()), ND::St(vec![dop('M', 2, 10)]), ND::St(vec![op('F', 2, true, true, true, 1)])],
        vec![ND::Src(src.clone()), ND::St(vec![op('A', 1, true, true, true, 3), dop('A', 1, 10), op('F', 2, true, true, true, 1)])],
        // 9.. pass-ORDER witnesses: a marker between GBK and a lifted combine (lift runs BEFORE drop_mid: no lift);
        // a marker between two blocks (fuse runs BEFORE drop_mid: the plan keeps two adjacent blocks); blocks around
        // a lifted window; a block that is sorted only once it is fused
        vec![ND::Src(src.clone()), ND::Gbk, ND::Mat(src.clone()), ND::Cvl],
        vec![ND::Src(src.clone()), a3(), ND::Mat(src.clone()), f1()],
        vec![ND::Src(src.clone()), a3(), f1(), ND::Gbk, ND::Cvl, a3(), f1()],
        vec![ND::Src(src.clone()), ND::Mat(src.clone()), ND::Mat(src.clone()), a3(), ND::Gbk, ND::Cvl, ND::Mat(src.clone()), ND::Mat(src.clone())],
        // 13.. the new node kinds
        vec![ND::Src(src.clone()), a3(), ND::Cg(None), f1()],
        vec![ND::Src(src.clone()), ND::Cg(Some(0)), ND::Cg(Some(2))],
        vec![ND::Src(src.clone()), ND::Cog(vec![ND::Src(src.clone()), a3(), f1()], vec![ND::Src(vec![(0, 7), (1, 8), (1, 9)]), ND::Gbk, ND::Cvl]), a3(), f1()],
        vec![ND::Src(src.clone()), ND::Cog(vec![ND::Src(src.clone()), ND::Cogn], vec![ND::Src(src.clone())])],
        vec![a3(), f1()],
    ];
    for c in &corpus { plan_case(cx, c); }
    for i in [0usize, 1, 3, 5, 6, 7, 8, 11, 13, 14, 15, 16] { planx_case(cx, &corpus[i]); }
    // restating markers in the order witnesses (payload = the rows flowing there)
    planx_case(cx, &[ND::Src(src.clone()), ND::Mat(src.clone()), a3(), f1()]);

    // small-scope EXHAUSTIVE block: every chain `SRC n1 .. nk` over a 9-node alphabet (movable block of cost 3, movable
    // block of cost 1, non-movable block, GBK, lifted combine, classic combine, marker, global combine, co-group),
    // k <= 3 (quick) / k <= 4 (thorough): all pass-order interactions of up to four nodes, structurally + build_plan + explain
    {
        let alphabet: Vec<ND> = vec![a3(), f1(), ND::St(vec![op('K', 1, false, false, false, 10)]), ND::Gbk, ND::Cvl, ND::Cv, ND::Mat(src.clone()), ND::Cg(None),
            ND::Cog(vec![ND::Src(src.clone()), a3(), f1()], vec![ND::Src(src.clone())])];
        let kmax = if cx.tier == crate::ctx::Tier::Quick { 3 } else { 4 };
        let mut total = 0usize;
        for k in 0..=kmax {
            let mut idx = vec![0usize; k];
            loop {
                let mut c = vec![ND::Src(src.clone())];
                for i in &idx { c.push(alphabet[*i].clone()); }
                plan_case(cx, &c);
                total += 1;
                let mut j = 0;
                while j < k { idx[j] += 1; if idx[j] < alphabet.len() { break; } idx[j] = 0; j += 1; }
                if j == k { break; }
            }
        }
        cx.exhaustive_blocks.push(format!("PLAN: all {total} chains SRC n1..nk, k <= {kmax}, over the 9-node alphabet {{movable block cost 3, movable block cost 1, non-movable block, GBK, CVL, CV, MAT, CG, COG}}: every pass alone, build_plan, decisions, explain"));
    }

    // a user LiftableCombiner whose build_from_group is NOT the fold of add_input: the planner lifts on
    // `local_groups.is_some()` alone (it cannot see the combiner), so literal and planned differ. Contract breach of the
    // user's combiner, outside the property: correspondence case + statistics, never an oracle failure.
    cx.notes.push("LIFTNEG: a user LiftableCombiner with build_from_group = sum + 1000 (not the fold): literal GBK->lifted combine and the planned direct combine differ by construction; recorded as `liftneg:*` statistics, outside the property (hypothesis `build_fold` of lift_pair_sem; negation witness lift_unsound_without_build_fold)".into());
    planx_case_kind(cx, &[ND::Src(src.clone()), ND::Gbk, ND::Cvb], "LIFTNEG");
    planx_case_kind(cx, &[ND::Src(vec![]), ND::Gbk, ND::Cvb], "LIFTNEG");
    for _ in 0..cx.budget(6, 60) { let rows = gen_rows(cx); planx_case_kind(cx, &[ND::Src(rows), a3(), ND::Gbk, ND::Cvb], "LIFTNEG"); }

    // long all-movable blocks (beyond the small-sort regime of std's sorts)
    cx.notes.push("long all-movable blocks: lengths 21,24,33,40,48,64,100 with tied costs, structural (PLAN) and executed (PLANX)".into());
    for _ in 0..cx.budget(40, 400) { let c = gen_long_chain(cx); cx.count("plan:long-movable-block"); plan_case(cx, &c); planx_case(cx, &c); }

    let n = cx.budget(4000, 40000);
    for _ in 0..n { let c = gen_struct_chain(cx); plan_case(cx, &c); }
    let n = cx.budget(1500, 15000);
    for i in 0..n {
        let c = gen_exec_chain(cx, i % 2 == 0);
        planx_case(cx, &c);
        if i % 5 == 0 { plan_case(cx, &c); }
        if i % 4 == 0 {
            if let Some(m) = with_restating_marker(cx, &c) { cx.count("plan:executed-with-restating-marker"); planx_case(cx, &m); }
        }
    }

    // census neighbourhoods (the crate's validators and windowing steps next to value-only steps, through the real
    // planner): the concrete inputs behind `helper_builders_not_movable` / `validation_builders_not_movable`
    crate::c17::planner_neighbourhood_cases(cx);
    crate::c13::windowing_neighbourhood_cases(cx);

    // builder programs: explain() and planned == reference
    let o = pipe::CheckOpts { par_vs_seq: false, vs_reference: true };
    // GBK + lifted combine, planned vs literal on the real engine (lift pass skipped through the hook), also with a
    // lawful NON-commutative combiner: the direct combine must give the literal group-then-combine's per-key result
    let n = cx.budget(250, 2500);
    pipe::lift_vs_literal_cases(cx, n);
    let n = cx.budget(500, 6000);
    for i in 0..n {
        let opts = pipe::GenOpts { max_steps: 8, max_rows: 20, barriers: true, joins: i % 7 == 0, globals: true, nonlocal_batches: false };
        let p = pipe::gen_prog(&mut cx.rng, &opts);
        if matches!(pipe::reference(&p), pipe::RefOut::Panic) { continue; }
        let parts = 1 + cx.rng.below(5);
        explain_case(cx, &p, parts);
        pipe::check_prog(cx, &p, &[pipe::Mode::Seq, pipe::Mode::Par(parts)], &o);
    }
}
