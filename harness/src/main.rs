//! `ibh` — correspondence harness: runs the REAL ironbeam code (path dependency on /repo, hooks on)
//! on generated cases and writes request lines + canonical real outputs + oracle verdicts.
//!
//! usage: ibh <Cxx> --tier quick|thorough|search --seed N --out DIR
//!        ibh tables                       (prints Generated/Tables.lean to stdout)
//!        ibh child <kind> <args...>       (watchdog children for hang/abort-prone cases)
#![allow(clippy::all)]
#![allow(dead_code)]

mod ctx;
mod pipe;
mod pipe_x; mod pipe_wide; mod pipe_injoin; mod pipe_joinx; mod pipe_ucomb;
mod tables;
mod c01; mod c02; mod c03; mod c04; mod c05; mod c06; mod c07; mod c08; mod c09; mod c10;
mod c01_x; mod c02_x;
mod c11; mod c12; mod c13; mod c14; mod c15; mod c16; mod c17; mod c18; mod c19; mod c20; mod c20_files; mod c06_ext; mod c09_env;

use ctx::{Ctx, Tier};

fn main() -> anyhow::Result<()> {
    let args: Vec<String> = std::env::args().collect();
    if args.len() < 2 {
        eprintln!("usage: ibh <Cxx|tables|child> ...");
        std::process::exit(2);
    }
    // panics inside real code are caught per case; keep stderr quiet
    if std::env::var("IBH_VERBOSE_PANICS").is_err() {
        std::panic::set_hook(Box::new(|_| {}));
    }
    match args[1].as_str() {
        "tables" => {
            print!("{}", tables::render());
            return Ok(());
        }
        "child" => {
            let code = child(&args[2..]);
            std::process::exit(code);
        }
        _ => {}
    }
    let prop = args[1].to_uppercase();
    let mut tier = Tier::Quick;
    let mut seed: u64 = 1;
    let mut out = String::from("work/out");
    let mut i = 2;
    while i < args.len() {
        match args[i].as_str() {
            "--tier" => {
                tier = match args[i + 1].as_str() {
                    "thorough" => Tier::Thorough,
                    "search" => Tier::Search,
                    _ => Tier::Quick,
                };
                i += 2;
            }
            "--seed" => {
                seed = args[i + 1].parse().unwrap_or(1);
                i += 2;
            }
            "--out" => {
                out = args[i + 1].clone();
                i += 2;
            }
            _ => i += 1,
        }
    }
    let mut cx = Ctx::new(&prop, seed, tier);
    ctx::breadcrumb_init(&out);
    match prop.as_str() {
        "C01" => c01::run(&mut cx),
        "C02" => c02::run(&mut cx),
        "C03" => c03::run(&mut cx),
        "C04" => c04::run(&mut cx),
        "C05" => c05::run(&mut cx),
        "C06" => c06::run(&mut cx),
        "C07" => c07::run(&mut cx),
        "C08" => c08::run(&mut cx),
        "C09" => c09::run(&mut cx),
        "C10" => c10::run(&mut cx),
        "C11" => c11::run(&mut cx),
        "C12" => c12::run(&mut cx),
        "C13" => c13::run(&mut cx),
        "C14" => c14::run(&mut cx),
        "C15" => c15::run(&mut cx),
        "C16" => c16::run(&mut cx),
        "C17" => c17::run(&mut cx),
        "C18" => c18::run(&mut cx),
        "C19" => c19::run(&mut cx),
        "C20" => c20::run(&mut cx),
        _ => {
            eprintln!("unknown property {prop}");
            std::process::exit(2);
        }
    }
    ctx::breadcrumb_done();
    cx.write_out(&out)?;
    Ok(())
}

/// Child-process entry points (used for cases that may hang, abort or allocate without bound).
fn child(args: &[String]) -> i32 {
    match args.first().map(String::as_str) {
        Some("c05") => c05::child(&args[1..]),
        Some("c10") => c10::child(&args[1..]),
        Some("c11") => c11::child(&args[1..]),
        Some("c12") => c12::child(&args[1..]),
        _ => 2,
    }
}
