//! `Step::JoinX` — joins whose right side is not a fresh `from_vec` on the same pipeline (C07): the right side built
//! on ANOTHER `Pipeline`, a SELF-join / SHARED-PREFIX sides (the collection built so far is branched), and a fresh
//! right side with a SIBLING second join of the same left collection on the same pipeline.
//!
//! Code under test: `helpers/joins.rs` takes `chain_from(&self.pipeline, self.id)` and `chain_from(&right.pipeline,
//! right.id)` — two independent SNAPSHOTS. Model: `Model/ProgramJoinX.lean` (`XStep`, request kind `PIPEJ`); the
//! theorem `Props/C07.lean::joinx_eq_fresh` says every such program computes what the program with fresh right sides
//! computes.

use crate::pipe::*;
use ironbeam::Pipeline;

fn side_enc(p: &Prog) -> String { format!("[ {}{} ]", V::L(p.src.clone()).enc(), steps_enc(&p.steps)) }
fn steps_only_enc(s: &[Step]) -> String { format!("[{} ]", steps_enc(s)) }

pub fn enc(k: JoinKind, r: &RightRef) -> String {
    match r {
        RightRef::Other(p) => format!("joinx {} other {}", k.enc(), side_enc(p)),
        RightRef::Shared(l, rr) => format!("joinx {} shared {} {}", k.enc(), steps_only_enc(l), steps_only_enc(rr)),
        RightRef::Sibling(p, s) => format!("joinx {} sibling {} {}", k.enc(), side_enc(p), side_enc(s)),
    }
}

pub fn kind(r: &RightRef) -> &'static str {
    match r {
        RightRef::Other(_) => "join(right side on another pipeline)",
        RightRef::Shared(l, rr) => if l.is_empty() && rr.is_empty() { "join(self-join)" } else { "join(shared-prefix sides)" },
        RightRef::Sibling(..) => "join(with a sibling second join)",
    }
}

fn shape_of(mut sh: Shape, steps: &[Step]) -> Option<Shape> {
    for s in steps { sh = crate::pipe::shape_after(sh, s)?; }
    Some(sh)
}

pub fn shape_after(sh: Shape, r: &RightRef) -> Option<Shape> {
    match r {
        RightRef::Other(p) | RightRef::Sibling(p, _) => {
            if sh == Shape::KV && shape_of(p.shape, &p.steps) == Some(Shape::KV) { Some(Shape::KV) } else { None }
        }
        RightRef::Shared(l, rr) => {
            if shape_of(sh, l) == Some(Shape::KV) && shape_of(sh, rr) == Some(Shape::KV) { Some(Shape::KV) } else { None }
        }
    }
}

/// the step lists of the sides, for the hash-order / reorder filters (sides run unplanned)
pub fn side_steps(r: &RightRef) -> Vec<Vec<Step>> {
    match r {
        RightRef::Other(p) => vec![p.steps.clone()],
        RightRef::Shared(l, rr) => vec![l.clone(), rr.clone()],
        RightRef::Sibling(p, s) => vec![p.steps.clone(), s.steps.clone()],
    }
}

pub fn clone_coll(c: &Coll) -> Coll {
    match c { Coll::R(x) => Coll::R(x.clone()), Coll::T(x) => Coll::T(x.clone()), Coll::KV(x) => Coll::KV(x.clone()), Coll::KG(x) => Coll::KG(x.clone()) }
}

fn do_join(kind: JoinKind, left: &ironbeam::PCollection<(V, V)>, r: &ironbeam::PCollection<(V, V)>) -> ironbeam::PCollection<(V, V)> {
    match kind {
        JoinKind::Inner => left.join_inner(r).map(|x: &(V, (V, V))| (x.0.clone(), V::pair(x.1.0.clone(), x.1.1.clone()))),
        JoinKind::Left => left.join_left(r).map(|x: &(V, (V, Option<V>))| (x.0.clone(), V::pair(x.1.0.clone(), opt(&x.1.1)))),
        JoinKind::Right => left.join_right(r).map(|x: &(V, (Option<V>, V))| (x.0.clone(), V::pair(opt(&x.1.0), x.1.1.clone()))),
        JoinKind::Full => left.join_full(r).map(|x: &(V, (Option<V>, Option<V>))| (x.0.clone(), V::pair(opt(&x.1.0), opt(&x.1.1)))),
    }
}

/// build a side program on pipeline `p` WITHOUT touching the harness' current-pipeline slot
fn build_on(p: &Pipeline, prog: &Prog) -> Coll {
    let mut c = source(p, prog.shape, &prog.src);
    for s in &prog.steps { c = apply_step(c, s); }
    c
}

pub fn apply(c: Coll, kind: JoinKind, r: &RightRef) -> Coll {
    match r {
        RightRef::Other(right) => {
            let left = as_kv(c);
            let other = Pipeline::default();
            // a few unrelated nodes first, so that node ids of the two pipelines do not line up by accident
            let _pad = ironbeam::from_vec(&other, vec![V::I(0)]).map(|v: &V| v.clone());
            let rc = as_kv(build_on(&other, right));
            Coll::KV(do_join(kind, &left, &rc))
        }
        RightRef::Shared(l, rr) => {
            let mut lc = clone_coll(&c);
            for s in l { lc = apply_step(lc, s); }
            let mut rc = c;
            for s in rr { rc = apply_step(rc, s); }
            let (left, right) = (as_kv(lc), as_kv(rc));
            Coll::KV(do_join(kind, &left, &right))
        }
        RightRef::Sibling(right, sib) => {
            let left = as_kv(c);
            let p = pipeline_of(&left);
            let s1 = as_kv(build_on(&p, sib));
            let _before = do_join(JoinKind::Full, &left, &s1);
            let rc = as_kv(build_on(&p, right));
            let out = do_join(kind, &left, &rc);
            let _after = do_join(JoinKind::Inner, &left, &s1).map_values(|v: &V| v.clone());
            Coll::KV(out)
        }
    }
}

/// reference rows of the two sides (plain-vector semantics) and whether a side contains a join
pub fn ref_sides(rows_so_far: &[V], r: &RightRef) -> Result<(Vec<V>, Vec<V>, bool), RefOut> {
    let run = |src: &[V], steps: &[Step]| -> Result<Vec<V>, RefOut> {
        match reference(&Prog { shape: Shape::KV, src: src.to_vec(), steps: steps.to_vec() }) { RefOut::Rows(r) => Ok(r), other => Err(other) }
    };
    let has_join = |steps: &[Step]| steps.iter().any(|s| matches!(s, Step::Join(..) | Step::JoinX(..)));
    match r {
        RightRef::Other(p) | RightRef::Sibling(p, _) => Ok((rows_so_far.to_vec(), run(&p.src, &p.steps)?, has_join(&p.steps))),
        RightRef::Shared(l, rr) => Ok((run(rows_so_far, l)?, run(rows_so_far, rr)?, has_join(l) || has_join(rr))),
    }
}
