//! C01 — sequential and parallel execution return the same result.
//!
//! `PIPE mode=<seq|par:N> canon=<seq|deep> src <rows> ; steps…` — real side: the program is built with
//! the public builders on a fresh `Pipeline` and collected with `collect_seq` / `collect_par(None, Some(N))`.
//! Oracle (independent of the model): canonical(par) == canonical(seq); exact sequence for barrier-free
//! programs; every run terminates.

use crate::ctx::Ctx;
use crate::pipe::*;

fn modes_for(cx: &mut Ctx, len: usize, all: bool) -> Vec<Mode> {
    let mut m = vec![Mode::Seq];
    let choices = partition_choices(len);
    if all {
        m.extend(choices.into_iter().map(Mode::Par));
    } else {
        let a = *cx.rng.pick(&choices);
        let b = *cx.rng.pick(&choices);
        m.push(Mode::Par(a));
        if b != a { m.push(Mode::Par(b)); }
    }
    m
}

pub fn corpus() -> Vec<Prog> {
    let kv = |k: i64, v: i64| V::pair(V::I(k), V::I(v));
    vec![
        // fan-out 0 / 1 used to hang in parallel mode
        Prog { shape: Shape::T, src: (1..=4).map(V::I).collect(), steps: vec![Step::CombineGlobally(Comb::Sum, Some(0))] },
        Prog { shape: Shape::T, src: (1..=5).map(V::I).collect(), steps: vec![Step::CombineGlobally(Comb::Count, Some(1))] },
        Prog { shape: Shape::T, src: (1..=9).map(V::I).collect(), steps: vec![Step::CombineGloballyLifted(Comb::MaxT, Some(2))] },
        // lifted combine on grouped input with a repeated key: seq used to overwrite, par to merge
        Prog { shape: Shape::KG, src: vec![V::pair(V::I(0), V::L(vec![V::I(1)])), V::pair(V::I(0), V::L(vec![V::I(2)]))], steps: vec![Step::CombineValuesLifted(Comb::Sum)] },
        Prog { shape: Shape::KV, src: vec![kv(1, 1), kv(1, 2), kv(2, 5)], steps: vec![Step::Gbk, Step::CombineValuesLifted(Comb::Sum)] },
        Prog { shape: Shape::KV, src: vec![kv(1, 1), kv(1, 2), kv(2, 5)], steps: vec![Step::MapValues(Fn_::Add(1)), Step::FilterValues(Pred::Even)] },
        Prog { shape: Shape::KV, src: vec![kv(1, 1), kv(1, 2), kv(2, 5)], steps: vec![Step::Join(JoinKind::Left, Box::new(Prog { shape: Shape::KV, src: vec![kv(1, 7), kv(3, 9)], steps: vec![Step::MapValues(Fn_::Neg)] })), Step::CombineValues(Comb::Sum)] },
    ]
}

pub fn run(cx: &mut Ctx) {
    let o = CheckOpts { par_vs_seq: true, vs_reference: false };
    for p in corpus() {
        let modes = modes_for(cx, p.src.len(), true);
        check_prog(cx, &p, &modes, &o);
    }
    // a lawful NON-commutative combiner where the arrival order is the source order: seq = par only if partition
    // accumulators are merged in partition order
    let n = cx.budget(150, 1500);
    crate::pipe::ordered_comb_cases(cx, n, &o);
    // a legal `Hash` far coarser than `Eq` on the key / element type
    let n = cx.budget(80, 800);
    crate::pipe::coarse_hash_cases(cx, n, &o);
    // small-scope exhaustive: all keyed inputs of length <= 4 over 2 keys x all partition counts 1..6
    //   x {gbk, combine(sum), combine lifted after gbk, global(sum, fan-out none/2/3)}
    let maxlen = size_for(cx, 3, 4);
    let mut inputs: Vec<Vec<V>> = vec![vec![]];
    let mut frontier: Vec<Vec<V>> = vec![vec![]];
    for _ in 0..maxlen {
        let mut next = vec![];
        for s in &frontier {
            for k in 0..2i64 {
                let mut t = s.clone();
                t.push(V::pair(V::I(k), V::I(t.len() as i64 + 1)));
                next.push(t);
            }
        }
        inputs.extend(next.iter().cloned());
        frontier = next;
    }
    let tails: Vec<Vec<Step>> = vec![
        vec![Step::Gbk],
        vec![Step::CombineValues(Comb::Sum)],
        vec![Step::Gbk, Step::CombineValuesLifted(Comb::Count)],
        vec![Step::Values, Step::CombineGlobally(Comb::Sum, None)],
        vec![Step::Values, Step::CombineGlobally(Comb::Sum, Some(2))],
        vec![Step::Values, Step::CombineGlobally(Comb::Topk(2), Some(3))],
    ];
    let mut n_ex = 0;
    for src in &inputs {
        for t in &tails {
            let p = Prog { shape: Shape::KV, src: src.clone(), steps: t.clone() };
            let modes: Vec<Mode> = std::iter::once(Mode::Seq).chain((1..=6).map(Mode::Par)).collect();
            check_prog(cx, &p, &modes, &o);
            n_ex += 1;
        }
    }
    cx.exhaustive_blocks.push(format!("all keyed inputs of length <= {maxlen} over 2 keys x 6 barrier tails x seq + par 1..6 ({n_ex} programs)"));

    // engine / generator breadth (pipe_wide.rs, pipe_injoin.rs): the fan-out domain beyond 64 (huge fan-outs in a child
    // process under an address-space limit), wide plans (65..256 partitions), every barrier kind inside either join
    // side, built-in Min/Max behind emptied partitions, joins whose right side is not a fresh collection
    {
        let xo = crate::pipe_x::XOpts::of(&o);
        crate::pipe_wide::fanout_block(cx, &xo);
        crate::pipe_injoin::injoin_block(cx, &crate::pipe_injoin::all_side_barriers(), cx.budget(3, 4), &xo);
        crate::pipe_wide::minmax_block(cx, &xo);
        crate::pipe_injoin::joinx_block(cx, &xo);
        crate::pipe_wide::wide_block(cx, &crate::pipe_wide::WIDE_ALL, cx.budget(12, 60), &xo);
        crate::pipe_wide::many_keys_case(cx, vec![Step::Gbk, Step::Glen], &[Mode::Seq, Mode::Par(2), Mode::Par(200)]);
        crate::pipe_wide::many_keys_case(cx, vec![Step::CombineValues(Comb::Sum)], &[Mode::Seq, Mode::Par(3), Mode::Par(129)]);
        // `collect_par(Some(t), Some(n))` for t = 1, 2, 3: one child process per t (the first caller installs the global pool)
        crate::pipe_wide::threads_block(cx, &xo);
        // SCHEDULES: barrier-free programs (answers compared as exact SEQUENCES) of 24..40 rows, one row per partition
        // and 8 partitions, under jittered closures (0..2 ms sleeps) with private pools of 2 and of 16 threads: an
        // order-losing collect / an unordered parallel iterator shows up here at every seed
        {
            let mut n = 0;
            for i in 0..cx.budget(12, 60) {
                let len = 24 + cx.rng.below(17);
                let src: Vec<V> = (0..len as i64).map(|j| V::pair(V::I(j % 3), V::I(j))).collect();
                let steps = match i % 4 {
                    0 => vec![Step::MapValues(Fn_::Add(1))],
                    1 => vec![Step::Filter(Pred::Tt), Step::FlatMap(FlatFn::Twice)],
                    2 => vec![Step::Values, Step::Map(Fn_::Mul(2)), Step::KeyBy(KeyFn::Kmod(2))],
                    _ => vec![Step::MapValuesBatches(2, BatchFn::Each(Fn_::Neg)), Step::Unkey],
                };
                let p = Prog { shape: Shape::KV, src, steps };
                for threads in [2usize, 16] {
                    let jo = crate::pipe_x::XOpts { jitter_threads: threads, ..xo };
                    crate::pipe_x::check_prog_x(cx, &p, &[crate::pipe_x::XMode::Seq, crate::pipe_x::XMode::Par(len), crate::pipe_x::XMode::Par(8)], &jo);
                }
                n += 1;
            }
            cx.notes.push(format!("schedule block: {n} barrier-free programs of 24..40 rows x par len / 8 x jittered closures x pools of 2 and 16 threads, compared as sequences"));
        }
    }

    // large partitions (above the planner's 64k rows/partition target), oracle only
    {
        let n = if cx.tier == crate::ctx::Tier::Quick { 70_001 } else { 140_003 };
        let src = large_keyed_source(n, 13);
        let small = Prog { shape: Shape::KV, src: vec![V::pair(V::I(3), V::I(-1)), V::pair(V::I(12), V::I(-2))], steps: vec![] };
        for steps in [vec![Step::MapValues(Fn_::Add(1)), Step::Filter(Pred::Even)], vec![Step::Gbk, Step::Glen], vec![Step::CombineValues(Comb::MaxT)],
                      vec![Step::Values, Step::CombineGlobally(Comb::Count, Some(3))],
                      // flat_map / batch / distinct / join above 64k rows
                      vec![Step::FlatMap(FlatFn::Twice), Step::Filter(Pred::Even), Step::MapBatches(3, BatchFn::Each(Fn_::Add(1)))],
                      vec![Step::Values, Step::Distinct], vec![Step::Join(JoinKind::Left, Box::new(small.clone())), Step::CombineValues(Comb::Count)]] {
            let p = Prog { shape: Shape::KV, src: src.clone(), steps };
            check_prog_oracle_only(cx, &p, &format!("rows={n} keys=13"), &[Mode::Seq, Mode::Par(2), Mode::Par(7)]);
        }
    }

    // streamed file sources in front of every kind of barrier / join (incl. the zero-shard empty file):
    // `split` ignores the requested partition count and returns one part per shard
    {
        let fo = CheckOpts { par_vs_seq: true, vs_reference: true };
        let opts = GenOpts { max_steps: 6, max_rows: cx.budget(14, 60), barriers: true, joins: true, globals: true, nonlocal_batches: false };
        let rounds = cx.budget(60, 1200);
        let mut done = 0;
        while done < rounds {
            let mut p = gen_prog(&mut cx.rng, &opts);
            if done % 6 == 0 { p.src.clear(); }
            if !reorder_inert(&p) || !matches!(reference(&p), RefOut::Rows(_)) { continue; }
            let n = p.src.len();
            let per = *cx.rng.pick(&[0usize, 1, 2, 3, n.saturating_sub(1).max(1), n.max(1), n + 1, 1000]);
            check_prog_file(cx, &p, per, &[Mode::Seq, Mode::Par(1), Mode::Par(3)], &fo);
            done += 1;
        }
    }

    // random programs: every transform family, joins with transformed sides, global combines with any fan-out
    let opts = GenOpts { max_steps: 10, max_rows: cx.budget(24, 120), barriers: true, joins: true, globals: true, nonlocal_batches: false };
    let rounds = cx.budget(350, 6000);
    // the degree of real parallelism rotates over private rayon pools of 1, 2, 3, 4, 8 and 16 threads
    let thread_counts: &[usize] = &[0, 1, 2, 3, 4, 8, 16];
    for i in 0..rounds {
        let t = thread_counts[i % thread_counts.len()];
        PAR_THREADS.store(t, std::sync::atomic::Ordering::SeqCst);
        cx.count(&format!("rayon-threads:{}", if t == 0 { "default".to_string() } else { t.to_string() }));
        let p = gen_prog(&mut cx.rng, &opts);
        let all = i % 10 == 0;
        let modes = modes_for(cx, p.src.len(), all);
        // further collect entry points on a sample: `collect()`, `collect_par(None, None)` and (in-process; the global
        // pool is whatever was installed first) `collect_par(Some(2), Some(n))`
        let mut xm: Vec<crate::pipe_x::XMode> = modes.iter().map(|m| crate::pipe_x::XMode::of(*m)).collect();
        if i % 4 == 1 {
            xm.push(crate::pipe_x::XMode::Collect);
            xm.push(crate::pipe_x::XMode::ParAuto);
            xm.push(crate::pipe_x::XMode::ParT(2, 1 + cx.rng.below(5)));
        }
        crate::pipe_x::check_prog_x(cx, &p, &xm, &crate::pipe_x::XOpts::of(&o));
        // jittered closures (sleeping 0..2 ms) in a 1/10 sample, under private pools of 2 and of 16 threads
        if i % 10 == 3 {
            for threads in [2usize, 16] {
                let jo = crate::pipe_x::XOpts { jitter_threads: threads, ..crate::pipe_x::XOpts::of(&o) };
                let a = *cx.rng.pick(&partition_choices(p.src.len()));
                crate::pipe_x::check_prog_x(cx, &p, &[crate::pipe_x::XMode::Seq, crate::pipe_x::XMode::Par(a), crate::pipe_x::XMode::Par(4)], &jo);
            }
        }
    }
    PAR_THREADS.store(0, std::sync::atomic::Ordering::SeqCst);
    // round 3: sorted terminals, sources, composites, float aggregates (c01_x.rs)
    crate::c01_x::run(cx);
}
