//! C06 — built-in combiners are mergeable: any split and merge order equals the fold.
//!
//! Request: `COMB <name> <k> <all-values> | <postfix program>`   answer: `<tree-output> <fold-output> <tree-accumulator>`
//!   name ∈ count sum min max avg fsum dcount dset topk   (k only used by topk, else 0)
//!   program tokens: `A:<vals>` create()+add_input*, `B:<vals>` build_from_group, `P:<vals>` add_input*
//!   onto the top accumulator, `M` merge(&mut second, top).
//! Real side: the real `CombineFn::{create,add_input,merge,finish}` / `LiftableCombiner::build_from_group`
//! called in exactly that shape, under catch_unwind. Oracle: both outputs equal an independent
//! reference (count / iterator sum / min / max / sum÷len / BTreeSet / sort-descending-and-truncate).

use crate::ctx::{Ctx, guarded};
use ironbeam::collection::{CombineFn, Count, LiftableCombiner};
use ironbeam::combiners::{AverageF64, DistinctCount, DistinctSet, Max, Min, Sum, TopK};
use std::collections::BTreeSet;

#[derive(Clone, Debug)]
pub(crate) enum Op<V> {
    A(Vec<V>),
    B(Vec<V>),
    P(Vec<V>),
    M,
}

/// run the postfix program on the REAL combiner
fn run_prog<V: Clone + Send + Sync + 'static, A, O, C>(c: &C, prog: &[Op<V>]) -> A
where
    C: CombineFn<V, A, O> + LiftableCombiner<V, A, O>,
{
    let mut st: Vec<A> = Vec::new();
    for op in prog {
        match op {
            Op::A(xs) => {
                let mut acc = c.create();
                for x in xs {
                    c.add_input(&mut acc, x.clone());
                }
                st.push(acc);
            }
            Op::B(xs) => st.push(c.build_from_group(xs)),
            Op::P(xs) => {
                let acc = st.last_mut().expect("P on empty stack");
                for x in xs {
                    c.add_input(acc, x.clone());
                }
            }
            Op::M => {
                let r = st.pop().expect("M on empty stack");
                let l = st.last_mut().expect("M on one-element stack");
                c.merge(l, r);
            }
        }
    }
    assert_eq!(st.len(), 1, "program must leave one accumulator");
    st.pop().unwrap()
}

/// (tree output, fold output, canonical form of the tree's final accumulator before `finish`)
pub(crate) fn run_case<V: Clone + Send + Sync + 'static, A, O, C>(
    c: &C,
    prog: &[Op<V>],
    all: &[V],
    sh: impl Fn(O) -> String,
    sa: impl Fn(&A) -> String,
) -> (String, String, String)
where
    C: CombineFn<V, A, O> + LiftableCombiner<V, A, O>,
{
    let (t, a) = match guarded(|| run_prog(c, prog)) {
        Ok(acc) => {
            let a = sa(&acc);
            (guarded(|| c.finish(acc)).map_or("PANIC".to_string(), &sh), a)
        }
        Err(_) => ("PANIC".to_string(), "PANIC".to_string()),
    };
    let f = guarded(|| run_fold(c, all)).map_or("PANIC".to_string(), &sh);
    (t, f, a)
}

fn run_fold<V: Clone + Send + Sync + 'static, A, O, C>(c: &C, all: &[V]) -> O
where
    C: CombineFn<V, A, O>,
{
    let mut acc = c.create();
    for x in all {
        c.add_input(&mut acc, x.clone());
    }
    c.finish(acc)
}

/// decimal with 3 fractional digits, exact: value = m / 1000
#[derive(Clone, Copy, Debug)]
struct Milli(i64);
impl Milli {
    fn f(self) -> f64 {
        self.0 as f64 / 1000.0
    }
    fn s(self) -> String {
        let neg = self.0 < 0;
        let a = self.0.unsigned_abs();
        if a % 1000 == 0 {
            format!("{}{}", if neg { "-" } else { "" }, a / 1000)
        } else {
            format!("{}{}.{:03}", if neg { "-" } else { "" }, a / 1000, a % 1000)
        }
    }
}

pub(crate) fn enc<V>(xs: &[V], s: &dyn Fn(&V) -> String) -> String {
    xs.iter().map(|x| s(x)).collect::<Vec<_>>().join(",")
}
pub(crate) fn enc_all<V>(xs: &[V], s: &dyn Fn(&V) -> String) -> String {
    if xs.is_empty() { "-".into() } else { enc(xs, s) }
}
pub(crate) fn enc_prog<V>(prog: &[Op<V>], s: &dyn Fn(&V) -> String) -> String {
    prog.iter()
        .map(|op| match op {
            Op::A(xs) => format!("A:{}", enc(xs, s)),
            Op::B(xs) => format!("B:{}", enc(xs, s)),
            Op::P(xs) => format!("P:{}", enc(xs, s)),
            Op::M => "M".to_string(),
        })
        .collect::<Vec<_>>()
        .join(" ")
}
pub(crate) fn show_ints(v: &[i64]) -> String {
    if v.is_empty() { "-".into() } else { v.iter().map(|x| x.to_string()).collect::<Vec<_>>().join(",") }
}
fn show_f(x: f64) -> String {
    format!("F{x:?}")
}
fn close(a: f64, b: f64) -> bool {
    (a - b).abs() <= 1e-9 * 1.0f64.max(a.abs()).max(b.abs())
}

#[derive(Clone, Copy, PartialEq, Eq, Debug)]
pub(crate) enum Name {
    Count,
    Sum,
    Min,
    Max,
    Avg,
    FSum,
    DCount,
    DSet,
    TopK,
}
pub(crate) const INT_NAMES: [Name; 7] = [Name::Count, Name::Sum, Name::Min, Name::Max, Name::DCount, Name::DSet, Name::TopK];
impl Name {
    pub(crate) fn s(self) -> &'static str {
        match self {
            Name::Count => "count",
            Name::Sum => "sum",
            Name::Min => "min",
            Name::Max => "max",
            Name::Avg => "avg",
            Name::FSum => "fsum",
            Name::DCount => "dcount",
            Name::DSet => "dset",
            Name::TopK => "topk",
        }
    }
}

pub(crate) fn flat<V: Clone>(prog: &[Op<V>]) -> Vec<V> {
    let mut v = vec![];
    for op in prog {
        match op {
            Op::A(x) | Op::B(x) | Op::P(x) => v.extend(x.iter().cloned()),
            Op::M => {}
        }
    }
    v
}

/// emit one case for an integer-valued combiner. `all` is the whole input in original order; the
/// program's leaves hold the same multiset of values.
pub(crate) fn one_int(cx: &mut Ctx, name: Name, k: usize, all: &[i64], prog: &[Op<i64>]) {
    let s = |x: &i64| x.to_string();
    let req = format!("COMB {} {} {} | {}", name.s(), k, enc_all(all, &s), enc_prog(prog, &s));
    // reference values (independent of the implementation and the model)
    let n = all.len();
    let mut desc = all.to_vec();
    desc.sort_by(|a, b| b.cmp(a));
    let set: BTreeSet<i64> = all.iter().copied().collect();
    let want: String = match name {
        Name::Count => n.to_string(),
        Name::Sum => all.iter().sum::<i64>().to_string(),
        Name::Min => desc.last().map_or("PANIC".into(), |x| x.to_string()),
        Name::Max => desc.first().map_or("PANIC".into(), |x| x.to_string()),
        Name::DCount => set.len().to_string(),
        Name::DSet => show_ints(&set.iter().copied().collect::<Vec<_>>()),
        Name::TopK => {
            let mut t = desc.clone();
            t.truncate(k);
            show_ints(&t)
        }
        _ => unreachable!(),
    };
    let sorted_set = |h: &std::collections::HashSet<i64>| {
        let mut v: Vec<i64> = h.iter().copied().collect();
        v.sort();
        format!("a={}", show_ints(&v))
    };
    let (t, f, a) = match name {
        Name::Count => run_case(&Count, prog, all, |o: u64| o.to_string(), |a: &u64| format!("a={a}")),
        Name::Sum => run_case(&Sum::<i64>::new(), prog, all, |o: i64| o.to_string(), |a: &i64| format!("a={a}")),
        Name::Min => run_case(&Min::<i64>::new(), prog, all, |o: i64| o.to_string(), |a: &Option<i64>| {
            a.map_or("a=none".to_string(), |x| format!("a={x}"))
        }),
        Name::Max => run_case(&Max::<i64>::new(), prog, all, |o: i64| o.to_string(), |a: &Option<i64>| {
            a.map_or("a=none".to_string(), |x| format!("a={x}"))
        }),
        Name::DCount => run_case(&DistinctCount::<i64>::new(), prog, all, |o: u64| o.to_string(), sorted_set),
        Name::DSet => {
            let sh = |mut o: Vec<i64>| {
                o.sort(); // HashSet iteration order is unspecified: canonical form
                show_ints(&o)
            };
            run_case(&DistinctSet::<i64>::new(), prog, all, sh, sorted_set)
        }
        Name::TopK => run_case(
            &TopK::<i64>::new(k),
            prog,
            all,
            |o: Vec<i64>| show_ints(&o),
            |h: &std::collections::BinaryHeap<std::cmp::Reverse<i64>>| {
                let mut v: Vec<i64> = h.iter().map(|r| r.0).collect();
                v.sort(); // heap contents, ascending
                format!("a={}", show_ints(&v))
            },
        ),
        _ => unreachable!(),
    };
    let nparts = prog.iter().filter(|o| !matches!(o, Op::M)).count();
    let nt = n >= 2 && nparts >= 2;
    let i = cx.case(req, format!("{t} {f} {a}"), nt);
    stats(cx, name, k, n, prog);
    if t != want {
        cx.oracle_fail(i, &format!("{}-tree-differs-from-reference", name.s()), format!("tree output {t}, reference {want}"));
    }
    if f != want {
        cx.oracle_fail(i, &format!("{}-fold-differs-from-reference", name.s()), format!("fold output {f}, reference {want}"));
    }
}

fn one_float(cx: &mut Ctx, name: Name, all: &[Milli], prog: &[Op<Milli>]) {
    let s = |x: &Milli| x.s();
    let req = format!("COMB {} 0 {} | {}", name.s(), enc_all(all, &s), enc_prog(prog, &s));
    let fall: Vec<f64> = all.iter().map(|m| m.f()).collect();
    let fprog: Vec<Op<f64>> = prog
        .iter()
        .map(|op| match op {
            Op::A(x) => Op::A(x.iter().map(|m| m.f()).collect()),
            Op::B(x) => Op::B(x.iter().map(|m| m.f()).collect()),
            Op::P(x) => Op::P(x.iter().map(|m| m.f()).collect()),
            Op::M => Op::M,
        })
        .collect();
    // reference in exact integer arithmetic (milli-units), converted once
    let total: i64 = all.iter().map(|m| m.0).sum();
    let want = match name {
        Name::FSum => total as f64 / 1000.0,
        Name::Avg => {
            if all.is_empty() { 0.0 } else { total as f64 / 1000.0 / all.len() as f64 }
        }
        _ => unreachable!(),
    };
    let shf = |o: f64| show_f(o);
    let (ts, fs, a) = match name {
        Name::FSum => run_case(&Sum::<f64>::new(), &fprog, &fall, shf, |a: &f64| show_f(*a)),
        Name::Avg => run_case(&AverageF64, &fprog, &fall, shf, |a: &(f64, u64)| format!("{} n={}", show_f(a.0), a.1)),
        _ => unreachable!(),
    };
    let parse = |s: &str| -> Result<f64, String> { s.strip_prefix('F').and_then(|x| x.parse::<f64>().ok()).ok_or_else(|| s.to_string()) };
    let (t, f) = (parse(&ts), parse(&fs));
    let sh = |r: &Result<f64, String>| r.as_ref().map_or("PANIC".to_string(), |x| show_f(*x));
    let nparts = prog.iter().filter(|o| !matches!(o, Op::M)).count();
    let nt = all.len() >= 2 && nparts >= 2;
    let i = cx.case(req, format!("{ts} {fs} {a}"), nt);
    stats(cx, name, 0, all.len(), prog);
    if !t.as_ref().map_or(false, |x| close(*x, want)) {
        cx.oracle_fail(i, &format!("{}-tree-differs-from-reference", name.s()), format!("tree output {}, reference {want:?}", sh(&t)));
    }
    if !f.as_ref().map_or(false, |x| close(*x, want)) {
        cx.oracle_fail(i, &format!("{}-fold-differs-from-reference", name.s()), format!("fold output {}, reference {want:?}", sh(&f)));
    }
}

fn stats<V>(cx: &mut Ctx, name: Name, k: usize, n: usize, prog: &[Op<V>]) {
    cx.count(&format!("comb:{}", name.s()));
    let parts = prog.iter().filter(|o| !matches!(o, Op::M)).count();
    cx.count(&format!("parts:{}", parts.min(9)));
    cx.count(&format!("n:{}", if n <= 5 { n.to_string() } else if n <= 20 { "6-20".into() } else { ">20".into() }));
    if prog.iter().any(|o| matches!(o, Op::B(_))) {
        cx.count("has:build_from_group");
    }
    if prog.iter().any(|o| matches!(o, Op::P(_))) {
        cx.count("has:add-after-merge");
    }
    if prog.iter().any(|o| matches!(o, Op::A(x) | Op::B(x) if x.is_empty())) {
        cx.count("has:empty-part");
    }
    if name == Name::TopK {
        cx.count(if k == 0 { "topk:k=0" } else if k > n { "topk:k>n" } else if k == n { "topk:k=n" } else { "topk:0<k<n" });
        // which merge path the real code takes at the root is decided by sizes; record a proxy
        let mut sizes: Vec<usize> = vec![];
        let mut path_fast = 0;
        let mut path_slow = 0;
        for op in prog {
            match op {
                Op::A(x) | Op::B(x) => sizes.push(x.len().min(k)),
                Op::P(x) => {
                    if let Some(t) = sizes.last_mut() {
                        *t = (*t + x.len()).min(k)
                    }
                }
                Op::M => {
                    let r = sizes.pop().unwrap_or(0);
                    let l = sizes.pop().unwrap_or(0);
                    if l + r <= k { path_fast += 1 } else { path_slow += 1 }
                    sizes.push((l + r).min(k));
                }
            }
        }
        if path_fast > 0 {
            cx.count("topk:merge-extend-path");
        }
        if path_slow > 0 {
            cx.count("topk:merge-two-pointer-path");
        }
    }
}

// ---------- program construction ----------

/// all ordered splits of `0..n` into exactly `p` contiguous (possibly empty) parts: cut positions
pub(crate) fn splits(n: usize, p: usize) -> Vec<Vec<usize>> {
    // non-decreasing cut vectors c_1..c_{p-1} in 0..=n
    fn rec(n: usize, left: usize, lo: usize, cur: &mut Vec<usize>, out: &mut Vec<Vec<usize>>) {
        if left == 0 {
            out.push(cur.clone());
            return;
        }
        for c in lo..=n {
            cur.push(c);
            rec(n, left - 1, c, cur, out);
            cur.pop();
        }
    }
    let mut out = vec![];
    rec(n, p - 1, 0, &mut vec![], &mut out);
    out
}
pub(crate) fn cut<V: Clone>(all: &[V], cuts: &[usize]) -> Vec<Vec<V>> {
    let mut parts = vec![];
    let mut prev = 0;
    for &c in cuts {
        parts.push(all[prev..c].to_vec());
        prev = c;
    }
    parts.push(all[prev..].to_vec());
    parts
}

/// binary tree shapes over `p` leaves as postfix skeletons: `false` = next leaf, `true` = merge
pub(crate) fn shapes(p: usize) -> Vec<Vec<bool>> {
    if p == 1 {
        return vec![vec![false]];
    }
    let mut out = vec![];
    for l in 1..p {
        for a in shapes(l) {
            for b in shapes(p - l) {
                let mut s = a.clone();
                s.extend(b.iter().copied());
                s.push(true);
                out.push(s);
            }
        }
    }
    out
}
pub(crate) fn left_deep(p: usize) -> Vec<bool> {
    let mut s = vec![false];
    for _ in 1..p {
        s.push(false);
        s.push(true);
    }
    s
}
pub(crate) fn right_deep(p: usize) -> Vec<bool> {
    let mut s = vec![false; p];
    s.extend(std::iter::repeat(true).take(p - 1));
    s
}
pub(crate) fn random_shape(cx: &mut Ctx, p: usize) -> Vec<bool> {
    if p == 1 {
        return vec![false];
    }
    let l = 1 + cx.rng.below(p - 1);
    let mut s = random_shape(cx, l);
    s.extend(random_shape(cx, p - l));
    s.push(true);
    s
}
pub(crate) fn permutations(p: usize) -> Vec<Vec<usize>> {
    fn rec(rest: &mut Vec<usize>, cur: &mut Vec<usize>, out: &mut Vec<Vec<usize>>) {
        if rest.is_empty() {
            out.push(cur.clone());
            return;
        }
        for i in 0..rest.len() {
            let x = rest.remove(i);
            cur.push(x);
            rec(rest, cur, out);
            cur.pop();
            rest.insert(i, x);
        }
    }
    let mut out = vec![];
    rec(&mut (0..p).collect(), &mut vec![], &mut out);
    out
}
/// leaves in the given order, `lifted` bit i = leaf i built via build_from_group
pub(crate) fn assemble<V: Clone>(parts: &[Vec<V>], order: &[usize], lifted: u32, shape: &[bool]) -> Vec<Op<V>> {
    let mut prog = vec![];
    let mut next = 0;
    for &m in shape {
        if m {
            prog.push(Op::M);
        } else {
            let idx = order[next];
            let xs = parts[idx].clone();
            prog.push(if lifted >> next & 1 == 1 { Op::B(xs) } else { Op::A(xs) });
            next += 1;
        }
    }
    prog
}
pub(crate) fn shuffle(cx: &mut Ctx, v: &mut Vec<usize>) {
    for i in (1..v.len()).rev() {
        let j = cx.rng.below(i + 1);
        v.swap(i, j);
    }
}

pub(crate) fn all_seqs(alpha: &[i64], max_len: usize) -> Vec<Vec<i64>> {
    let mut out: Vec<Vec<i64>> = vec![vec![]];
    let mut frontier: Vec<Vec<i64>> = vec![vec![]];
    for _ in 0..max_len {
        let mut next = vec![];
        for s in &frontier {
            for x in alpha {
                let mut t = s.clone();
                t.push(*x);
                next.push(t);
            }
        }
        out.extend(next.iter().cloned());
        frontier = next;
    }
    out
}

fn milli(all: &[i64]) -> Vec<Milli> {
    // 0,1,2 ↦ 0.1, 1.5, -2.25 : one value that is inexact in binary, mixed signs
    all.iter().map(|x| Milli(match x { 0 => 100, 1 => 1500, _ => -2250 })).collect()
}
fn map_prog<V, W>(prog: &[Op<V>], f: &dyn Fn(&[V]) -> Vec<W>) -> Vec<Op<W>> {
    prog.iter()
        .map(|op| match op {
            Op::A(x) => Op::A(f(x)),
            Op::B(x) => Op::B(f(x)),
            Op::P(x) => Op::P(f(x)),
            Op::M => Op::M,
        })
        .collect()
}

/// every combiner on one (sequence, program); TopK for every k in 0..=n+1
fn every_combiner(cx: &mut Ctx, all: &[i64], prog: &[Op<i64>]) {
    for name in INT_NAMES {
        if name == Name::TopK {
            for k in 0..=all.len() + 1 {
                one_int(cx, name, k, all, prog);
            }
        } else {
            one_int(cx, name, 0, all, prog);
        }
    }
    let fall = milli(all);
    let fprog = map_prog(prog, &|x: &[i64]| milli(x));
    one_float(cx, Name::Avg, &fall, &fprog);
    one_float(cx, Name::FSum, &fall, &fprog);
}

/// size of an exhaustive scope (NOT scaled by the search tier's 10x budget: it is an exponent;
/// the search tier re-runs the quick scope with other seeds for the seeded shapes and a larger random block)
pub(crate) fn scope(cx: &Ctx, quick: usize, thorough: usize) -> usize {
    match cx.tier {
        crate::ctx::Tier::Thorough => thorough,
        _ => quick,
    }
}

pub fn run(cx: &mut Ctx) {
    // (1) corpus: design witnesses (ties across the two-pointer merge, len sum == k, k = 0, empty parts,
    //     Min/Max on nothing, merge with fresh accumulators on either side)
    let w = |a: &[i64]| a.to_vec();
    one_int(cx, Name::TopK, 2, &[1, 2, 2, 1], &[Op::A(w(&[1, 2])), Op::A(w(&[2, 1])), Op::M]);
    one_int(cx, Name::TopK, 2, &[1, 2], &[Op::A(w(&[1])), Op::B(w(&[2])), Op::M]);
    one_int(cx, Name::TopK, 3, &[5, 1, 4, 2], &[Op::A(w(&[5, 1])), Op::A(w(&[4, 2])), Op::M]);
    one_int(cx, Name::TopK, 0, &[1, 2], &[Op::A(w(&[1])), Op::B(w(&[2])), Op::M]);
    one_int(cx, Name::TopK, 1, &[3], &[Op::A(vec![]), Op::A(w(&[3])), Op::M, Op::A(vec![]), Op::M]);
    one_int(cx, Name::TopK, 2, &[3, 1, 2, 0], &[Op::A(w(&[3, 1])), Op::A(w(&[2])), Op::M, Op::P(w(&[0]))]);
    one_int(cx, Name::Min, 0, &[], &[Op::A(vec![]), Op::B(vec![]), Op::M]);
    one_int(cx, Name::Max, 0, &[], &[Op::A(vec![])]);
    one_int(cx, Name::Min, 0, &[2, 1], &[Op::A(vec![]), Op::A(w(&[2, 1])), Op::M]);
    one_int(cx, Name::Max, 0, &[1, 2], &[Op::A(w(&[1, 2])), Op::B(vec![]), Op::M]);
    one_int(cx, Name::DSet, 0, &[2, 1, 2], &[Op::A(vec![]), Op::B(w(&[2, 1, 2])), Op::M]);
    one_float(cx, Name::Avg, &[], &[Op::A(vec![]), Op::B(vec![]), Op::M]);

    // (2a) exhaustive small scope — the property's quantifier: every sequence of length ≤ N over 3 values ×
    // every ordered split into 1..=4 (possibly empty) parts × TopK k ∈ 0..=n+1 × {engine order (left-deep,
    // leaves in input order, all add_input), a seeded random shape/leaf order/lifted mask}
    let nmax = scope(cx, 5, 6);
    let seqs = all_seqs(&[0, 1, 2], nmax);
    let mut count_a = 0usize;
    for all in &seqs {
        for p in 1..=4usize {
            for cuts in splits(all.len(), p) {
                let parts = cut(all, &cuts);
                let id: Vec<usize> = (0..p).collect();
                let prog1 = assemble(&parts, &id, 0, &left_deep(p));
                every_combiner(cx, all, &prog1);
                let mut order = id.clone();
                shuffle(cx, &mut order);
                let mask = cx.rng.below(1 << p) as u32;
                let shape = if cx.rng.chance(1, 3) { right_deep(p) } else { random_shape(cx, p) };
                let prog2 = assemble(&parts, &order, mask, &shape);
                every_combiner(cx, all, &prog2);
                count_a += 2;
            }
        }
    }
    cx.exhaustive_blocks.push(format!(
        "all sequences of length <= {nmax} over {{0,1,2}} x all ordered splits into 1..4 possibly-empty parts x {{left-deep in input order via add_input; one seeded random tree shape + leaf order + build_from_group mask}} x all 9 combiners (TopK: every k in 0..n+1): {count_a} (sequence,split,tree) triples"
    ));

    // (2b) exhaustive in tree shape × leaf order × lifted mask on a smaller scope
    let nb = scope(cx, 3, 4);
    let seqs_b = all_seqs(&[0, 1, 2], nb);
    let mut count_b = 0usize;
    for all in &seqs_b {
        for p in 1..=3usize {
            let shs = shapes(p);
            let perms = permutations(p);
            for cuts in splits(all.len(), p) {
                let parts = cut(all, &cuts);
                for shape in &shs {
                    for order in &perms {
                        for mask in 0..(1u32 << p) {
                            let prog = assemble(&parts, order, mask, shape);
                            every_combiner(cx, all, &prog);
                            count_b += 1;
                        }
                    }
                }
            }
        }
    }
    cx.exhaustive_blocks.push(format!(
        "all sequences of length <= {nb} over {{0,1,2}} x all ordered splits into 1..3 possibly-empty parts x ALL binary tree shapes x ALL leaf orders x ALL build_from_group masks x all 9 combiners (TopK: every k in 0..n+1): {count_b} programs"
    ));

    // (3) random larger cases
    let rounds = cx.budget(1500, 30000);
    for _ in 0..rounds {
        let n = if cx.rng.chance(1, 10) { cx.rng.below(200) } else { cx.rng.below(24) };
        let dom = *cx.rng.pick(&[1i64, 2, 3, 5, 10, 1000, 1_000_000_000]);
        let all: Vec<i64> = (0..n).map(|_| cx.rng.range(-dom, dom)).collect();
        let p = 1 + cx.rng.below(8);
        let mut cuts: Vec<usize> = (0..p - 1).map(|_| cx.rng.below(n + 1)).collect();
        cuts.sort();
        let parts = cut(&all, &cuts);
        let mut order: Vec<usize> = (0..p).collect();
        if cx.rng.chance(2, 3) {
            shuffle(cx, &mut order);
        }
        let mask = cx.rng.next_u64() as u32;
        let shape = match cx.rng.below(4) {
            0 => left_deep(p),
            1 => right_deep(p),
            _ => random_shape(cx, p),
        };
        let mut prog = assemble(&parts, &order, mask, &shape);
        let mut all2 = all.clone();
        // sometimes keep adding after a merge (the accumulator a merge returns must still be a valid one)
        if cx.rng.chance(1, 3) {
            let extra: Vec<i64> = (0..cx.rng.below(4)).map(|_| cx.rng.range(-dom, dom)).collect();
            all2.extend(extra.iter().copied());
            let pos = prog.len();
            prog.insert(pos, Op::P(extra));
        }
        debug_assert_eq!(
            { let mut a = flat(&prog); a.sort(); a },
            { let mut b = all2.clone(); b.sort(); b }
        );
        let name = *cx.rng.pick(&INT_NAMES);
        for name in [name, Name::TopK] {
            let k = match cx.rng.below(6) {
                0 => 0,
                1 => all2.len(),
                2 => all2.len() + 1,
                3 => 1,
                _ => cx.rng.below(all2.len() + 2),
            };
            one_int(cx, name, if name == Name::TopK { k } else { 0 }, &all2, &prog);
        }
        // float-valued: decimals with three fractional digits, magnitude ≤ 1000
        let fall: Vec<Milli> = all2.iter().map(|x| Milli((x.wrapping_mul(7919)) % 1_000_000)).collect();
        let fprog = map_prog(&prog, &|x: &[i64]| x.iter().map(|x| Milli((x.wrapping_mul(7919)) % 1_000_000)).collect());
        let fname = if cx.rng.chance(1, 2) { Name::Avg } else { Name::FSum };
        one_float(cx, fname, &fall, &fprog);
    }

    // (4)-(7) round 3: large sizes, IEEE doubles, an element type with distinguishable ties, KMV (c06_ext.rs)
    crate::c06_ext::run_ext(cx);
}
