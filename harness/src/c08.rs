//! C08 — collections are lazy, immutable and re-runnable; branches do not interfere.
//!
//! Real side: 1..5 REAL OS threads share one `Pipeline` and execute small programs: new source (`from_vec`,
//! `from_custom_source` with a user `VecOps`, `read_jsonl_streaming` / `read_csv_streaming` over a temp file) /
//! derive through EVERY builder copy that is one `insert_node` + one `connect` (`map`, `filter`, `flat_map`,
//! `map_batches`, `apply_transform`, a debug tap, `map_values`, `filter_values`, `map_values_batches`,
//! `group_by_key`, `combine_values`, `combine_values_lifted`, `combine_globally`, `combine_globally_lifted`) / join of
//! the four kinds / collect through every entry point (`collect_seq`, `collect_par` with partitions or threads,
//! `collect`, `collect_*_sorted`, a `Runner` with checkpointing) / `set_metrics` / `take_metrics` / `get_metrics`.
//! A cooperative scheduler (installed through `verif_hooks::set_yield_callback`; every `Pipeline` method yields right
//! before taking the lock, every operation yields once at its `begin`, and — in the FINE blocks — a run yields between
//! the nodes of its chain, site `runner:stage`) lets exactly one thread run from one yield point to the next,
//! following a *schedule* (list of thread ids). So an interleaving at lock granularity is replayable and can be
//! ENUMERATED, and two executions can be interleaved node by node.
//!
//! Request  `GRAPH <n> <prog_0> … <prog_{n-1}> <schedule>`  (see lean/IbModel/Driver/D08.lean for the syntax)
//! Answer   `n=<#nodes> N=<id>:<kind>,… E=<from>-<to>,… T=<per lock step: thread, lock site, #nodes.#edges after it> U=<user-function calls> t0=<outcomes> …`
//!          from the real `snapshot()`, the real lock-site trace (stage yields are not lock steps and are left out),
//!          the real call counters of every user function, the real node ids and the real collect results.
//! The Lean model replays the same linearisation; the answers must be byte-identical.
//!
//! Request  `GINV <#nodes> <ids> <edges>`: a snapshot of the real graph after a FREE-RUNNING (no scheduler,
//! truly concurrent) history; the model evaluates its graph invariant on it, the harness its own.
//!
//! Oracle (independent of the model, of snapshots, ids and the back-walk): every handle carries its creation-time
//! lineage as a plain Rust expression tree (`Lin`); every collect must equal `eval(lin)` (as a multiset; as a SEQUENCE
//! for lineages without a barrier, whose order is fixed by the source); no user function (closure, `DynOp`, inspector,
//! any `CombineFn` method) runs during a step of a build operation, a builder returns with its own function uncalled,
//! a build-only history makes no call at all; node ids pairwise distinct, none lost; edges between existing nodes,
//! in-degree ≤ 1; `take_metrics` / `get_metrics` answers follow the order of the metrics critical sections.
//! How OFTEN a collect calls a user function is not part of the property (an engine may memoise or re-execute); it is
//! compared with the model's prediction in the `U=` field only.
//!
//! Wall-clock never decides a verdict: a scheduler step that does not come back within 30 s gets a grace period
//! (a stall is counted in a note); a history that is still stuck is re-executed from scratch with a 600 s limit, and
//! only a history that hangs twice is reported (`hang`).

use crate::ctx::{Ctx, Tier, guarded};
use ironbeam::collection::{CombineFn, LiftableCombiner};
use ironbeam::node::{DynOp, Node};
use ironbeam::testing::PCollectionDebugExt;
use ironbeam::type_token::{Partition, VecOps};
use ironbeam::{ExecMode, PCollection, Pipeline, Runner, from_custom_source, from_vec, read_csv_streaming, read_jsonl_streaming};
use std::any::Any;
use std::cell::RefCell;
use std::marker::PhantomData;
use std::path::PathBuf;
use std::sync::atomic::{AtomicBool, AtomicU64, AtomicUsize, Ordering};
use std::sync::{Arc, Condvar, Mutex, OnceLock};
use std::time::{Duration, Instant};

// ---------------------------------------------------------------------------------------------
// programs

#[derive(Clone, Copy, Debug, PartialEq)]
enum Ref { Front(usize), Back(usize), Mine(usize) }

/// user functions of the stateless builders that exist for every element type
#[derive(Clone, Copy, Debug, PartialEq)]
enum F {
    Add(i64), Mul(i64), Rekey(i64), Drop(i64, i64), // map, map, map, filter
    Flat(i64),                                      // flat_map
    Batch(usize, i64),                              // map_batches(size, v+n)
    Xform(i64),                                     // apply_transform(custom DynOp, v+n)
    Tap,                                            // debug_inspect_with (identity; the inspector is a user function)
}

/// user functions of the value-only builders of `(k,v)` collections (a commuting family: odd factors keep parity)
#[derive(Clone, Copy, Debug, PartialEq)]
enum VF { Mul(i64), Fil(i64), Bat(usize, i64) } // map_values(v*c), filter_values(v mod 2 != r), map_values_batches(size, v*c)

#[derive(Clone, Copy, Debug, PartialEq)]
enum JK { Inner, Left, Right, Full }

#[derive(Clone, Copy, Debug, PartialEq)]
enum SrcKind { Vec, Custom, Jsonl(usize), Csv(usize) }

#[derive(Clone, Copy, Debug, PartialEq)]
enum Mode { Seq, Par(usize), Plain, SeqSorted, ParSorted(usize), Threads(usize), CkSeq, CkPar(usize) }

#[derive(Clone, Debug, PartialEq)]
enum Op {
    Source(SrcKind, Vec<(i64, i64)>),
    Derive(Ref, F),                     // any element type
    ValOp(Ref, VF),                     // (k,v) -> (k,v)
    Group(Ref),                         // group_by_key                (k,v) -> (k,Vec v)
    CombV(Ref, i64),                    // combine_values(sum+bias)    (k,v) -> (k,v)
    CombL(Ref, i64),                    // combine_values_lifted(..)   (k,Vec v) -> (k,v)
    CombG(Ref, i64, Option<usize>, bool), // combine_globally[_lifted](.., fanout) (k,v) -> one (k,v)
    Join(JK, Ref, Ref),
    Collect(Ref, Mode),
    SetM,                               // Pipeline::set_metrics
    TakeM,                              // Pipeline::take_metrics
    GetM,                               // Pipeline::get_metrics
}

fn enc_ref(r: Ref) -> String {
    match r { Ref::Front(k) => format!("f{k}"), Ref::Back(k) => format!("b{k}"), Ref::Mine(k) => format!("m{k}") }
}
fn enc_f(f: F) -> String {
    match f {
        F::Add(n) => format!("a{n}"), F::Mul(n) => format!("m{n}"),
        F::Rekey(m) => format!("k{m}"), F::Drop(m, r) => format!("f{m}.{r}"),
        F::Flat(n) => format!("x{n}"), F::Batch(s, n) => format!("B{s}.{n}"), F::Xform(n) => format!("T{n}"), F::Tap => "i0".into(),
    }
}
fn enc_vf(f: VF) -> String {
    match f { VF::Mul(c) => format!("m{c}"), VF::Fil(r) => format!("f{r}"), VF::Bat(s, c) => format!("b{s}.{c}") }
}
fn enc_rows(rows: &[(i64, i64)]) -> String { rows.iter().map(|(k, v)| format!("{k}.{v}")).collect::<Vec<_>>().join("_") }
fn enc_mode(m: Mode) -> String {
    match m {
        Mode::Seq => "s".into(), Mode::Par(p) => format!("p{p}"), Mode::Plain => "c".into(), Mode::SeqSorted => "o".into(),
        Mode::ParSorted(p) => format!("q{p}"), Mode::Threads(t) => format!("t{t}"), Mode::CkSeq => "k".into(), Mode::CkPar(p) => format!("K{p}"),
    }
}
fn enc_op(op: &Op) -> String {
    match op {
        Op::Source(SrcKind::Vec, rows) => format!("S{}", enc_rows(rows)),
        Op::Source(SrcKind::Custom, rows) => format!("U{}", enc_rows(rows)),
        Op::Source(SrcKind::Jsonl(n), rows) => format!("R{n}/{}", enc_rows(rows)),
        Op::Source(SrcKind::Csv(n), rows) => format!("X{n}/{}", enc_rows(rows)),
        Op::Derive(r, f) => format!("D{}/{}", enc_ref(*r), enc_f(*f)),
        Op::ValOp(r, f) => format!("W{}/{}", enc_ref(*r), enc_vf(*f)),
        Op::Group(r) => format!("G{}", enc_ref(*r)),
        Op::CombV(r, b) => format!("V{}/{b}", enc_ref(*r)),
        Op::CombL(r, b) => format!("L{}/{b}", enc_ref(*r)),
        Op::CombG(r, b, fo, lifted) => format!("{}{}/{b}/{}", if *lifted { 'Q' } else { 'A' }, enc_ref(*r), fo.map_or("n".to_string(), |x| x.to_string())),
        Op::Join(k, l, r) => format!("J{}{}/{}", match k { JK::Inner => 'i', JK::Left => 'l', JK::Right => 'r', JK::Full => 'f' }, enc_ref(*l), enc_ref(*r)),
        Op::Collect(r, m) => format!("C{}/{}", enc_ref(*r), enc_mode(*m)),
        Op::SetM => "M+".into(),
        Op::TakeM => "M-".into(),
        Op::GetM => "M?".into(),
    }
}
fn enc_prog(p: &[Op]) -> String {
    if p.is_empty() { "-".into() } else { p.iter().map(enc_op).collect::<Vec<_>>().join(";") }
}
/// kinds of the LOCK steps of an operation when its handles resolve: b = begin (harness), i = insert_node,
/// I = insert_node after which the builder returns (handle published), c = connect (+ publication),
/// s = snapshot, m/e = record_metrics_start/end, M/K/g = set/take/get_metrics
fn op_kinds(op: &Op) -> &'static str {
    match op {
        Op::Source(..) => "bI",
        Op::Derive(..) | Op::ValOp(..) | Op::Group(_) | Op::CombV(..) | Op::CombL(..) | Op::CombG(..) => "bic",
        Op::Join(..) => "bssiic",
        Op::Collect(..) => "bmse",
        Op::SetM => "bM",
        Op::TakeM => "bK",
        Op::GetM => "bg",
    }
}
fn op_steps(op: &Op) -> usize { op_kinds(op).len() }
fn prog_steps(p: &[Op]) -> usize { p.iter().map(op_steps).sum() }
fn prog_kinds(p: &[Op]) -> Vec<u8> { p.iter().flat_map(|o| op_kinds(o).bytes()).collect() }

// ---------------------------------------------------------------------------------------------
// lineage expressions: the oracle's own notion of "what this collection is" (fixed at creation)

#[derive(Clone, Debug, PartialEq)]
enum Cell { Absent, Null, Val(i64), List(Vec<i64>) }
type Row = (i64, Cell, Cell);

impl Cell {
    fn pv(&self) -> i64 { match self { Cell::Val(v) => *v, Cell::List(l) => l.iter().sum(), _ => 0 } }
    fn mapv(&self, g: impl Fn(i64) -> i64) -> Cell {
        match self { Cell::Val(v) => Cell::Val(g(*v)), Cell::List(l) => Cell::List(l.iter().map(|x| g(*x)).collect()), c => c.clone() }
    }
    fn vals(&self) -> Vec<i64> { match self { Cell::Val(v) => vec![*v], Cell::List(l) => l.clone(), _ => vec![] } }
}

enum Lin {
    Src(Vec<(i64, i64)>),
    Map { parent: Arc<Lin>, f: F },
    Val { parent: Arc<Lin>, f: VF },
    Group(Arc<Lin>),
    CombV { parent: Arc<Lin>, bias: i64 }, // on pairs and (lifted) on groups: per key, sum of all values + bias
    CombG { parent: Arc<Lin>, bias: i64 },
    Join(JK, Arc<Lin>, Arc<Lin>),
}
impl Lin {
    /// no barrier / join anywhere: the element ORDER is fixed by the source and the stateless functions
    fn ordered(&self) -> bool {
        match self {
            Lin::Src(_) => true,
            Lin::Map { parent, .. } | Lin::Val { parent, .. } => parent.ordered(),
            _ => false,
        }
    }
}

/// the user function of a stateless builder, on the common row view (pv = the value, or the sum of a group)
fn apply_f(f: F, r: &Row) -> Vec<Row> {
    let (k, v, w) = r;
    match f {
        F::Add(n) | F::Batch(_, n) | F::Xform(n) => vec![(*k, v.mapv(|x| x + n), w.clone())],
        F::Mul(n) => vec![(*k, v.mapv(|x| x * n), w.clone())],
        F::Rekey(m) => vec![((k + v.pv()).rem_euclid(m), v.clone(), w.clone())],
        F::Drop(m, q) => if v.pv().rem_euclid(m) != q { vec![r.clone()] } else { vec![] },
        F::Flat(n) => match v.pv().rem_euclid(3) {
            0 => vec![],
            1 => vec![r.clone()],
            _ => vec![r.clone(), (*k, v.mapv(|x| x + n), w.clone())],
        },
        F::Tap => vec![r.clone()],
    }
}
fn apply_vf(f: VF, v: i64) -> Option<i64> {
    match f {
        VF::Mul(c) | VF::Bat(_, c) => Some(v * c),
        VF::Fil(q) => if v.rem_euclid(2) != q { Some(v) } else { None },
    }
}

fn keys_of(rows: &[Row]) -> Vec<i64> {
    let mut seen = std::collections::HashSet::new();
    let mut ks: Vec<i64> = vec![];
    for r in rows { if seen.insert(r.0) { ks.push(r.0); } }
    ks
}

/// plain-Rust evaluation of a lineage
fn eval(l: &Lin) -> Vec<Row> {
    match l {
        Lin::Src(rows) => rows.iter().map(|(k, v)| (*k, Cell::Val(*v), Cell::Absent)).collect(),
        Lin::Map { parent, f } => eval(parent).iter().flat_map(|r| apply_f(*f, r)).collect(),
        Lin::Val { parent, f } => eval(parent).iter().filter_map(|r| apply_vf(*f, r.1.pv()).map(|v| (r.0, Cell::Val(v), Cell::Absent))).collect(),
        Lin::Group(parent) => {
            let input = eval(parent);
            let mut by: std::collections::HashMap<i64, Vec<i64>> = std::collections::HashMap::new();
            for r in &input { by.entry(r.0).or_default().extend(r.1.vals()); }
            keys_of(&input).into_iter().map(|k| (k, Cell::List(by.remove(&k).unwrap_or_default()), Cell::Absent)).collect()
        }
        Lin::CombV { parent, bias } => {
            let input = eval(parent);
            let mut by: std::collections::HashMap<i64, i64> = std::collections::HashMap::new();
            for r in &input { *by.entry(r.0).or_default() += r.1.pv(); }
            keys_of(&input).into_iter().map(|k| (k, Cell::Val(by[&k] + bias), Cell::Absent)).collect()
        }
        Lin::CombG { parent, bias } => {
            let input = eval(parent);
            let sk: i64 = input.iter().map(|r| r.0).sum();
            let sv: i64 = input.iter().map(|r| r.1.pv()).sum();
            vec![(sk.rem_euclid(2), Cell::Val(sv + bias), Cell::Absent)]
        }
        Lin::Join(kind, a, b) => {
            let l = eval(a);
            let r = eval(b);
            let mut out = vec![];
            for x in &l {
                let mut hit = false;
                for y in &r {
                    if x.0 == y.0 { hit = true; out.push((x.0, x.1.clone(), y.1.clone())); }
                }
                if !hit && matches!(kind, JK::Left | JK::Full) { out.push((x.0, x.1.clone(), Cell::Null)); }
            }
            if matches!(kind, JK::Right | JK::Full) {
                for y in &r {
                    if !l.iter().any(|x| x.0 == y.0) { out.push((y.0, Cell::Null, y.1.clone())); }
                }
            }
            out
        }
    }
}

fn show_cell(c: &Cell) -> String {
    match c {
        Cell::Absent => String::new(),
        Cell::Null => "n".into(),
        Cell::Val(v) => v.to_string(),
        Cell::List(l) => { let mut l = l.clone(); l.sort(); format!("g{}", l.iter().map(|x| x.to_string()).collect::<Vec<_>>().join("+")) }
    }
}
/// every row rendered, in the given order
fn render_rows(rows: &[Row]) -> Vec<String> {
    rows.iter().map(|(k, a, b)| match b {
        Cell::Absent => format!("{k}.{}", show_cell(a)),
        _ => format!("{k}.{}.{}", show_cell(a), show_cell(b)),
    }).collect()
}
/// canonical form: the rendered rows sorted bytewise
fn show_sorted(mut v: Vec<String>) -> String {
    if v.is_empty() { return "-".into(); }
    v.sort();
    v.join("_")
}
fn show_rows(rows: Vec<Row>) -> String { show_sorted(render_rows(&rows)) }

// ---------------------------------------------------------------------------------------------
// handles on the real pipeline

type KV = (i64, i64);
type JI = (i64, (i64, i64));
type JL = (i64, (i64, Option<i64>));
type JR = (i64, (Option<i64>, i64));
type JF = (i64, (Option<i64>, Option<i64>));
type GR = (i64, Vec<i64>);

fn oc(x: Option<i64>) -> Cell { x.map_or(Cell::Null, Cell::Val) }
fn co(c: &Cell) -> Option<i64> { match c { Cell::Val(v) => Some(*v), _ => None } }

/// the element types of the real collections, seen as the oracle's rows
trait RowT: Clone + Send + Sync + Ord + std::fmt::Debug + 'static {
    fn to_row(&self) -> Row;
    fn from_row(r: &Row) -> Self;
}
impl RowT for KV { fn to_row(&self) -> Row { (self.0, Cell::Val(self.1), Cell::Absent) } fn from_row(r: &Row) -> Self { (r.0, r.1.pv()) } }
impl RowT for JI { fn to_row(&self) -> Row { (self.0, Cell::Val(self.1.0), Cell::Val(self.1.1)) } fn from_row(r: &Row) -> Self { (r.0, (r.1.pv(), r.2.pv())) } }
impl RowT for JL { fn to_row(&self) -> Row { (self.0, Cell::Val(self.1.0), oc(self.1.1)) } fn from_row(r: &Row) -> Self { (r.0, (r.1.pv(), co(&r.2))) } }
impl RowT for JR { fn to_row(&self) -> Row { (self.0, oc(self.1.0), Cell::Val(self.1.1)) } fn from_row(r: &Row) -> Self { (r.0, (co(&r.1), r.2.pv())) } }
impl RowT for JF { fn to_row(&self) -> Row { (self.0, oc(self.1.0), oc(self.1.1)) } fn from_row(r: &Row) -> Self { (r.0, (co(&r.1), co(&r.2))) } }
impl RowT for GR { fn to_row(&self) -> Row { (self.0, Cell::List(self.1.clone()), Cell::Absent) } fn from_row(r: &Row) -> Self { (r.0, r.1.vals()) } }

#[derive(Clone)]
enum Coll { KV(PCollection<KV>), JI(PCollection<JI>), JL(PCollection<JL>), JR(PCollection<JR>), JF(PCollection<JF>), G(PCollection<GR>) }

macro_rules! each_coll {
    ($coll:expr, $c:ident => $body:expr) => {
        match $coll {
            Coll::KV($c) => $body, Coll::JI($c) => $body, Coll::JL($c) => $body,
            Coll::JR($c) => $body, Coll::JF($c) => $body, Coll::G($c) => $body,
        }
    };
}

#[derive(Clone)]
struct Handle { coll: Coll, lin: Arc<Lin>, inserted: usize }

impl Handle {
    fn id(&self) -> u64 { each_coll!(&self.coll, c => c.node_id().raw()) }
    /// element-type class: 0 = (k,v), 1 = join result, 2 = grouped
    fn class(&self) -> usize { match self.coll { Coll::KV(_) => 0, Coll::G(_) => 2, _ => 1 } }
}

fn pick<T: Clone>(l: &[T], k: usize) -> Option<T> {
    if l.is_empty() { None } else { Some(l[k % l.len()].clone()) }
}
fn pick_back<T: Clone>(l: &[T], k: usize) -> Option<T> {
    if l.is_empty() { None } else { Some(l[l.len() - 1 - (k % l.len())].clone()) }
}
fn resolve(pool: &[Handle], own: &[Handle], r: Ref) -> Option<Handle> {
    match r {
        Ref::Front(k) => pick(pool, k),
        Ref::Back(k) => pick_back(pool, k),
        Ref::Mine(k) => pick_back(own, k).or_else(|| pick_back(pool, k)),
    }
}
/// a typed argument is resolved among the handles of the required element-type class
fn resolve_cls(pool: &[Handle], own: &[Handle], class: usize, r: Ref) -> Option<Handle> {
    let p: Vec<Handle> = pool.iter().filter(|h| h.class() == class).cloned().collect();
    let o: Vec<Handle> = own.iter().filter(|h| h.class() == class).cloned().collect();
    resolve(&p, &o, r)
}

struct World {
    pipeline: Pipeline,
    pool: Mutex<Vec<Handle>>,
    /// calls of stateless user functions (per ELEMENT seen) and of `CombineFn::add_input`: the `U=` field
    calls: Arc<AtomicU64>,
    /// calls of `CombineFn::{create, merge, finish}` (depend on the partitioning; only "none while building" is checked)
    aux: Arc<AtomicU64>,
    /// reads of the user `VecOps` of custom sources (statistics)
    src_reads: Arc<AtomicU64>,
    ckdir: PathBuf,
    /// builders that returned with their own user function already called
    eager: Mutex<Vec<String>>,
}

/// call counter of ONE user function (its own count, and the world's totals)
#[derive(Clone)]
struct Tick { own: Arc<AtomicU64>, calls: Arc<AtomicU64>, aux: Arc<AtomicU64> }
impl Tick {
    fn new(w: &World) -> Tick { Tick { own: Arc::new(AtomicU64::new(0)), calls: w.calls.clone(), aux: w.aux.clone() } }
    fn hit(&self, n: usize) { self.own.fetch_add(n as u64, Ordering::SeqCst); self.calls.fetch_add(n as u64, Ordering::SeqCst); }
    fn side(&self) { self.own.fetch_add(1, Ordering::SeqCst); self.aux.fetch_add(1, Ordering::SeqCst); }
}

#[derive(Clone, Debug)]
enum Outcome { Built(u64), Collected(u64, String), Skipped, Panicked, MSet, MTaken(bool), MGot(bool) }

fn show_outcome(o: &Outcome) -> String {
    match o {
        Outcome::Built(id) => format!("B{id}"),
        Outcome::Collected(x, r) => format!("C{x}:{r}"),
        Outcome::Skipped => "K".into(),
        Outcome::Panicked => "P".into(),
        Outcome::MSet => "M".into(),
        Outcome::MTaken(b) => if *b { "M1".into() } else { "M0".into() },
        Outcome::MGot(b) => if *b { "M?1".into() } else { "M?0".into() },
    }
}

/// user combiners: EVERY method is a user function (add_input is the per-element one)
struct SumC { bias: i64, tick: Tick }
impl CombineFn<i64, i64, i64> for SumC {
    fn create(&self) -> i64 { self.tick.side(); 0 }
    fn add_input(&self, acc: &mut i64, v: i64) { self.tick.hit(1); *acc += v; }
    fn merge(&self, acc: &mut i64, other: i64) { self.tick.side(); *acc += other; }
    fn finish(&self, acc: i64) -> i64 { self.tick.side(); acc + self.bias }
}
impl LiftableCombiner<i64, i64, i64> for SumC {}
struct SumKV { bias: i64, tick: Tick }
impl CombineFn<KV, KV, KV> for SumKV {
    fn create(&self) -> KV { self.tick.side(); (0, 0) }
    fn add_input(&self, acc: &mut KV, v: KV) { self.tick.hit(1); acc.0 += v.0; acc.1 += v.1; }
    fn merge(&self, acc: &mut KV, other: KV) { self.tick.side(); acc.0 += other.0; acc.1 += other.1; }
    fn finish(&self, acc: KV) -> KV { self.tick.side(); (acc.0.rem_euclid(2), acc.1 + self.bias) }
}
impl LiftableCombiner<KV, KV, KV> for SumKV {}

/// a user `DynOp` for `apply_transform`
struct XformOp<T> { f: F, tick: Tick, _t: PhantomData<fn() -> T> }
impl<T: RowT> DynOp for XformOp<T> {
    fn apply(&self, input: Partition) -> Partition {
        let v = *input.downcast::<Vec<T>>().expect("XformOp: expected Vec<T>");
        self.tick.hit(v.len());
        let out: Vec<T> = v.iter().map(|x| T::from_row(&apply_f(self.f, &x.to_row())[0])).collect();
        Box::new(out) as Partition
    }
}

/// a user source: its own payload type and its own `VecOps` (reads are counted)
struct CustomPayload { rows: Vec<KV>, reads: Arc<AtomicU64> }
struct CustomOps;
impl VecOps for CustomOps {
    fn len(&self, data: &dyn Any) -> Option<usize> { data.downcast_ref::<CustomPayload>().map(|p| p.rows.len()) }
    fn split(&self, data: &dyn Any, n: usize) -> Option<Vec<Partition>> {
        let p = data.downcast_ref::<CustomPayload>()?;
        p.reads.fetch_add(1, Ordering::SeqCst);
        if n <= 1 || p.rows.len() <= 1 { return Some(vec![Box::new(p.rows.clone()) as Partition]); }
        let chunk = p.rows.len().div_ceil(n);
        Some(p.rows.chunks(chunk).map(|c| Box::new(c.to_vec()) as Partition).collect())
    }
    fn clone_any(&self, data: &dyn Any) -> Option<Partition> {
        let p = data.downcast_ref::<CustomPayload>()?;
        p.reads.fetch_add(1, Ordering::SeqCst);
        Some(Box::new(p.rows.clone()) as Partition)
    }
}

/// scratch directory of this harness process (data files of the streaming sources, checkpoint directories)
fn scratch() -> &'static PathBuf {
    static DIR: OnceLock<PathBuf> = OnceLock::new();
    DIR.get_or_init(|| {
        let d = std::env::temp_dir().join(format!("ibh-c08-{}", std::process::id()));
        let _ = std::fs::remove_dir_all(&d);
        std::fs::create_dir_all(&d).expect("scratch dir");
        d
    })
}
/// the file holding `rows` in the given format (written once per content)
fn data_file(ext: &str, rows: &[KV]) -> PathBuf {
    static LOCK: Mutex<()> = Mutex::new(());
    let mut h: u64 = 0xcbf2_9ce4_8422_2325;
    for (k, v) in rows { for b in k.to_le_bytes().iter().chain(v.to_le_bytes().iter()) { h = (h ^ *b as u64).wrapping_mul(0x100_0000_01b3); } }
    let path = scratch().join(format!("d{:016x}_{}.{ext}", h, rows.len()));
    let _g = LOCK.lock().unwrap_or_else(|e| e.into_inner());
    if !path.exists() {
        let mut s = String::new();
        for (k, v) in rows { if ext == "jsonl" { s.push_str(&format!("[{k},{v}]\n")); } else { s.push_str(&format!("{k},{v}\n")); } }
        std::fs::write(&path, s).expect("write data file");
    }
    path
}

/// the REAL builder / collect calls
fn derive_t<T: RowT>(c: &PCollection<T>, f: F, tick: Tick) -> PCollection<T> {
    match f {
        F::Drop(..) => c.clone().filter(move |x: &T| { tick.hit(1); !apply_f(f, &x.to_row()).is_empty() }),
        F::Add(_) | F::Mul(_) | F::Rekey(_) => c.clone().map(move |x: &T| { tick.hit(1); T::from_row(&apply_f(f, &x.to_row())[0]) }),
        F::Flat(_) => c.clone().flat_map(move |x: &T| { tick.hit(1); apply_f(f, &x.to_row()).iter().map(T::from_row).collect::<Vec<T>>() }),
        F::Batch(size, _) => c.clone().map_batches(size, move |xs: &[T]| {
            tick.hit(xs.len());
            xs.iter().map(|x| T::from_row(&apply_f(f, &x.to_row())[0])).collect::<Vec<T>>()
        }),
        F::Xform(_) => c.apply_transform::<T>(Arc::new(XformOp::<T> { f, tick, _t: PhantomData })),
        F::Tap => c.debug_inspect_with("c08", move |_x: &T| tick.hit(1)),
    }
}
fn derive_real(h: &Handle, f: F, tick: Tick) -> Coll {
    match &h.coll {
        Coll::KV(c) => Coll::KV(derive_t(c, f, tick)),
        Coll::JI(c) => Coll::JI(derive_t(c, f, tick)),
        Coll::JL(c) => Coll::JL(derive_t(c, f, tick)),
        Coll::JR(c) => Coll::JR(derive_t(c, f, tick)),
        Coll::JF(c) => Coll::JF(derive_t(c, f, tick)),
        Coll::G(c) => Coll::G(derive_t(c, f, tick)),
    }
}
fn valop_real(c: &PCollection<KV>, f: VF, tick: Tick) -> PCollection<KV> {
    match f {
        VF::Mul(_) => c.clone().map_values(move |v: &i64| { tick.hit(1); apply_vf(f, *v).unwrap() }),
        VF::Fil(_) => c.clone().filter_values(move |v: &i64| { tick.hit(1); apply_vf(f, *v).is_some() }),
        VF::Bat(size, _) => c.clone().map_values_batches(size, move |vs: &[i64]| {
            tick.hit(vs.len());
            vs.iter().map(|v| apply_vf(f, *v).unwrap()).collect::<Vec<i64>>()
        }),
    }
}
fn collect_t<T: RowT>(w: &World, c: &PCollection<T>, mode: Mode) -> Result<Vec<Row>, String> {
    use ironbeam::checkpoint::{CheckpointConfig, CheckpointPolicy};
    let ck = |m: ExecMode| Runner {
        mode: m,
        checkpoint_config: Some(CheckpointConfig {
            enabled: true, directory: w.ckdir.clone(), policy: CheckpointPolicy::AfterEveryBarrier, auto_recover: true, max_checkpoints: Some(3),
        }),
        ..Default::default()
    };
    let r = match mode {
        Mode::Seq => c.clone().collect_seq(),
        Mode::Par(p) => c.clone().collect_par(None, Some(p)),
        Mode::Plain => c.clone().collect(),
        Mode::SeqSorted => c.clone().collect_seq_sorted(),
        Mode::ParSorted(p) => c.clone().collect_par_sorted(None, Some(p)),
        Mode::Threads(t) => c.clone().collect_par(Some(t), None),
        Mode::CkSeq => ck(ExecMode::Sequential).run_collect::<T>(&w.pipeline, c.node_id()),
        Mode::CkPar(p) => ck(ExecMode::Parallel { threads: None, partitions: Some(p) }).run_collect::<T>(&w.pipeline, c.node_id()),
    };
    r.map(|v| v.iter().map(RowT::to_row).collect()).map_err(|e| format!("{e:#}"))
}
fn collect_real(w: &World, h: &Handle, mode: Mode) -> Result<Vec<Row>, String> {
    each_coll!(&h.coll, c => collect_t(w, c, mode))
}

/// what one collect observed vs. what its creation-time lineage says
struct CollectObs { tid: usize, node: u64, mode: Mode, real: String, want: String, order: Option<String> }

/// run one operation of a thread on the real pipeline (after its `begin` yield)
fn exec_op(w: &World, own: &mut Vec<Handle>, op: &Op, tid: usize, obs: &Mutex<Vec<CollectObs>>) -> Outcome {
    let pool_now: Vec<Handle> = w.pool.lock().unwrap().clone();
    let publish = |h: Handle, own: &mut Vec<Handle>| {
        let id = h.id();
        w.pool.lock().unwrap().push(h.clone());
        own.push(h);
        Outcome::Built(id)
    };
    // a builder: build for real; when it holds a user function, that function must still be uncalled when the
    // builder returns (nobody else can know the new handle yet)
    let built = |lin: Arc<Lin>, tick: Option<&Tick>, inserted: usize, mk: &dyn Fn() -> Coll, own: &mut Vec<Handle>| {
        match guarded(|| mk()) {
            Ok(coll) => {
                if let Some(t) = tick {
                    let n = t.own.load(Ordering::SeqCst);
                    if n != 0 { w.eager.lock().unwrap().push(format!("thread {tid}: {} returned with its user function already called {n} times", enc_op(op))); }
                }
                publish(Handle { coll, lin, inserted }, own)
            }
            Err(_) => Outcome::Panicked,
        }
    };
    match op {
        Op::Source(kind, rows) => {
            let p = w.pipeline.clone();
            let rows2 = rows.clone();
            let reads = w.src_reads.clone();
            let kind = *kind;
            let made = guarded(move || -> Result<PCollection<KV>, String> {
                match kind {
                    SrcKind::Vec => Ok(from_vec(&p, rows2)),
                    SrcKind::Custom => Ok(from_custom_source::<KV, CustomPayload>(&p, CustomPayload { rows: rows2, reads }, Arc::new(CustomOps))),
                    SrcKind::Jsonl(n) => read_jsonl_streaming::<KV>(&p, data_file("jsonl", &rows2), n).map_err(|e| format!("{e:#}")),
                    SrcKind::Csv(n) => read_csv_streaming::<KV>(&p, data_file("csv", &rows2), false, n).map_err(|e| format!("{e:#}")),
                }
            });
            match made {
                Ok(Ok(c)) => publish(Handle { coll: Coll::KV(c), lin: Arc::new(Lin::Src(rows.clone())), inserted: 1 }, own),
                _ => Outcome::Panicked,
            }
        }
        Op::Derive(r, f) => {
            let Some(h) = resolve(&pool_now, own, *r) else { return Outcome::Skipped };
            let tick = Tick::new(w);
            let lin = Arc::new(Lin::Map { parent: h.lin.clone(), f: *f });
            built(lin, Some(&tick), 1, &|| derive_real(&h, *f, tick.clone()), own)
        }
        Op::ValOp(r, f) => {
            let Some(h) = resolve_cls(&pool_now, own, 0, *r) else { return Outcome::Skipped };
            let Coll::KV(c) = &h.coll else { return Outcome::Skipped };
            let tick = Tick::new(w);
            let lin = Arc::new(Lin::Val { parent: h.lin.clone(), f: *f });
            built(lin, Some(&tick), 1, &|| Coll::KV(valop_real(c, *f, tick.clone())), own)
        }
        Op::Group(r) => {
            let Some(h) = resolve_cls(&pool_now, own, 0, *r) else { return Outcome::Skipped };
            let Coll::KV(c) = &h.coll else { return Outcome::Skipped };
            built(Arc::new(Lin::Group(h.lin.clone())), None, 1, &|| Coll::G(c.clone().group_by_key()), own)
        }
        Op::CombV(r, bias) => {
            let Some(h) = resolve_cls(&pool_now, own, 0, *r) else { return Outcome::Skipped };
            let Coll::KV(c) = &h.coll else { return Outcome::Skipped };
            let tick = Tick::new(w);
            let lin = Arc::new(Lin::CombV { parent: h.lin.clone(), bias: *bias });
            built(lin, Some(&tick), 1, &|| Coll::KV(c.clone().combine_values(SumC { bias: *bias, tick: tick.clone() })), own)
        }
        Op::CombL(r, bias) => {
            let Some(h) = resolve_cls(&pool_now, own, 2, *r) else { return Outcome::Skipped };
            let Coll::G(c) = &h.coll else { return Outcome::Skipped };
            let tick = Tick::new(w);
            let lin = Arc::new(Lin::CombV { parent: h.lin.clone(), bias: *bias });
            built(lin, Some(&tick), 1, &|| Coll::KV(c.clone().combine_values_lifted(SumC { bias: *bias, tick: tick.clone() })), own)
        }
        Op::CombG(r, bias, fanout, lifted) => {
            let Some(h) = resolve_cls(&pool_now, own, 0, *r) else { return Outcome::Skipped };
            let Coll::KV(c) = &h.coll else { return Outcome::Skipped };
            let tick = Tick::new(w);
            let lin = Arc::new(Lin::CombG { parent: h.lin.clone(), bias: *bias });
            built(lin, Some(&tick), 1, &|| {
                let comb = SumKV { bias: *bias, tick: tick.clone() };
                Coll::KV(if *lifted { c.clone().combine_globally_lifted(comb, *fanout) } else { c.clone().combine_globally(comb, *fanout) })
            }, own)
        }
        Op::Join(kind, l, r) => {
            let (Some(a), Some(b)) = (resolve_cls(&pool_now, own, 0, *l), resolve_cls(&pool_now, own, 0, *r)) else {
                return Outcome::Skipped;
            };
            let (Coll::KV(ca), Coll::KV(cb)) = (&a.coll, &b.coll) else { return Outcome::Skipped };
            let lin = Arc::new(Lin::Join(*kind, a.lin.clone(), b.lin.clone()));
            built(lin, None, 2, &|| match kind {
                JK::Inner => Coll::JI(ca.join_inner(cb)),
                JK::Left => Coll::JL(ca.join_left(cb)),
                JK::Right => Coll::JR(ca.join_right(cb)),
                JK::Full => Coll::JF(ca.join_full(cb)),
            }, own)
        }
        Op::Collect(r, mode) => {
            let Some(h) = resolve(&pool_now, own, *r) else { return Outcome::Skipped };
            let got = guarded(|| collect_real(w, &h, *mode));
            // the oracle's value: the creation-time lineage alone
            let want_rows = eval(&h.lin);
            let want_seq = render_rows(&want_rows);
            let mut order = None;
            let real = match got {
                Ok(Ok(rows)) => {
                    let seq = render_rows(&rows);
                    let sorted_mode = matches!(mode, Mode::SeqSorted | Mode::ParSorted(_));
                    if h.lin.ordered() && !sorted_mode && seq != want_seq {
                        let at = seq.iter().zip(&want_seq).position(|(a, b)| a != b).unwrap_or(seq.len().min(want_seq.len()));
                        order = Some(format!("{} rows, first difference at index {at}: got {:?} want {:?}", seq.len(), seq.get(at), want_seq.get(at)));
                    }
                    show_sorted(seq)
                }
                Ok(Err(e)) => format!("ERR-{}", e.split_whitespace().take(3).collect::<Vec<_>>().join("-")),
                Err(_) => "PANIC".to_string(),
            };
            obs.lock().unwrap().push(CollectObs { tid, node: h.id(), mode: *mode, real: real.clone(), want: show_sorted(want_seq), order });
            Outcome::Collected(h.id(), real)
        }
        Op::SetM => {
            let p = w.pipeline.clone();
            match guarded(move || p.set_metrics(ironbeam::metrics::MetricsCollector::new())) {
                Ok(()) => Outcome::MSet,
                Err(_) => Outcome::Panicked,
            }
        }
        Op::TakeM => {
            let p = w.pipeline.clone();
            match guarded(move || p.take_metrics().is_some()) {
                Ok(b) => Outcome::MTaken(b),
                Err(_) => Outcome::Panicked,
            }
        }
        Op::GetM => {
            let p = w.pipeline.clone();
            match guarded(move || p.get_metrics().is_some()) {
                Ok(b) => Outcome::MGot(b),
                Err(_) => Outcome::Panicked,
            }
        }
    }
}

// ---------------------------------------------------------------------------------------------
// cooperative scheduler

/// one granted step: who, through which site, the real graph size and the total of user-function calls right
/// after it, and whether the thread was inside a collect operation
struct Step { tid: usize, site: &'static str, nodes: usize, edges: usize, calls: u64, collect: bool }
struct St { parked: Vec<Option<&'static str>>, done: Vec<bool>, grant: Option<usize>, in_collect: Vec<bool> }
struct Sched { m: Mutex<St>, cv: Condvar }

thread_local! {
    /// (scheduler, thread index, FINE: also stop between the nodes of a running chain)
    static CUR: RefCell<Option<(Arc<Sched>, usize, bool)>> = const { RefCell::new(None) };
}

/// machine stalls absorbed by the grace period / histories that looked hung once and completed when re-executed
static STALLS: AtomicU64 = AtomicU64::new(0);
static UNCONFIRMED_HANGS: AtomicU64 = AtomicU64::new(0);
/// set after a CONFIRMED hang: the leaked threads make further histories meaningless, the run stops generating
static ABORT: AtomicBool = AtomicBool::new(false);

fn yield_here(site: &'static str) {
    // the pipeline's own lock sites and the harness' `begin` are the scheduling points of the model; the stage
    // boundaries of a running chain are additional stopping points in the FINE blocks only
    let stage = site == "runner:stage";
    if site != "begin" && !stage && !site.starts_with("pipeline:") { return; }
    let cur = CUR.with(|c| c.borrow().clone());
    if let Some((s, t, fine)) = cur {
        if stage && !fine { return; }
        s.park(t, site);
    }
}

/// how long a step may take before it counts as a stall, and for how much longer the SAME step is waited for
#[derive(Clone, Copy)]
struct Limits { first: Duration, grace: Duration }
impl Limits {
    fn normal() -> Limits {
        // IBH_C08_STEP_MS / IBH_C08_GRACE_MS: validation knobs (make stalls / suspected hangs frequent so that the grace
        // path and the confirm-by-re-execution path are exercised)
        let first = std::env::var("IBH_C08_STEP_MS").ok().and_then(|s| s.parse::<u64>().ok()).map_or(Duration::from_secs(30), Duration::from_millis);
        let grace = std::env::var("IBH_C08_GRACE_MS").ok().and_then(|s| s.parse::<u64>().ok()).map_or(Duration::from_secs(270), Duration::from_millis);
        Limits { first, grace }
    }
    fn confirm() -> Limits {
        let first = std::env::var("IBH_C08_CONFIRM_MS").ok().and_then(|s| s.parse::<u64>().ok()).map_or(Duration::from_secs(600), Duration::from_millis);
        Limits { first, grace: Duration::ZERO }
    }
}

impl Sched {
    fn new(n: usize) -> Arc<Sched> {
        Arc::new(Sched { m: Mutex::new(St { parked: vec![None; n], done: vec![false; n], grant: None, in_collect: vec![false; n] }), cv: Condvar::new() })
    }
    fn park(&self, t: usize, site: &'static str) {
        let mut g = self.m.lock().unwrap();
        g.parked[t] = Some(site);
        self.cv.notify_all();
        while g.grant != Some(t) { g = self.cv.wait(g).unwrap(); }
        g.grant = None;
        g.parked[t] = None;
    }
    fn set_op(&self, t: usize, collect: bool) { self.m.lock().unwrap().in_collect[t] = collect; }
    fn finish(&self, t: usize) {
        let mut g = self.m.lock().unwrap();
        g.done[t] = true;
        self.cv.notify_all();
    }
    /// follow `plan` (entries of finished threads are skipped; afterwards lowest live thread first);
    /// returns the linearisation that actually happened, or None when a step did not come back within the limits
    fn drive(&self, plan: &[usize], probe: &dyn Fn() -> (usize, usize, u64), lim: Limits) -> Option<Vec<Step>> {
        let mut trace: Vec<Step> = vec![];
        let mut pos = 0;
        loop {
            let mut g = self.m.lock().unwrap();
            let quiescent = |g: &St| g.grant.is_none() && (0..g.done.len()).all(|t| g.done[t] || g.parked[t].is_some());
            let start = Instant::now();
            let mut stalled = false;
            while !quiescent(&g) {
                let slice = lim.first.min(Duration::from_millis(250)).max(Duration::from_millis(1));
                let (g2, _) = self.cv.wait_timeout(g, slice).unwrap();
                g = g2;
                if !quiescent(&g) {
                    let el = start.elapsed();
                    if el > lim.first { stalled = true; }
                    if el > lim.first + lim.grace { return None; }
                }
            }
            if stalled { STALLS.fetch_add(1, Ordering::SeqCst); }
            // everybody is parked or done: nobody holds the pipeline lock; look at what the last step did
            if let Some(last) = trace.last_mut() { let (n, e, c) = probe(); last.nodes = n; last.edges = e; last.calls = c; }
            if g.done.iter().all(|d| *d) { return Some(trace); }
            while pos < plan.len() && (plan[pos] >= g.done.len() || g.done[plan[pos]]) { pos += 1; }
            let t = if pos < plan.len() { pos += 1; plan[pos - 1] } else { (0..g.done.len()).find(|t| !g.done[*t]).unwrap() };
            trace.push(Step { tid: t, site: g.parked[t].unwrap(), nodes: 0, edges: 0, calls: 0, collect: g.in_collect[t] });
            g.grant = Some(t);
            self.cv.notify_all();
        }
    }
}

fn site_code(s: &str) -> char {
    match s {
        "begin" => 'b',
        "pipeline:insert_node" => 'i',
        "pipeline:connect" => 'c',
        "pipeline:snapshot" => 's',
        "pipeline:record_metrics_start" => 'm',
        "pipeline:record_metrics_end" => 'e',
        "pipeline:set_metrics" => 'M',
        "pipeline:take_metrics" => 'K',
        "pipeline:get_metrics" => 'g',
        "runner:stage" => 'r',
        _ => '?',
    }
}

// ---------------------------------------------------------------------------------------------
// one history

struct HistoryResult {
    trace: Option<Vec<Step>>, // None = did not come back within the limits
    outs: Vec<Vec<Outcome>>,
    obs: Vec<CollectObs>,
    world: Arc<World>,
}

static WORLD_SEQ: AtomicUsize = AtomicUsize::new(0);

/// run `progs` on fresh real threads sharing a fresh pipeline, after `pre` was executed on it by this thread
/// (no scheduler). `plan = Some(schedule)`: cooperative (`fine`: also stop at stage boundaries); `None`:
/// free-running (truly concurrent, started together)
fn run_history(pre: &[Op], progs: &[Vec<Op>], plan: Option<&[usize]>, fine: bool, lim: Limits) -> HistoryResult {
    let n = progs.len();
    let world = Arc::new(World {
        pipeline: Pipeline::default(), pool: Mutex::new(vec![]),
        calls: Arc::new(AtomicU64::new(0)), aux: Arc::new(AtomicU64::new(0)), src_reads: Arc::new(AtomicU64::new(0)),
        ckdir: scratch().join(format!("ck{}", WORLD_SEQ.fetch_add(1, Ordering::SeqCst))),
        eager: Mutex::new(vec![]),
    });
    let obs = Arc::new(Mutex::new(Vec::<CollectObs>::new()));
    {
        let mut own: Vec<Handle> = vec![];
        for op in pre { let _ = exec_op(&world, &mut own, op, usize::MAX, &obs); }
    }
    let sched = Sched::new(n);
    let outs = Arc::new(Mutex::new(vec![Vec::<Outcome>::new(); n]));
    let start = Arc::new(std::sync::Barrier::new(n));
    let scheduled = plan.is_some();
    let (done_tx, done_rx) = std::sync::mpsc::channel::<usize>();
    let mut joins = vec![];
    for (t, prog) in progs.iter().enumerate() {
        let (world, sched, obs, outs, prog, start, done_tx) = (world.clone(), sched.clone(), obs.clone(), outs.clone(), prog.clone(), start.clone(), done_tx.clone());
        joins.push(std::thread::spawn(move || {
            struct Fin(Arc<Sched>, usize, std::sync::mpsc::Sender<usize>);
            impl Drop for Fin { fn drop(&mut self) { CUR.with(|c| *c.borrow_mut() = None); self.0.finish(self.1); let _ = self.2.send(self.1); } }
            let _fin = Fin(sched.clone(), t, done_tx);
            if scheduled { CUR.with(|c| *c.borrow_mut() = Some((sched.clone(), t, fine))); } else { start.wait(); }
            let mut own: Vec<Handle> = vec![];
            for op in &prog {
                if scheduled { sched.set_op(t, matches!(op, Op::Collect(..))); }
                yield_here("begin");
                let o = exec_op(&world, &mut own, op, t, &obs);
                outs.lock().unwrap()[t].push(o);
            }
        }));
    }
    drop(done_tx);
    let probe = || {
        let (n, e) = world.pipeline.snapshot();
        (n.len(), e.len(), world.calls.load(Ordering::SeqCst) + world.aux.load(Ordering::SeqCst))
    };
    let trace = match plan {
        Some(p) => sched.drive(p, &probe, lim),
        None => {
            // free-running: all threads must come back within the limits
            let t0 = Instant::now();
            let deadline = t0 + lim.first + lim.grace;
            let mut back = 0;
            while back < n {
                let now = Instant::now();
                if now >= deadline { break; }
                match done_rx.recv_timeout((deadline - now).min(Duration::from_millis(250))) {
                    Ok(_) => back += 1,
                    Err(std::sync::mpsc::RecvTimeoutError::Timeout) => {}
                    Err(_) => break,
                }
            }
            if back == n && t0.elapsed() > lim.first && lim.grace > Duration::ZERO { STALLS.fetch_add(1, Ordering::SeqCst); }
            if back == n { Some(vec![]) } else { None }
        }
    };
    if trace.is_some() { for j in joins { let _ = j.join(); } }
    let outs = outs.lock().unwrap().clone();
    let obs = std::mem::take(&mut *obs.lock().unwrap());
    HistoryResult { trace, outs, obs, world }
}

/// run a history; a history that does not come back is re-executed from scratch (fresh pipeline, fresh threads)
/// with a much longer limit; only a history that hangs BOTH times is reported as hung (`Err`)
fn run_confirmed(pre: &[Op], progs: &[Vec<Op>], plan: Option<&[usize]>, fine: bool) -> Result<HistoryResult, HistoryResult> {
    let res = run_history(pre, progs, plan, fine, Limits::normal());
    if res.trace.is_some() { return Ok(res); }
    let again = run_history(pre, progs, plan, fine, Limits::confirm());
    if again.trace.is_some() { UNCONFIRMED_HANGS.fetch_add(1, Ordering::SeqCst); Ok(again) } else { ABORT.store(true, Ordering::SeqCst); Err(again) }
}

struct Snap { ids: Vec<u64>, kinds: Vec<char>, edges: Vec<(u64, u64)> }

fn snap(p: &Pipeline) -> Snap {
    let (nodes, edges) = p.snapshot();
    let mut v: Vec<(u64, char)> = nodes
        .iter()
        .map(|(id, n)| (id.raw(), match n {
            Node::Source { .. } => 'S', Node::Stateless(_) => 'T', Node::CoGroup { .. } => 'G',
            Node::GroupByKey { .. } => 'K', Node::CombineValues { .. } => 'V', Node::CombineGlobal { .. } => 'A', _ => 'O',
        }))
        .collect();
    v.sort();
    Snap { ids: v.iter().map(|x| x.0).collect(), kinds: v.iter().map(|x| x.1).collect(), edges: edges.iter().map(|(a, b)| (a.raw(), b.raw())).collect() }
}

fn dash(v: Vec<String>) -> String { if v.is_empty() { "-".into() } else { v.join(",") } }
fn clip(s: &str, n: usize) -> String { if s.len() <= n { s.to_string() } else { format!("{}…({} bytes)", &s[..s.char_indices().take_while(|(i, _)| *i < n).last().map_or(0, |(i, c)| i + c.len_utf8())], s.len()) } }

/// the graph facts the property states, evaluated on the real snapshot: one node per insert with pairwise
/// distinct ids (none lost/overwritten), edges between existing distinct nodes, in-degree <= 1
fn graph_ok(s: &Snap, inserts: usize) -> Result<(), String> {
    let mut ids = s.ids.clone();
    ids.dedup();
    if ids.len() != s.ids.len() || ids.len() != inserts {
        return Err(format!("{} nodes with ids {:?} after {inserts} inserts (ids must be pairwise distinct, none lost)", s.ids.len(), clip(&format!("{:?}", s.ids), 300)));
    }
    for (f, t) in &s.edges {
        if f == t || ids.binary_search(f).is_err() || ids.binary_search(t).is_err() {
            return Err(format!("edge {f}->{t} does not join two existing distinct nodes"));
        }
    }
    let mut tos: Vec<u64> = s.edges.iter().map(|e| e.1).collect();
    tos.sort();
    if tos.windows(2).any(|w| w[0] == w[1]) { return Err("a node has two incoming edges".into()); }
    Ok(())
}

/// oracle checks shared by the scheduled and the free-running mode
fn check_oracle(cx: &mut Ctx, i: usize, res: &HistoryResult, s: &Snap, ctxt: &str) {
    // node ids: one per insert, pairwise distinct
    let mut inserts = 0usize;
    let mut built: Vec<u64> = vec![];
    let mut panics = 0;
    for o in res.outs.iter().flatten() {
        match o { Outcome::Built(id) => built.push(*id), Outcome::Panicked => panics += 1, _ => {} }
    }
    for h in res.world.pool.lock().unwrap().iter() {
        inserts += h.inserted;
    }
    if panics > 0 { cx.oracle_fail(i, "operation-panicked", format!("{panics} operations panicked{ctxt}")); }
    let mut b2 = built.clone();
    b2.sort();
    b2.dedup();
    // handles built by the (unscheduled) prefix are in the pool, not in `outs`
    let mut pool_ids: Vec<u64> = res.world.pool.lock().unwrap().iter().map(Handle::id).collect();
    let pool_n = pool_ids.len();
    pool_ids.sort();
    pool_ids.dedup();
    if b2.len() != built.len() || pool_ids.len() != pool_n {
        cx.oracle_fail(i, "node-ids-not-distinct", format!("handles returned by builders share an id: {}{ctxt}", clip(&format!("{built:?}"), 300)));
    }
    if panics == 0 {
        if let Err(e) = graph_ok(s, inserts) { cx.oracle_fail(i, "graph-invariant-broken", format!("{e}{ctxt}")); }
    }
    // every collect equals the value of its creation-time lineage
    for o in &res.obs {
        if o.real != o.want {
            cx.oracle_fail(i, "collect-differs-from-lineage", format!("thread {} collect ({}) of node {}: got {} want {}{ctxt}", o.tid, enc_mode(o.mode), o.node, clip(&o.real, 400), clip(&o.want, 400)));
            break;
        }
        if let Some(d) = &o.order {
            cx.oracle_fail(i, "collect-order-differs-from-lineage", format!("thread {} collect ({}) of node {} (a lineage without barrier: the order is fixed by the source): {d}{ctxt}", o.tid, enc_mode(o.mode), o.node));
            break;
        }
    }
    // laziness: a builder returns with its own user function uncalled; a history without a collect calls nothing
    let total = res.world.calls.load(Ordering::SeqCst) + res.world.aux.load(Ordering::SeqCst);
    if let Some(e) = res.world.eager.lock().unwrap().first() {
        cx.oracle_fail(i, "user-code-ran-while-building", format!("{e}{ctxt}"));
    } else if res.obs.is_empty() && total != 0 {
        cx.oracle_fail(i, "user-code-ran-while-building", format!("{total} user-function calls in a history without a collect{ctxt}"));
    }
    if res.obs.is_empty() { cx.count("history:build-only(0 user-function calls required)"); }
    cx.count_n("user-function calls observed (per element / add_input)", res.world.calls.load(Ordering::SeqCst));
    cx.count_n("user-function calls observed (create/merge/finish)", res.world.aux.load(Ordering::SeqCst));
    cx.count_n("reads of a user VecOps", res.world.src_reads.load(Ordering::SeqCst));
    for o in &res.obs { cx.count(&format!("collect mode:{}", match o.mode {
        Mode::Seq => "collect_seq", Mode::Par(_) => "collect_par(partitions)", Mode::Plain => "collect", Mode::SeqSorted => "collect_seq_sorted",
        Mode::ParSorted(_) => "collect_par_sorted", Mode::Threads(_) => "collect_par(threads)", Mode::CkSeq => "checkpointed Runner seq", Mode::CkPar(_) => "checkpointed Runner par",
    })); }
}

fn req_of(progs: &[Vec<Op>], sched: &str) -> String {
    format!("GRAPH {} {} {sched}", progs.len(), progs.iter().map(|p| enc_prog(p)).collect::<Vec<_>>().join(" "))
}

fn one_scheduled(cx: &mut Ctx, progs: &[Vec<Op>], plan: &[usize], tag: &str) { one_sched(cx, progs, plan, tag, false) }

fn one_sched(cx: &mut Ctx, progs: &[Vec<Op>], plan: &[usize], tag: &str, fine: bool) {
    if ABORT.load(Ordering::SeqCst) { return; }
    let n = progs.len();
    let res = match run_confirmed(&[], progs, Some(plan), fine) {
        Ok(r) => r,
        Err(_) => {
            let i = cx.case(req_of(progs, &plan.iter().map(|t| t.to_string()).collect::<String>()), "HANG".into(), true);
            cx.oracle_fail(i, "hang", format!("a thread never reached its next yield point — twice: in the first execution (limit {:?} + grace {:?} per step) and in a re-execution from scratch (limit {:?} per step); fine={fine}", Limits::normal().first, Limits::normal().grace, Limits::confirm().first));
            return;
        }
    };
    let full = res.trace.as_ref().unwrap();
    let trace: Vec<&Step> = full.iter().filter(|st| st.site != "runner:stage").collect();
    let s = snap(&res.world.pipeline);
    let sched_s: String = if trace.is_empty() { "-".into() } else { trace.iter().map(|st| st.tid.to_string()).collect() };
    let trace_s: String = if trace.is_empty() { "-".into() } else { trace.iter().map(|st| format!("{}{}{}.{}", st.tid, site_code(st.site), st.nodes, st.edges)).collect() };
    let req = req_of(progs, &sched_s);
    let mut real = format!(
        "n={} N={} E={} T={trace_s} U={}",
        s.ids.len(),
        dash(s.ids.iter().zip(&s.kinds).map(|(i, k)| format!("{i}:{k}")).collect()),
        dash(s.edges.iter().map(|(a, b)| format!("{a}-{b}")).collect()),
        res.world.calls.load(Ordering::SeqCst)
    );
    for (t, o) in res.outs.iter().enumerate() {
        real.push_str(&format!(" t{t}={}", dash(o.iter().map(show_outcome).collect())));
    }
    let collects = res.obs.len();
    let i = cx.case(req, real, n >= 2 && trace.len() >= 4);
    cx.count(&format!("{tag}:threads={n}"));
    cx.count_n(&format!("{tag}:lock steps"), trace.len() as u64);
    if fine { cx.count_n(&format!("{tag}:stage steps"), (full.len() - trace.len()) as u64); }
    cx.count_n(&format!("{tag}:collects"), collects as u64);
    let mut switches = 0;
    for w in full.windows(2) { if w[0].tid != w[1].tid { switches += 1; } }
    cx.count_n(&format!("{tag}:context switches"), switches);
    if fine {
        // two executions really interleaved: a stage step of one thread between two stage/lock steps of a collect of another
        let mut open: Vec<bool> = vec![false; n];
        let mut overlapped = false;
        for st in full {
            match site_code(st.site) {
                's' | 'r' if st.collect => { if (0..n).any(|t| t != st.tid && open[t]) { overlapped = true; } open[st.tid] = true; }
                'e' => open[st.tid] = false,
                _ => {}
            }
        }
        if overlapped { cx.count(&format!("{tag}:histories with two executions interleaved stage by stage")); }
    }
    check_oracle(cx, i, &res, &s, "");
    // laziness at step granularity: only a step of a COLLECT operation may call a user function
    let mut prev = 0u64;
    for (k, st) in full.iter().enumerate() {
        if st.calls != prev && !st.collect {
            cx.oracle_fail(i, "user-code-ran-while-building", format!("step {k} (thread {}, site {}) of a build operation made {} user-function calls", st.tid, st.site, st.calls - prev));
            break;
        }
        prev = st.calls;
    }
    // set/take/get_metrics are linearisable: replaying the real lock-site trace, every take_metrics / get_metrics
    // returns Some exactly when a set_metrics was the last metrics write before it
    let mut has = false;
    let mut expect: Vec<Vec<(char, bool)>> = vec![vec![]; n];
    for st in &trace {
        match site_code(st.site) { 'M' => has = true, 'K' => { expect[st.tid].push(('K', has)); has = false; } 'g' => expect[st.tid].push(('g', has)), _ => {} }
    }
    for (t, o) in res.outs.iter().enumerate() {
        let got: Vec<(char, bool)> = o.iter().filter_map(|x| match x { Outcome::MTaken(b) => Some(('K', *b)), Outcome::MGot(b) => Some(('g', *b)), _ => None }).collect();
        if got != expect[t] {
            cx.oracle_fail(i, "take-metrics-not-linearisable", format!("thread {t}: take_metrics (K) / get_metrics (g) returned Some = {got:?}, the order of the critical sections implies {:?}", expect[t]));
            break;
        }
    }
}

/// a free-running history (after the unscheduled prefix `pre`)
fn one_free(cx: &mut Ctx, pre: &[Op], progs: &[Vec<Op>], tag: &str) {
    if ABORT.load(Ordering::SeqCst) { return; }
    let ctxt = format!(" [free-running, {} threads; prefix {} ; programs {}]", progs.len(), clip(&enc_prog(pre), 600), clip(&progs.iter().map(|p| enc_prog(p)).collect::<Vec<_>>().join(" | "), 1500));
    let res = match run_confirmed(pre, progs, None, false) {
        Ok(r) => r,
        Err(_) => {
            let i = cx.case("GINV 0 - -".into(), "HANG".into(), true);
            cx.oracle_fail(i, "hang", format!("a free-running history did not finish — twice (limits {:?} and {:?}){ctxt}", Limits::normal().first + Limits::normal().grace, Limits::confirm().first));
            return;
        }
    };
    let s = snap(&res.world.pipeline);
    let mut inserts = 0usize;
    for h in res.world.pool.lock().unwrap().iter() { inserts += h.inserted; }
    // next_id is not observable; the model is asked whether the snapshot is a legal graph with `inserts` nodes
    let real = if graph_ok(&s, inserts).is_ok() { "T" } else { "F" };
    let req = format!("GINV {inserts} {} {}", dash(s.ids.iter().map(|x| x.to_string()).collect()),
        dash(s.edges.iter().map(|(a, b)| format!("{a}-{b}")).collect()));
    let i = cx.case(req, real.into(), true);
    cx.count(&format!("{tag}:threads={}", progs.len()));
    cx.count_n(&format!("{tag}:collects"), res.obs.len() as u64);
    check_oracle(cx, i, &res, &s, &ctxt);
}

// ---------------------------------------------------------------------------------------------
// generators

fn gen_rows(cx: &mut Ctx) -> Vec<(i64, i64)> {
    let n = *cx.rng.pick(&[0usize, 1, 2, 3, 4, 6, 9]);
    let keys = *cx.rng.pick(&[2i64, 2, 4]);
    (0..n).map(|_| (cx.rng.range(0, keys), cx.rng.range(-4, 9))).collect()
}
fn gen_src(cx: &mut Ctx) -> Op {
    let rows = gen_rows(cx);
    let kind = match cx.rng.below(8) {
        0 | 1 => SrcKind::Custom,
        2 => SrcKind::Jsonl(1 + cx.rng.below(4)),
        3 => SrcKind::Csv(1 + cx.rng.below(4)),
        _ => SrcKind::Vec,
    };
    Op::Source(kind, rows)
}
fn gen_ref(cx: &mut Ctx) -> Ref {
    let k = cx.rng.below(4);
    match cx.rng.below(5) { 0 | 1 => Ref::Front(k), 2 | 3 => Ref::Back(k), _ => Ref::Mine(k) }
}
fn gen_f(cx: &mut Ctx) -> F {
    match cx.rng.below(12) {
        0 | 1 => F::Add(cx.rng.range(-3, 5)),
        2 => F::Mul(*cx.rng.pick(&[2i64, 3, -1])),
        3 => F::Rekey(cx.rng.range(1, 3)),
        4 | 5 => { let m = cx.rng.range(2, 3); F::Drop(m, cx.rng.range(0, m - 1)) }
        6 | 7 => F::Flat(cx.rng.range(1, 4)),
        8 | 9 => F::Batch(*cx.rng.pick(&[1usize, 2, 3, 64]), cx.rng.range(-2, 3)),
        10 => F::Xform(cx.rng.range(-2, 3)),
        _ => F::Tap,
    }
}
fn gen_vf(cx: &mut Ctx) -> VF {
    match cx.rng.below(3) {
        0 => VF::Mul(*cx.rng.pick(&[3i64, -1, 5])),
        1 => VF::Fil(cx.rng.range(0, 1)),
        _ => VF::Bat(*cx.rng.pick(&[1usize, 2, 5]), *cx.rng.pick(&[3i64, -1])),
    }
}
fn gen_jk(cx: &mut Ctx) -> JK { *cx.rng.pick(&[JK::Inner, JK::Left, JK::Right, JK::Full]) }
fn gen_mode(cx: &mut Ctx) -> Mode {
    match cx.rng.below(16) {
        0..=6 => Mode::Seq,
        7..=9 => Mode::Par(1 + cx.rng.below(5)),
        10 => Mode::Plain,
        11 => Mode::SeqSorted,
        12 => Mode::ParSorted(1 + cx.rng.below(3)),
        13 => Mode::Threads(1 + cx.rng.below(3)),
        14 => Mode::CkSeq,
        _ => Mode::CkPar(1 + cx.rng.below(3)),
    }
}
fn gen_op(cx: &mut Ctx) -> Op {
    match cx.rng.below(24) {
        0 | 1 => gen_src(cx),
        2..=5 => Op::Derive(gen_ref(cx), gen_f(cx)),
        6 | 7 => Op::ValOp(gen_ref(cx), gen_vf(cx)),
        8 => Op::Group(gen_ref(cx)),
        9 | 10 => Op::CombV(gen_ref(cx), cx.rng.range(-1, 2)),
        11 => Op::CombL(gen_ref(cx), cx.rng.range(-1, 2)),
        12 => { let r = gen_ref(cx); let b = cx.rng.range(-1, 2); Op::CombG(r, b, *cx.rng.pick(&[None, Some(0), Some(1), Some(2), Some(3)]), cx.rng.chance(1, 2)) }
        13..=15 => { let k = gen_jk(cx); Op::Join(k, gen_ref(cx), gen_ref(cx)) }
        16 => cx.rng.pick(&[Op::SetM, Op::TakeM, Op::GetM]).clone(),
        _ => { let r = gen_ref(cx); Op::Collect(r, gen_mode(cx)) }
    }
}

/// all interleavings of two threads with `a` and `b` steps, after `pre` steps of thread 0
fn interleavings(pre: usize, a: usize, b: usize) -> Vec<Vec<usize>> {
    fn go(a: usize, b: usize, cur: &mut Vec<usize>, out: &mut Vec<Vec<usize>>) {
        if a == 0 && b == 0 { out.push(cur.clone()); return; }
        if a > 0 { cur.push(1); go(a - 1, b, cur, out); cur.pop(); }
        if b > 0 { cur.push(2); go(a, b - 1, cur, out); cur.pop(); }
    }
    let mut out = vec![];
    let mut cur = vec![0; pre];
    go(a, b, &mut cur, &mut out);
    out
}
fn binom(n: usize, k: usize) -> usize {
    let mut r = 1usize;
    for i in 0..k.min(n - k) { r = r * (n - i) / (i + 1); }
    r
}

/// DEPENDENCE of two atomic steps of different threads, from what each critical section reads/writes:
/// insert_node R/W next_id + W nodes; connect W edges; snapshot R nodes + edges; record_metrics_* / get_metrics R
/// metrics; set/take_metrics W metrics; `begin` (harness) R pool; a builder's last step (I, c) W pool (publication).
/// Two steps that are not dependent commute: swapping them when adjacent gives the same final state and the
/// same results (every ordered pair of operations — hence of step kinds — is also run under ALL
/// interleavings in the 1x1 block, where that is observed rather than assumed).
fn dependent(x: u8, y: u8) -> bool {
    let ins = |c: u8| c == b'i' || c == b'I';
    let publ = |c: u8| c == b'I' || c == b'c';
    let met_w = |c: u8| c == b'M' || c == b'K';
    let met = |c: u8| met_w(c) || c == b'm' || c == b'e' || c == b'g';
    (ins(x) && ins(y))
        || (ins(x) && y == b's') || (x == b's' && ins(y))
        || (x == b'c' && y == b'c')
        || (x == b'c' && y == b's') || (x == b's' && y == b'c')
        || (publ(x) && publ(y))
        || (publ(x) && y == b'b') || (x == b'b' && publ(y))
        || (met_w(x) && met(y)) || (met(x) && met_w(y))
}

/// one schedule per Mazurkiewicz trace of two threads whose step kinds are `a` and `b` (sleep-set
/// enumeration: a complete schedule is emitted iff no equivalent one was emitted before), after `pre` steps of thread 0
fn trace_representatives(pre: usize, a: &[u8], b: &[u8]) -> Vec<Vec<usize>> {
    fn go(a: &[u8], b: &[u8], i: usize, j: usize, sleep: [bool; 2], cur: &mut Vec<usize>, out: &mut Vec<Vec<usize>>) {
        if i == a.len() && j == b.len() { out.push(cur.clone()); return; }
        let next = |t: usize| -> Option<u8> { if t == 0 { a.get(i).copied() } else { b.get(j).copied() } };
        let mut done = [false; 2];
        for t in 0..2 {
            let Some(st) = next(t) else { continue };
            if sleep[t] { continue; }
            let mut ns = [false; 2];
            for u in 0..2 {
                if u == t || !(sleep[u] || done[u]) { continue; }
                if let Some(su) = next(u) { if !dependent(st, su) { ns[u] = true; } }
            }
            cur.push(t + 1);
            go(a, b, i + (t == 0) as usize, j + (t == 1) as usize, ns, cur, out);
            cur.pop();
            done[t] = true;
        }
    }
    let mut out = vec![];
    let mut cur = vec![0; pre];
    go(a, b, 0, 0, [false; 2], &mut cur, &mut out);
    out
}

/// all programs of 1..=max operations over `alpha`
fn programs(alpha: &[Op], max: usize) -> Vec<Vec<Op>> {
    let mut out: Vec<Vec<Op>> = vec![];
    let mut layer: Vec<Vec<Op>> = vec![vec![]];
    for _ in 0..max {
        let mut next = vec![];
        for p in &layer { for o in alpha { let mut q = p.clone(); q.push(o.clone()); next.push(q); } }
        out.extend(next.iter().cloned());
        layer = next;
    }
    out
}

fn src(rows: &[(i64, i64)]) -> Op { Op::Source(SrcKind::Vec, rows.to_vec()) }
fn cseq(r: Ref) -> Op { Op::Collect(r, Mode::Seq) }
fn cpar(r: Ref, p: usize) -> Op { Op::Collect(r, Mode::Par(p)) }

/// (1b) the builder matrix: EVERY builder copy, derived from a parent of every node kind, with branching — the
/// parent, the child, a sibling made by the same builder and a grandchild are each collected several times, in both
/// modes, interleaved — one single-threaded history per (builder, parent shape); and every source kind re-collected
fn builder_matrix(cx: &mut Ctx) -> usize {
    let rows = vec![(0i64, 1i64), (1, 2), (0, 4), (1, 5), (2, 8), (2, 3), (0, 6)];
    // (name, ops that build the parent from the source at pool[0]); the parent is the LAST handle they publish
    let kv_parents: Vec<(&str, Vec<Op>)> = vec![
        ("source", vec![]),
        ("stateless", vec![Op::Derive(Ref::Front(0), F::Add(1))]),
        ("value-only stateless", vec![Op::ValOp(Ref::Front(0), VF::Mul(3))]),
        ("per-key barrier", vec![Op::CombV(Ref::Front(0), 1)]),
        ("global barrier", vec![Op::CombG(Ref::Front(0), 2, Some(2), false)]),
        ("join", vec![Op::Derive(Ref::Front(0), F::Rekey(2)), Op::Join(JK::Left, Ref::Front(0), Ref::Front(1))]),
    ];
    let grouped_parents: Vec<(&str, Vec<Op>)> = vec![
        ("group_by_key", vec![Op::Group(Ref::Front(0))]),
        ("stateless over grouped", vec![Op::Group(Ref::Front(0)), Op::Derive(Ref::Back(0), F::Mul(2))]),
    ];
    // builders (two parameterisations each: child and sibling); `None` = needs a (k,v) parent, Some(2) = grouped parent
    let any: Vec<(Op, Op)> = [
        (F::Add(2), F::Add(5)), (F::Drop(2, 0), F::Drop(3, 1)), (F::Flat(1), F::Flat(3)), (F::Batch(2, 1), F::Batch(64, 4)),
        (F::Xform(1), F::Xform(-2)), (F::Tap, F::Tap), (F::Rekey(2), F::Mul(3)),
    ].iter().map(|(a, b)| (Op::Derive(Ref::Back(0), *a), Op::Derive(Ref::Back(1), *b))).collect();
    let kv_only: Vec<(Op, Op)> = vec![
        (Op::ValOp(Ref::Back(0), VF::Mul(3)), Op::ValOp(Ref::Back(1), VF::Mul(-1))),
        (Op::ValOp(Ref::Back(0), VF::Fil(0)), Op::ValOp(Ref::Back(1), VF::Fil(1))),
        (Op::ValOp(Ref::Back(0), VF::Bat(2, 3)), Op::ValOp(Ref::Back(1), VF::Bat(5, -1))),
        (Op::Group(Ref::Back(0)), Op::Group(Ref::Back(1))),
        (Op::CombV(Ref::Back(0), 1), Op::CombV(Ref::Back(1), 4)),
        (Op::CombG(Ref::Back(0), 1, Some(2), false), Op::CombG(Ref::Back(1), 3, None, false)),
        (Op::CombG(Ref::Back(0), 1, Some(2), true), Op::CombG(Ref::Back(1), 3, None, true)),
    ];
    let mut n = 0;
    fn with_ref(op: &Op, r: Ref) -> Op {
        let mut g = op.clone();
        match &mut g { Op::Derive(x, _) | Op::ValOp(x, _) | Op::Group(x) | Op::CombV(x, _) | Op::CombL(x, _) | Op::CombG(x, ..) => *x = r, _ => {} }
        g
    }
    // `pref`: how the builder names the parent (typed builders resolve among the handles of their class)
    let run_one = |cx: &mut Ctx, parent: &[Op], child: &Op, sibling: &Op, pref: Option<Ref>, grand: bool| {
        // pool: 0 source, .., P parent, P+1 child, P+2 sibling, then a grandchild made by the same builder from the child
        let mut p = vec![src(&rows)];
        p.extend(parent.iter().cloned());
        let pi = parent.len();
        let par = Ref::Front(pi);
        p.push(with_ref(child, pref.unwrap_or(par)));
        p.push(with_ref(sibling, pref.unwrap_or(par)));
        let (ch, sib) = (Ref::Front(pi + 1), Ref::Front(pi + 2));
        p.extend([cseq(par), cseq(ch), cpar(sib, 2), cpar(par, 3), cpar(ch, 2), cseq(ch), Op::Collect(par, Mode::Plain)]);
        if grand {
            p.push(with_ref(child, ch));
            p.extend([cseq(Ref::Back(0)), cseq(ch), cpar(Ref::Back(0), 2), cseq(par), Op::Collect(sib, Mode::SeqSorted), Op::Collect(ch, Mode::CkSeq)]);
        }
        p.extend([cseq(Ref::Front(0)), cpar(Ref::Front(0), 2)]);
        let plan = vec![0; prog_steps(&p)];
        one_scheduled(cx, &[p], &plan, "builder-matrix");
    };
    for (_, parent) in &kv_parents {
        let is_join = parent.iter().any(|o| matches!(o, Op::Join(..)));
        for (c, s) in &any { run_one(cx, parent, c, s, None, true); n += 1; }
        if !is_join {
            for (c, s) in &kv_only {
                // every handle so far is (k,v), so positions in the class-0 pool are positions in the pool;
                // Group turns (k,v) into grouped: a second Group of the child does not type-check, the others keep (k,v)
                run_one(cx, parent, c, s, None, !matches!(c, Op::Group(_)));
                n += 1;
            }
        }
    }
    for (_, parent) in &grouped_parents {
        for (c, s) in &any { run_one(cx, parent, c, s, None, true); n += 1; }
        // the parent is the youngest grouped handle, before and after the (k,v) child exists
        run_one(cx, parent, &Op::CombL(Ref::Back(0), 1), &Op::CombL(Ref::Back(0), 3), Some(Ref::Back(0)), false);
        n += 1;
    }
    // the four join kinds over every pair of parent shapes (operands with their own lineages), twice each
    for (_, pa) in &kv_parents {
        for kind in [JK::Inner, JK::Left, JK::Right, JK::Full] {
            if pa.iter().any(|o| matches!(o, Op::Join(..))) { continue; }
            let mut p = vec![src(&rows)];
            p.extend(pa.iter().cloned());
            let a = Ref::Front(p.len() - 1);
            p.push(Op::Derive(Ref::Front(0), F::Rekey(2)));
            let b = Ref::Front(p.len() - 1);
            p.push(Op::Join(kind, a, b));
            let j = Ref::Front(p.len() - 1);
            p.push(Op::Join(kind, b, a));
            let j2 = Ref::Front(p.len() - 1);
            p.extend([cseq(j), cseq(a), cpar(j2, 2), cseq(b), cpar(j, 3), cseq(j2), Op::Derive(j, F::Flat(1)), cseq(Ref::Back(0)), cseq(j)]);
            let plan = vec![0; prog_steps(&p)];
            one_scheduled(cx, &[p], &plan, "builder-matrix");
            n += 1;
        }
    }
    // every source kind: collected twice in each mode, then a child, then the source again (never consumed)
    for kind in [SrcKind::Vec, SrcKind::Custom, SrcKind::Jsonl(2), SrcKind::Jsonl(100), SrcKind::Csv(3), SrcKind::Csv(1)] {
        for rws in [rows.clone(), vec![(1, 1)], vec![]] {
            let p = vec![
                Op::Source(kind, rws.clone()), cseq(Ref::Front(0)), cseq(Ref::Front(0)), cpar(Ref::Front(0), 2), cpar(Ref::Front(0), 3),
                Op::Derive(Ref::Front(0), F::Add(1)), cseq(Ref::Back(0)), cseq(Ref::Front(0)), cpar(Ref::Back(0), 2),
                Op::Source(kind, rws), Op::Join(JK::Full, Ref::Front(0), Ref::Back(0)), cseq(Ref::Back(0)), cpar(Ref::Back(0), 2),
                cseq(Ref::Front(0)), Op::Collect(Ref::Front(0), Mode::Threads(2)), Op::Collect(Ref::Front(0), Mode::CkPar(2)),
            ];
            let plan = vec![0; prog_steps(&p)];
            one_scheduled(cx, &[p], &plan, "builder-matrix");
            n += 1;
        }
    }
    n
}

fn sibling_cases(cx: &mut Ctx) {
    let rows: Vec<(i64, i64)> = vec![(0, 1), (1, 2), (0, 3), (1, 4), (2, 5), (2, 6), (0, 8)];
    for shape in 0..4usize {
        for par in [None, Some(2usize), Some(3)] {
            // lineage: src -> [value-only run, the handle `mid` somewhere inside it] -> `kept`
            let build = |p: &Pipeline| -> (PCollection<(i64, i64)>, PCollection<(i64, i64)>) {
                let s = from_vec(p, rows.clone());
                match shape {
                    0 => { let mid = s.map_values(|v: &i64| v + 1); let kept = mid.clone().filter_values(|v: &i64| v % 2 == 0); (mid, kept) }
                    1 => { let mid = s.map_values(|v: &i64| v * 3).map_values(|v: &i64| v + 1); let kept = mid.clone().filter_values(|v: &i64| v % 2 == 0).map_values(|v: &i64| v - 7); (mid, kept) }
                    2 => { let mid = s.filter_values(|v: &i64| *v != 4).map_values(|v: &i64| v + 1); let kept = mid.clone().map_values_batches(2, |c: &[i64]| c.iter().map(|v| v * 2).collect()).filter_values(|v: &i64| v % 4 == 0); (mid, kept) }
                    _ => { let mid = s.map_values(|v: &i64| v + 1); let kept = mid.clone().filter_values(|v: &i64| v % 2 == 0).group_by_key().map_values(|vs: &Vec<i64>| vs.iter().sum::<i64>()); (mid, kept) }
                }
            };
            let run = |c: PCollection<(i64, i64)>| -> Result<Vec<(i64, i64)>, String> {
                let r = match par { None => c.collect_seq(), Some(n) => c.collect_par(Some(2), Some(n)) };
                r.map(|mut v| { if shape == 3 { v.sort(); } v }).map_err(|e| format!("{e}"))
            };
            let r = guarded(|| {
                let p = Pipeline::default();
                let (mid, kept) = build(&p);
                let before = run(kept.clone());
                let sib = mid.map_values(|v: &i64| v * 100);
                let after = run(kept.clone());
                let sib_out = run(sib);
                let again = run(kept);
                let fresh = { let q = Pipeline::default(); let (_m, k) = build(&q); run(k) };
                (before, after, again, fresh, sib_out)
            });
            let i = cx.case(format!("ORACLE-ONLY sibling-on-intermediate shape={shape} par={par:?}"), "-".into(), true);
            cx.count("sibling:on-intermediate-of-value-only-run");
            match r {
                Err(m) => cx.oracle_fail(i, "sibling-case-panics", m),
                Ok((before, after, again, fresh, _)) => {
                    if before != after || after != again {
                        cx.oracle_fail(i, "collect-changes-when-a-sibling-branch-is-added", format!("before {before:?} after {after:?} again {again:?}"));
                    } else if before != fresh {
                        cx.oracle_fail(i, "collect-differs-from-the-same-lineage-without-sibling", format!("with sibling history {before:?}, fresh pipeline {fresh:?}"));
                    }
                }
            }
        }
    }
}

pub fn run(cx: &mut Ctx) {
    ABORT.store(false, Ordering::SeqCst);
    ironbeam::verif_hooks::set_yield_callback(Some(Arc::new(|site| yield_here(site))));
    let deep = cx.tier != Tier::Quick;
    let timing = std::env::var("IBH_C08_TIMING").is_ok();
    let t_all = Instant::now();
    let mut t_blk = Instant::now();
    let mut lap = |name: &str, cx: &Ctx| {
        if timing { eprintln!("[c08 timing] {name}: {:.2}s ({} cases so far)", t_blk.elapsed().as_secs_f64(), cx.reqs.len()); }
        t_blk = Instant::now();
    };
    let base = vec![(0i64, 1i64), (1, 2), (0, 3), (1, 4), (2, 5), (2, 6)];
    // pool after the prefix: 0 = source (k,v) with keys 0,1,2 (two rows each), 1 = map of it that re-keys into {0,1}
    // (so key 2 is unmatched, twice, in every join of the two), 2 = group_by_key of the source (k,Vec v)
    let prefix = vec![src(&base), Op::Derive(Ref::Front(0), F::Rekey(2)), Op::Group(Ref::Front(0))];
    let pre_steps = prog_steps(&prefix);

    // (0) round 6 — a SIBLING hung on an intermediate of a value-only run must not change what a descendant returns.
    // The steps here deliberately do NOT commute (the planner's value-only reorder, a recorded finding of C02/C03, may
    // act on them): the oracle compares the collection with ITSELF before and after the sibling is added, and with the
    // same lineage on a fresh pipeline that never gets a sibling — never with the steps-as-written reference. A plan
    // that depends on whether an ancestor has a second consumer (fusion stopping at shared nodes) changes the answer.
    sibling_cases(cx);

    // (1) corpus / design witnesses: sequential re-collection, ancestors after descendants, siblings
    {
        let p0 = vec![
            src(&base), Op::Derive(Ref::Front(0), F::Mul(2)), cseq(Ref::Front(0)),
            Op::Derive(Ref::Front(0), F::Drop(2, 0)), cpar(Ref::Front(0), 2), cseq(Ref::Front(1)),
            Op::Join(JK::Inner, Ref::Front(1), Ref::Front(2)), cseq(Ref::Back(0)), cseq(Ref::Front(0)),
            cpar(Ref::Back(0), 3), Op::Source(SrcKind::Vec, vec![(0, 9)]), cseq(Ref::Front(2)),
        ];
        let plan = vec![0; prog_steps(&p0)];
        one_scheduled(cx, &[p0], &plan, "corpus");
        // a collect of the parent racing with a sibling's insert/connect, strictly alternating
        let a = vec![Op::Derive(Ref::Front(0), F::Mul(3)), cseq(Ref::Mine(0))];
        let b = vec![cseq(Ref::Front(0)), cpar(Ref::Front(1), 2)];
        let mut plan = vec![0; pre_steps];
        for _ in 0..8 { plan.push(1); plan.push(2); }
        one_scheduled(cx, &[prefix.clone(), a, b], &plan, "corpus");
        // empty source, join with itself
        let p1 = vec![Op::Source(SrcKind::Vec, vec![]), Op::Join(JK::Inner, Ref::Front(0), Ref::Front(0)), cseq(Ref::Back(0)), cseq(Ref::Front(0))];
        let plan = vec![0; prog_steps(&p1)];
        one_scheduled(cx, &[p1], &plan, "corpus");
        // barriers in the middle of lineages: sibling per-key / global / lifted combines of one source, each
        // collected in both modes, interleaved with collects of the ancestors; the four join kinds over
        // lineages that contain barriers; everything collected twice
        let p2 = vec![
            src(&[(0, 1), (1, 2), (0, 3), (2, 5)]), Op::CombV(Ref::Front(0), 1), Op::CombV(Ref::Front(0), 2),
            cseq(Ref::Front(1)), cpar(Ref::Front(2), 2), cpar(Ref::Front(1), 3),
            Op::Group(Ref::Front(0)), Op::CombL(Ref::Back(0), 5), cseq(Ref::Back(0)), cpar(Ref::Back(1), 2),
            Op::CombG(Ref::Front(1), 7, Some(2), false), cpar(Ref::Back(0), 4), cseq(Ref::Front(2)),
            Op::Derive(Ref::Back(0), F::Mul(3)), Op::Source(SrcKind::Vec, vec![(1, 10), (3, 30)]),
            Op::Join(JK::Left, Ref::Front(1), Ref::Back(0)), Op::Join(JK::Right, Ref::Front(2), Ref::Back(0)),
            Op::Join(JK::Full, Ref::Back(1), Ref::Back(0)), Op::Join(JK::Inner, Ref::Front(1), Ref::Front(2)),
            cseq(Ref::Back(0)), cpar(Ref::Back(1), 2), cseq(Ref::Back(2)), cpar(Ref::Back(3), 3),
            Op::Derive(Ref::Back(1), F::Rekey(2)), cseq(Ref::Back(0)), cseq(Ref::Back(2)),
            cseq(Ref::Front(1)), cpar(Ref::Front(0), 2),
        ];
        let plan = vec![0; prog_steps(&p2)];
        one_scheduled(cx, &[p2], &plan, "corpus");
        // joins whose operands' lineages contain group_by_key + lifted combine / a global combine (the captured
        // sub-chains run without the planner's lifting pass), in both modes, twice
        let p2 = vec![
            src(&[(0, 1), (1, 2), (0, 3), (2, 5)]), Op::Group(Ref::Front(0)), Op::CombL(Ref::Back(0), 1),
            Op::CombG(Ref::Front(0), 2, Some(2), true), Op::Derive(Ref::Front(1), F::Rekey(1)), Op::CombL(Ref::Back(0), 4),
            Op::Join(JK::Left, Ref::Front(1), Ref::Front(2)), Op::Join(JK::Full, Ref::Front(2), Ref::Back(0)),
            Op::Join(JK::Right, Ref::Back(0), Ref::Front(1)), Op::Join(JK::Inner, Ref::Front(0), Ref::Front(1)),
            cseq(Ref::Back(0)), cpar(Ref::Back(1), 2), cseq(Ref::Back(2)), cpar(Ref::Back(3), 3),
            cseq(Ref::Back(3)), cpar(Ref::Back(2), 2), cseq(Ref::Back(4)), cpar(Ref::Back(4), 2),
            cseq(Ref::Front(2)), cseq(Ref::Front(3)), cpar(Ref::Front(2), 2),
        ];
        let plan = vec![0; prog_steps(&p2)];
        one_scheduled(cx, &[p2], &plan, "corpus");
        // the four join kinds with repeated unmatched keys on both sides, each collected in both modes
        let p3 = vec![
            src(&[(0, 1), (0, 2), (1, 3), (1, 4), (2, 5)]), src(&[(1, 10), (1, 11), (3, 30), (3, 31), (2, 20)]),
            Op::Join(JK::Inner, Ref::Front(0), Ref::Front(1)), Op::Join(JK::Left, Ref::Front(0), Ref::Front(1)),
            Op::Join(JK::Right, Ref::Front(0), Ref::Front(1)), Op::Join(JK::Full, Ref::Front(0), Ref::Front(1)),
            cseq(Ref::Front(2)), cseq(Ref::Front(3)), cseq(Ref::Front(4)), cseq(Ref::Front(5)),
            cpar(Ref::Front(2), 2), cpar(Ref::Front(3), 3), cpar(Ref::Front(4), 2), cpar(Ref::Front(5), 4),
            Op::Derive(Ref::Front(4), F::Add(1)), Op::Derive(Ref::Front(5), F::Drop(2, 0)), cseq(Ref::Back(0)), cseq(Ref::Back(1)),
        ];
        let plan = vec![0; prog_steps(&p3)];
        one_scheduled(cx, &[p3], &plan, "corpus");
        // value-only chains (the planner's reorder pass applies to a direct collect, not inside a join), collected
        // directly, through a join, and again directly
        let p4 = vec![
            src(&[(0, 1), (1, 2), (0, 3), (2, 6), (1, 7)]), Op::ValOp(Ref::Front(0), VF::Mul(3)), Op::ValOp(Ref::Back(0), VF::Fil(1)),
            Op::ValOp(Ref::Back(0), VF::Bat(2, -1)), cseq(Ref::Back(0)), cpar(Ref::Back(0), 2), cseq(Ref::Front(1)), cseq(Ref::Front(2)),
            Op::Join(JK::Inner, Ref::Front(0), Ref::Back(0)), cseq(Ref::Back(0)), cpar(Ref::Back(0), 2), cseq(Ref::Front(3)),
            Op::Derive(Ref::Front(3), F::Add(1)), Op::ValOp(Ref::Back(0), VF::Fil(0)), cseq(Ref::Back(0)), cseq(Ref::Front(3)), cseq(Ref::Front(0)),
        ];
        let plan = vec![0; prog_steps(&p4)];
        one_scheduled(cx, &[p4], &plan, "corpus");
        // set/take/get_metrics racing a collect, strictly alternating, then the other way round
        let a = vec![Op::SetM, cseq(Ref::Front(1)), Op::GetM, Op::TakeM, Op::TakeM];
        let b = vec![cpar(Ref::Front(0), 2), Op::SetM, Op::GetM, cseq(Ref::Front(2))];
        for first in [1usize, 2] {
            let mut plan = vec![0; pre_steps];
            for _ in 0..14 { plan.push(first); plan.push(3 - first); }
            one_scheduled(cx, &[prefix.clone(), a.clone(), b.clone()], &plan, "corpus");
        }
    }
    lap("corpus", cx);

    // (1b) every builder copy x every parent node kind, with branching and re-collection
    let n_matrix = builder_matrix(cx);
    cx.exhaustive_blocks.push(format!(
        "builder matrix: {n_matrix} single-threaded histories — each of the 14 derive builders (map, filter, flat_map, map_batches, apply_transform, debug_inspect_with, map_values, filter_values, map_values_batches, group_by_key, combine_values, combine_values_lifted, combine_globally, combine_globally_lifted) from a parent of every node kind (source, stateless, value-only stateless, per-key barrier, global barrier, join result, grouped) with a sibling and a grandchild through the same builder; the 4 join kinds over every pair of parent shapes; the 4 source kinds (from_vec, from_custom_source, read_jsonl_streaming, read_csv_streaming) with 0, 1 and 7 rows; every handle collected at least twice, parents after their children, in several modes"));
    lap("builder matrix", cx);

    // (2a) exhaustive small scope: for every ordered pair of single operations from the alphabet (thread 1
    //      runs the first, thread 2 the second, after the 3-operation prefix), ALL interleavings of their
    //      lock steps (no reduction).
    let mut alpha: Vec<Op> = vec![
        Op::Source(SrcKind::Vec, vec![(0, 7), (1, 8)]),
        Op::Source(SrcKind::Custom, vec![(1, 7), (1, 9)]),
        Op::Derive(Ref::Front(0), F::Mul(2)),
        Op::Derive(Ref::Back(0), F::Xform(1)),
        Op::ValOp(Ref::Back(0), VF::Bat(2, 3)),
        Op::Group(Ref::Front(1)),
        Op::CombV(Ref::Front(0), 1),
        Op::CombL(Ref::Back(0), 2),
        Op::CombG(Ref::Back(1), 3, Some(2), false),
        Op::Join(JK::Inner, Ref::Front(0), Ref::Back(0)),
        cseq(Ref::Front(0)),
        cpar(Ref::Back(0), 2),
        Op::SetM,
        Op::TakeM,
        Op::GetM,
    ];
    if deep {
        alpha.extend([
            Op::Join(JK::Full, Ref::Back(0), Ref::Front(0)),
            Op::Join(JK::Left, Ref::Front(1), Ref::Back(0)),
            Op::Source(SrcKind::Jsonl(1), vec![(0, 1), (1, 1)]),
            Op::Derive(Ref::Back(0), F::Flat(1)),
            Op::Derive(Ref::Back(1), F::Tap),
            Op::ValOp(Ref::Back(0), VF::Fil(0)),
            Op::CombG(Ref::Front(0), 1, None, true),
            Op::Collect(Ref::Front(1), Mode::CkSeq),
        ]);
    }
    let mut n_sched = 0usize;
    for a in &alpha {
        for b in &alpha {
            for plan in interleavings(pre_steps, op_steps(a), op_steps(b)) {
                one_scheduled(cx, &[prefix.clone(), vec![a.clone()], vec![b.clone()]], &plan, "exhaustive-1x1");
                n_sched += 1;
            }
        }
    }
    cx.exhaustive_blocks.push(format!(
        "2 worker threads x 1 operation each: all {} ordered pairs over a {}-operation alphabet ({}) after a 3-operation prefix (source, map, group_by_key), ALL interleavings of their lock-granular steps ({n_sched} schedules)",
        alpha.len() * alpha.len(), alpha.len(), alpha.iter().map(enc_op).collect::<Vec<_>>().join(" ")));
    lap("2a", cx);

    // (2b) 2 worker threads x up to 3 operations each (quick tier: up to 2): for EVERY ordered pair of programs
    //      over a per-thread alphabet, one schedule of EVERY Mazurkiewicz trace (every interleaving is
    //      equivalent, by swapping adjacent independent steps — see `dependent` — to exactly one of them).
    let max_ops = if deep { 3 } else { 2 };
    let configs: Vec<(&str, Vec<Op>, Vec<Op>, usize)> = vec![
        ("sibling barrier vs chain", vec![Op::CombV(Ref::Front(0), 1), cseq(Ref::Mine(0))],
            vec![Op::Derive(Ref::Mine(0), F::Add(2)), cpar(Ref::Mine(0), 2)], max_ops),
        ("group vs global combine", vec![Op::Group(Ref::Front(0)), cseq(Ref::Back(0))],
            vec![Op::CombG(Ref::Front(1), 2, Some(2), false), cseq(Ref::Front(0))], max_ops),
        ("lifted combine vs per-key combine", vec![Op::CombL(Ref::Front(0), 1), cpar(Ref::Mine(0), 3)],
            vec![Op::CombV(Ref::Back(0), 2), cseq(Ref::Back(0))], 2),
        ("metrics vs collect", vec![Op::SetM, Op::TakeM, Op::GetM],
            vec![cpar(Ref::Front(0), 2), Op::TakeM], max_ops),
        ("value-only / batch builders vs collects", vec![Op::ValOp(Ref::Front(0), VF::Mul(3)), Op::Collect(Ref::Mine(0), Mode::Plain)],
            vec![Op::Derive(Ref::Mine(0), F::Batch(2, 1)), Op::ValOp(Ref::Back(0), VF::Fil(0)), cpar(Ref::Back(0), 2)], 2),
        ("join vs join", vec![Op::Join(JK::Left, Ref::Front(0), Ref::Mine(0)), cseq(Ref::Mine(0))],
            vec![Op::Join(JK::Full, Ref::Mine(0), Ref::Front(1)), cseq(Ref::Back(0))], if deep { 2 } else { 1 }),
        ("join over barriers vs chain", vec![Op::Join(JK::Right, Ref::Front(1), Ref::Front(0)), Op::CombV(Ref::Front(1), 1), cseq(Ref::Mine(0))],
            vec![Op::Derive(Ref::Mine(0), F::Mul(2)), cseq(Ref::Back(0))], if deep { 2 } else { 1 }),
    ];
    for (name, al1, al2, max) in &configs {
        let (p1s, p2s) = (programs(al1, *max), programs(al2, *max));
        let (mut n_tr, mut n_full) = (0usize, 0u128);
        for p1 in &p1s {
            for p2 in &p2s {
                let (k1, k2) = (prog_kinds(p1), prog_kinds(p2));
                n_full += binom(k1.len() + k2.len(), k1.len()) as u128;
                for plan in trace_representatives(pre_steps, &k1, &k2) {
                    one_scheduled(cx, &[prefix.clone(), p1.clone(), p2.clone()], &plan, "exhaustive-2xN");
                    n_tr += 1;
                }
            }
        }
        cx.exhaustive_blocks.push(format!(
            "2 worker threads x 1..{max} operations each ({name}): thread 1 over {{{}}}, thread 2 over {{{}}}, all {} ordered pairs of programs, one schedule per Mazurkiewicz trace = every interleaving up to swaps of independent steps ({n_tr} schedules standing for {n_full} interleavings)",
            al1.iter().map(enc_op).collect::<Vec<_>>().join(" "), al2.iter().map(enc_op).collect::<Vec<_>>().join(" "), p1s.len() * p2s.len()));
    }
    lap("2b", cx);

    // (2c) selected multi-operation pairs, all interleavings (up to a cap), no reduction
    let multi: Vec<(Vec<Op>, Vec<Op>)> = vec![
        (vec![Op::Derive(Ref::Front(0), F::Mul(2)), cseq(Ref::Mine(0))], vec![Op::Derive(Ref::Back(0), F::Add(5))]),
        (vec![Op::Derive(Ref::Front(0), F::Mul(2)), cseq(Ref::Front(0))], vec![cpar(Ref::Front(0), 2)]),
        (vec![Op::Join(JK::Inner, Ref::Front(0), Ref::Front(1)), cseq(Ref::Mine(0))], vec![Op::Derive(Ref::Front(1), F::Rekey(2))]),
        (vec![Op::Source(SrcKind::Custom, vec![(1, 1)]), cseq(Ref::Back(0))], vec![Op::Derive(Ref::Back(0), F::Drop(2, 1)), cseq(Ref::Mine(0))]),
        (vec![Op::Derive(Ref::Front(0), F::Add(2)), Op::Derive(Ref::Mine(0), F::Mul(3)), cseq(Ref::Mine(1))], vec![cseq(Ref::Back(0))]),
        (vec![Op::Join(JK::Left, Ref::Front(0), Ref::Back(0))], vec![Op::Join(JK::Right, Ref::Back(0), Ref::Front(0))]),
        (vec![Op::CombV(Ref::Front(0), 2), cseq(Ref::Mine(0))], vec![Op::CombG(Ref::Front(0), 3, None, true), cseq(Ref::Mine(0))]),
        // a join built over operands that are being built by the other thread, then COLLECTED (both copies of the back-walk)
        (vec![Op::Derive(Ref::Front(0), F::Flat(2)), Op::Join(JK::Inner, Ref::Front(0), Ref::Back(0)), cseq(Ref::Mine(0))],
         vec![Op::ValOp(Ref::Front(1), VF::Mul(3)), cseq(Ref::Back(0))]),
        (vec![Op::Derive(Ref::Front(0), F::Mul(2)), Op::CombV(Ref::Mine(0), 1), cseq(Ref::Mine(0))],
         vec![Op::Derive(Ref::Back(0), F::Add(3)), Op::Join(JK::Full, Ref::Front(0), Ref::Mine(0)), cseq(Ref::Mine(0))]),
    ];
    let cap = cx.budget(400, 4000);
    let mut n_multi = 0usize;
    let mut capped = 0usize;
    for (a, b) in &multi {
        let t_pair = Instant::now();
        let (sa, sb) = (prog_steps(a), prog_steps(b));
        let total = binom(sa + sb, sa);
        if total <= cap {
            for plan in interleavings(pre_steps, sa, sb) {
                one_scheduled(cx, &[prefix.clone(), a.clone(), b.clone()], &plan, "exhaustive-multi");
                n_multi += 1;
            }
        } else {
            capped += 1;
            for _ in 0..cap {
                let mut plan = vec![0; pre_steps];
                let (mut ra, mut rb) = (sa, sb);
                while ra + rb > 0 {
                    if cx.rng.below(ra + rb) < ra { plan.push(1); ra -= 1; } else { plan.push(2); rb -= 1; }
                }
                one_scheduled(cx, &[prefix.clone(), a.clone(), b.clone()], &plan, "sampled-multi");
            }
        }
        if timing { eprintln!("[c08 timing]   2c pair {} || {}: {:.2}s", enc_prog(a), enc_prog(b), t_pair.elapsed().as_secs_f64()); }
    }
    cx.exhaustive_blocks.push(format!(
        "{} hand-picked pairs of 1-3-operation programs: ALL interleavings where there are at most {cap} ({n_multi} schedules); {capped} larger pairs sampled uniformly ({cap} schedules each)",
        multi.len()));
    lap("2c", cx);

    // (2d) FINE: two collects whose EXECUTIONS are interleaved node by node (the scheduler also stops at the stage
    //      boundaries of exec_seq / exec_par): all interleavings of the two operations' lock + stage steps
    let fprefix = vec![src(&base), Op::Derive(Ref::Front(0), F::Rekey(2)), Op::CombV(Ref::Front(0), 1), Op::Join(JK::Inner, Ref::Front(0), Ref::Front(1))];
    let fpre = prog_steps(&fprefix);
    let mut fpairs: Vec<(Op, Op)> = vec![(cseq(Ref::Front(1)), cpar(Ref::Front(1), 2))];
    if deep {
        fpairs.extend([
            (cseq(Ref::Front(3)), cseq(Ref::Front(2))), (cpar(Ref::Front(3), 2), cseq(Ref::Front(1))),
            (cseq(Ref::Front(2)), cpar(Ref::Front(2), 3)), (cpar(Ref::Front(1), 2), cpar(Ref::Front(1), 3)),
            (cseq(Ref::Front(0)), Op::Collect(Ref::Front(0), Mode::Plain)),
        ]);
    }
    let mut n_fine = 0usize;
    for (a, b) in &fpairs {
        // how many steps (lock + stage) each collect takes: measured by a solo run
        let measure = |op: &Op| -> Option<usize> {
            let plan = vec![0; fpre];
            let r = run_confirmed(&[], &[fprefix.clone(), vec![op.clone()]], Some(&plan), true).ok()?;
            Some(r.trace.as_ref()?.iter().filter(|s| s.tid == 1).count())
        };
        let (Some(sa), Some(sb)) = (measure(a), measure(b)) else { continue };
        for plan in interleavings(fpre, sa, sb) {
            one_sched(cx, &[fprefix.clone(), vec![a.clone()], vec![b.clone()]], &plan, "exhaustive-fine", true);
            n_fine += 1;
        }
    }
    cx.exhaustive_blocks.push(format!(
        "FINE: {} pairs of collects ({}) after a 4-operation prefix (source, map, combine_values, join): ALL interleavings of their lock steps AND the stage boundaries of their executions ({n_fine} schedules; two runs interleaved node by node)",
        fpairs.len(), fpairs.iter().map(|(a, b)| format!("{} || {}", enc_op(a), enc_op(b))).collect::<Vec<_>>().join(", ")));
    lap("2d fine", cx);

    // (3) random: 2..4 worker threads x <= 6 operations, random schedules with varying burstiness
    let rounds = cx.budget(300, 8000);
    for _ in 0..rounds {
        let workers = 2 + cx.rng.below(3);
        let mut progs = vec![];
        let mut pre = vec![gen_src(cx)];
        if cx.rng.chance(1, 3) { pre.push(Op::SetM); }
        for _ in 0..cx.rng.below(3) { pre.push(gen_op(cx)); }
        progs.push(pre);
        for _ in 0..workers {
            let len = 1 + cx.rng.below(6);
            progs.push((0..len).map(|_| gen_op(cx)).collect::<Vec<_>>());
        }
        let mut remaining: Vec<usize> = progs.iter().map(|p| prog_steps(p)).collect();
        let mut plan = vec![];
        let interleave_prefix = cx.rng.chance(1, 5);
        if !interleave_prefix { plan.extend(std::iter::repeat(0).take(remaining[0])); remaining[0] = 0; }
        let stick = cx.rng.below(4); // 0 = switch at every step with high probability … 3 = long bursts
        let mut cur = 1;
        while remaining.iter().sum::<usize>() > 0 {
            if remaining[cur % progs.len()] == 0 || cx.rng.below(stick + 1) == 0 {
                let live: Vec<usize> = (0..progs.len()).filter(|t| remaining[*t] > 0).collect();
                cur = *cx.rng.pick(&live);
            }
            let t = cur % progs.len();
            plan.push(t);
            remaining[t] -= 1;
        }
        one_scheduled(cx, &progs, &plan, "random");
    }
    lap("3 random", cx);

    // (3f) random FINE: 2..3 workers that mostly collect, the schedule also switches at stage boundaries
    let rounds = cx.budget(150, 3000);
    for _ in 0..rounds {
        let workers = 2 + cx.rng.below(2);
        let mut pre = vec![gen_src(cx)];
        for _ in 0..(2 + cx.rng.below(4)) {
            let mut o = gen_op(cx);
            while matches!(o, Op::Collect(..)) { o = gen_op(cx); }
            pre.push(o);
        }
        let mut progs = vec![pre];
        for _ in 0..workers {
            let len = 1 + cx.rng.below(3);
            progs.push((0..len).map(|_| if cx.rng.chance(7, 10) { let r = gen_ref(cx); Op::Collect(r, gen_mode(cx)) } else { gen_op(cx) }).collect::<Vec<_>>());
        }
        let mut plan = vec![0; prog_steps(&progs[0])];
        let stick = cx.rng.below(3);
        let mut cur = 1;
        for _ in 0..120 {
            if cx.rng.below(stick + 1) == 0 { cur = 1 + cx.rng.below(workers); }
            plan.push(cur);
        }
        one_sched(cx, &progs, &plan, "random-fine", true);
    }
    lap("3f random fine", cx);

    // (4) free-running: no scheduler, real concurrency (what the cooperative runs cannot show: a critical
    //     section that was split in two). Many short builders racing, then collects.
    ironbeam::verif_hooks::set_yield_callback(None);
    let rounds = cx.budget(40, 1200);
    for r in 0..rounds {
        let workers = 2 + cx.rng.below(3);
        let mut progs = vec![];
        for _ in 0..workers {
            let mut p = vec![gen_src(cx)];
            let len = if r % 3 == 0 { 40 } else { 6 + cx.rng.below(10) };
            for _ in 0..len {
                p.push(match cx.rng.below(18) {
                    0 | 1 => gen_src(cx),
                    2..=5 => Op::Derive(gen_ref(cx), gen_f(cx)),
                    6 => Op::ValOp(gen_ref(cx), gen_vf(cx)),
                    7 => Op::Group(gen_ref(cx)),
                    8 => Op::CombV(gen_ref(cx), cx.rng.range(-1, 1)),
                    9 => Op::CombL(gen_ref(cx), cx.rng.range(-1, 1)),
                    10 => { let r = gen_ref(cx); Op::CombG(r, 1, *cx.rng.pick(&[None, Some(2)]), cx.rng.chance(1, 2)) }
                    11 | 12 => { let k = gen_jk(cx); Op::Join(k, gen_ref(cx), gen_ref(cx)) }
                    13 => cx.rng.pick(&[Op::SetM, Op::TakeM, Op::GetM]).clone(),
                    _ => { let r = gen_ref(cx); Op::Collect(r, gen_mode(cx)) }
                });
            }
            progs.push(p);
        }
        one_free(cx, &[], &progs, "free-running");
    }
    lap("4 free-running", cx);

    // (4b) OVERLAPPING EXECUTIONS: a graph built by one thread over sources of 10^4 rows, then 4 threads behind a
    //      start barrier that only collect — the same and sibling handles, sequentially and in parallel — so that
    //      many executions (incl. parallel ones on the shared rayon pool) are in flight at the same time
    let rounds = cx.budget(12, 80);
    for _ in 0..rounds {
        let n_big = if deep { *cx.rng.pick(&[10_000usize, 30_000, 100_000]) } else { 12_000 };
        let off = cx.rng.range(0, 5);
        let big: Vec<KV> = (0..n_big as i64).map(|i| (i % 7, i + off)).collect();
        let mid: Vec<KV> = (0..4000i64).map(|i| (i % 5, 2 * i + off)).collect();
        let pre = vec![
            Op::Source(SrcKind::Vec, big), Op::Source(SrcKind::Custom, mid.clone()), Op::Source(SrcKind::Jsonl(700), mid),
            Op::Derive(Ref::Front(0), F::Add(1)), Op::Derive(Ref::Front(0), F::Drop(3, 0)), Op::Derive(Ref::Front(3), F::Flat(2)),
            Op::Derive(Ref::Front(0), F::Batch(64, 2)), Op::ValOp(Ref::Front(0), VF::Mul(3)), Op::ValOp(Ref::Front(7), VF::Fil(0)),
            Op::CombV(Ref::Front(0), 1), Op::CombG(Ref::Front(4), 1, Some(2), false), Op::Derive(Ref::Front(1), F::Xform(1)),
            Op::Join(JK::Inner, Ref::Front(9), Ref::Front(10)), Op::Group(Ref::Front(2)), Op::CombL(Ref::Back(0), 2),
        ];
        let mut progs = vec![];
        for _ in 0..4 {
            progs.push((0..6).map(|_| {
                let h = Ref::Front(cx.rng.below(pre.len()));
                let m = match cx.rng.below(8) { 0 | 1 => Mode::Seq, 2 => Mode::Plain, 3 => Mode::ParSorted(4), _ => Mode::Par(2 + cx.rng.below(7)) };
                Op::Collect(h, m)
            }).collect::<Vec<_>>());
        }
        one_free(cx, &pre, &progs, "overlapping-collects");
    }
    lap("4b overlapping collects", cx);

    let stalls = STALLS.load(Ordering::SeqCst);
    let unconf = UNCONFIRMED_HANGS.load(Ordering::SeqCst);
    if stalls > 0 { cx.notes.push(format!("{stalls} scheduler steps / free-running histories took longer than the first limit and completed within the grace period (machine stall; judged normally)")); }
    if unconf > 0 { cx.notes.push(format!("{unconf} histories did not come back within the first limits and completed when re-executed from scratch (machine stall, NOT reported as a hang)")); }
    if ABORT.load(Ordering::SeqCst) { cx.notes.push("a history hung twice (see the oracle failure `hang`); the remaining blocks were not generated".into()); }
    cx.notes.push("free-running cases are truly concurrent: their request lines (the snapshot) depend on the OS schedule, their verdicts do not; an oracle failure of such a case carries its programs in the detail".into());
    cx.notes.push("block 2b relies on the stated dependence relation between lock sites (which fields a critical section reads/writes); blocks 2a/2c/2d/3 do not".into());
    cx.notes.push("how often a collect calls a user function is compared with the model (field U=) only; the oracle demands no call during build steps and the lineage's value".into());
    if timing { eprintln!("[c08 timing] total {:.2}s", t_all.elapsed().as_secs_f64()); }
    let _ = std::fs::remove_dir_all(scratch());
}
