//! C08 — collections are lazy, immutable and re-runnable; branches do not interfere.
//!
//! Real side: 1..5 REAL OS threads share one `Pipeline` and execute small programs (new source / derive /
//! join / collect). A cooperative scheduler (installed through `verif_hooks::set_yield_callback`; every
//! `Pipeline` method yields right before taking the lock, and every operation yields once at its `begin`)
//! lets exactly one thread run from one yield point to the next, following a *schedule* (list of thread
//! ids). So an interleaving at lock granularity is replayable and can be ENUMERATED.
//!
//! Request  `GRAPH <n> <prog_0> … <prog_{n-1}> <schedule>`  (see lean/IbModel/Driver/D08.lean for the syntax)
//! Answer   `n=<#nodes> N=<id>:<kind>,… E=<from>-<to>,… T=<per step: thread, lock site, #nodes.#edges after it> t0=<outcomes> …`
//!          from the real `snapshot()`, the real lock-site trace, the real node ids and the real collect results.
//! The Lean model replays the same linearisation; the answers must be byte-identical.
//!
//! Request  `GINV <#nodes> <ids> <edges>`: a snapshot of the real graph after a FREE-RUNNING (no scheduler,
//! truly concurrent) build; the model evaluates its graph invariant on it, the harness its own.
//!
//! Oracle (independent of the model, of snapshots, ids and the back-walk): every handle carries its
//! creation-time lineage as a plain Rust expression tree (`Lin`); every collect must equal `eval(lin)`;
//! every user closure has its own call counter whose final value must equal the number of rows the
//! lineage evaluations of the collects that contain it feed to it (so: 0 calls from building; no calls
//! from collects of other branches); node ids pairwise distinct, none lost; edges old→young, in-degree ≤ 1.

use crate::ctx::{Ctx, guarded};
use ironbeam::node::Node;
use ironbeam::{PCollection, Pipeline, from_vec};
use std::cell::RefCell;
use std::sync::atomic::{AtomicU64, Ordering};
use std::sync::{Arc, Condvar, Mutex};
use std::time::Duration;

// ---------------------------------------------------------------------------------------------
// programs

#[derive(Clone, Copy, Debug, PartialEq)]
enum Ref { Front(usize), Back(usize), Mine(usize) }

#[derive(Clone, Copy, Debug, PartialEq)]
enum F { Add(i64), Mul(i64), Rekey(i64), Drop(i64, i64) }

#[derive(Clone, Debug, PartialEq)]
enum Op {
    Source(Vec<(i64, i64)>),
    Derive(Ref, F),
    Join(Ref, Ref),
    Collect(Ref, Option<usize>), // None = collect_seq, Some(p) = collect_par(None, Some(p))
}

fn enc_ref(r: Ref) -> String {
    match r { Ref::Front(k) => format!("f{k}"), Ref::Back(k) => format!("b{k}"), Ref::Mine(k) => format!("m{k}") }
}
fn enc_f(f: F) -> String {
    match f {
        F::Add(n) => format!("a{n}"), F::Mul(n) => format!("m{n}"),
        F::Rekey(m) => format!("k{m}"), F::Drop(m, r) => format!("f{m}.{r}"),
    }
}
fn enc_op(op: &Op) -> String {
    match op {
        Op::Source(rows) => format!("S{}", rows.iter().map(|(k, v)| format!("{k}.{v}")).collect::<Vec<_>>().join("_")),
        Op::Derive(r, f) => format!("D{}/{}", enc_ref(*r), enc_f(*f)),
        Op::Join(l, r) => format!("J{}/{}", enc_ref(*l), enc_ref(*r)),
        Op::Collect(r, None) => format!("C{}/s", enc_ref(*r)),
        Op::Collect(r, Some(p)) => format!("C{}/p{p}", enc_ref(*r)),
    }
}
fn enc_prog(p: &[Op]) -> String {
    if p.is_empty() { "-".into() } else { p.iter().map(enc_op).collect::<Vec<_>>().join(";") }
}
/// atomic steps of an operation when its handles resolve (begin + lock sites)
fn op_steps(op: &Op) -> usize {
    match op { Op::Source(_) => 2, Op::Derive(..) => 3, Op::Join(..) => 6, Op::Collect(..) => 4 }
}
fn prog_steps(p: &[Op]) -> usize { p.iter().map(op_steps).sum() }

// ---------------------------------------------------------------------------------------------
// lineage expressions: the oracle's own notion of "what this collection is" (fixed at creation)

type Row = (i64, i64, Option<i64>);

enum Lin {
    Src(Vec<(i64, i64)>),
    Map { parent: Arc<Lin>, f: F, actual: Arc<AtomicU64>, expected: AtomicU64 },
    Join(Arc<Lin>, Arc<Lin>),
}

fn apply_f(f: F, k: i64, v: i64) -> Option<(i64, i64)> {
    match f {
        F::Add(n) => Some((k, v + n)),
        F::Mul(n) => Some((k, v * n)),
        F::Rekey(m) => Some(((k + v).rem_euclid(m), v)),
        F::Drop(m, r) => if v.rem_euclid(m) != r { Some((k, v)) } else { None },
    }
}

/// plain-Rust evaluation of a lineage; `count` = also account the closure calls this evaluation implies
fn eval(l: &Lin, count: bool) -> Vec<Row> {
    match l {
        Lin::Src(rows) => rows.iter().map(|(k, v)| (*k, *v, None)).collect(),
        Lin::Map { parent, f, expected, .. } => {
            let input = eval(parent, count);
            if count { expected.fetch_add(input.len() as u64, Ordering::SeqCst); }
            input.into_iter().filter_map(|(k, v, w)| apply_f(*f, k, v).map(|(k2, v2)| (k2, v2, w))).collect()
        }
        Lin::Join(a, b) => {
            let l = eval(a, count);
            let r = eval(b, count);
            let mut out = vec![];
            for (k, v, _) in &l {
                for (k2, v2, _) in &r {
                    if k == k2 { out.push((*k, *v, Some(*v2))); }
                }
            }
            out
        }
    }
}

fn show_rows(mut rows: Vec<Row>) -> String {
    if rows.is_empty() { return "-".into(); }
    rows.sort_by_key(|(k, v, w)| (*k, *v, w.unwrap_or(0)));
    rows.iter()
        .map(|(k, v, w)| match w { None => format!("{k}.{v}"), Some(w) => format!("{k}.{v}.{w}") })
        .collect::<Vec<_>>()
        .join("_")
}

// ---------------------------------------------------------------------------------------------
// handles on the real pipeline

#[derive(Clone)]
enum Coll { KV(PCollection<(i64, i64)>), J(PCollection<(i64, (i64, i64))>) }

#[derive(Clone)]
struct Handle { coll: Coll, lin: Arc<Lin>, inserted: usize }

impl Handle {
    fn id(&self) -> u64 {
        match &self.coll { Coll::KV(c) => c.node_id().raw(), Coll::J(c) => c.node_id().raw() }
    }
    fn is_kv(&self) -> bool { matches!(self.coll, Coll::KV(_)) }
}

fn pick<T: Clone>(l: &[T], k: usize) -> Option<T> {
    if l.is_empty() { None } else { Some(l[k % l.len()].clone()) }
}
fn pick_back<T: Clone>(l: &[T], k: usize) -> Option<T> {
    if l.is_empty() { None } else { Some(l[l.len() - 1 - (k % l.len())].clone()) }
}
fn resolve(pool: &[Handle], own: &[Handle], r: Ref) -> Option<Handle> {
    match r {
        Ref::Front(k) => pick(pool, k),
        Ref::Back(k) => pick_back(pool, k),
        Ref::Mine(k) => pick_back(own, k).or_else(|| pick_back(pool, k)),
    }
}
fn resolve_kv(pool: &[Handle], own: &[Handle], r: Ref) -> Option<Handle> {
    let p: Vec<Handle> = pool.iter().filter(|h| h.is_kv()).cloned().collect();
    let o: Vec<Handle> = own.iter().filter(|h| h.is_kv()).cloned().collect();
    resolve(&p, &o, r)
}

struct World {
    pipeline: Pipeline,
    pool: Mutex<Vec<Handle>>,
    /// every closure created: (actual counter, lineage node holding the expected counter)
    closures: Mutex<Vec<Arc<Lin>>>,
}

#[derive(Clone, Debug)]
enum Outcome { Built(u64), Collected(u64, String), Skipped, Panicked }

fn show_outcome(o: &Outcome) -> String {
    match o {
        Outcome::Built(id) => format!("B{id}"),
        Outcome::Collected(x, r) => format!("C{x}:{r}"),
        Outcome::Skipped => "K".into(),
        Outcome::Panicked => "P".into(),
    }
}

/// the REAL builder / collect calls
fn derive_real(h: &Handle, f: F, actual: Arc<AtomicU64>) -> Coll {
    match &h.coll {
        Coll::KV(c) => match f {
            F::Drop(..) => Coll::KV(c.clone().filter(move |(k, v): &(i64, i64)| {
                actual.fetch_add(1, Ordering::SeqCst);
                apply_f(f, *k, *v).is_some()
            })),
            _ => Coll::KV(c.clone().map(move |(k, v): &(i64, i64)| {
                actual.fetch_add(1, Ordering::SeqCst);
                apply_f(f, *k, *v).unwrap()
            })),
        },
        Coll::J(c) => match f {
            F::Drop(..) => Coll::J(c.clone().filter(move |(k, (v, _)): &(i64, (i64, i64))| {
                actual.fetch_add(1, Ordering::SeqCst);
                apply_f(f, *k, *v).is_some()
            })),
            _ => Coll::J(c.clone().map(move |(k, (v, w)): &(i64, (i64, i64))| {
                actual.fetch_add(1, Ordering::SeqCst);
                let (k2, v2) = apply_f(f, *k, *v).unwrap();
                (k2, (v2, *w))
            })),
        },
    }
}

fn collect_real(h: &Handle, mode: Option<usize>) -> Result<Vec<Row>, String> {
    match &h.coll {
        Coll::KV(c) => {
            let r = match mode { None => c.clone().collect_seq(), Some(p) => c.clone().collect_par(None, Some(p)) };
            r.map(|v| v.into_iter().map(|(k, v)| (k, v, None)).collect()).map_err(|e| format!("{e:#}"))
        }
        Coll::J(c) => {
            let r = match mode { None => c.clone().collect_seq(), Some(p) => c.clone().collect_par(None, Some(p)) };
            r.map(|v| v.into_iter().map(|(k, (v, w))| (k, v, Some(w))).collect()).map_err(|e| format!("{e:#}"))
        }
    }
}

/// what one collect observed vs. what its creation-time lineage says
struct CollectObs { tid: usize, node: u64, real: String, want: String }

/// run one operation of a thread on the real pipeline (after its `begin` yield)
fn exec_op(w: &World, own: &mut Vec<Handle>, op: &Op, tid: usize, obs: &Mutex<Vec<CollectObs>>) -> Outcome {
    let pool_now: Vec<Handle> = w.pool.lock().unwrap().clone();
    let publish = |h: Handle, own: &mut Vec<Handle>| {
        let id = h.id();
        w.pool.lock().unwrap().push(h.clone());
        own.push(h);
        Outcome::Built(id)
    };
    match op {
        Op::Source(rows) => {
            let rows2 = rows.clone();
            let p = w.pipeline.clone();
            match guarded(move || from_vec(&p, rows2)) {
                Ok(c) => publish(Handle { coll: Coll::KV(c), lin: Arc::new(Lin::Src(rows.clone())), inserted: 1 }, own),
                Err(_) => Outcome::Panicked,
            }
        }
        Op::Derive(r, f) => {
            let Some(h) = resolve(&pool_now, own, *r) else { return Outcome::Skipped };
            let actual = Arc::new(AtomicU64::new(0));
            let lin = Arc::new(Lin::Map { parent: h.lin.clone(), f: *f, actual: actual.clone(), expected: AtomicU64::new(0) });
            w.closures.lock().unwrap().push(lin.clone());
            let f2 = *f;
            match guarded(|| derive_real(&h, f2, actual)) {
                Ok(coll) => publish(Handle { coll, lin, inserted: 1 }, own),
                Err(_) => Outcome::Panicked,
            }
        }
        Op::Join(l, r) => {
            let (Some(a), Some(b)) = (resolve_kv(&pool_now, own, *l), resolve_kv(&pool_now, own, *r)) else {
                return Outcome::Skipped;
            };
            let (Coll::KV(ca), Coll::KV(cb)) = (&a.coll, &b.coll) else { return Outcome::Skipped };
            match guarded(|| ca.join_inner(cb)) {
                Ok(c) => publish(Handle { coll: Coll::J(c), lin: Arc::new(Lin::Join(a.lin.clone(), b.lin.clone())), inserted: 2 }, own),
                Err(_) => Outcome::Panicked,
            }
        }
        Op::Collect(r, mode) => {
            let Some(h) = resolve(&pool_now, own, *r) else { return Outcome::Skipped };
            let real = match guarded(|| collect_real(&h, *mode)) {
                Ok(Ok(rows)) => show_rows(rows),
                Ok(Err(e)) => format!("ERR-{}", e.split_whitespace().take(3).collect::<Vec<_>>().join("-")),
                Err(_) => "PANIC".to_string(),
            };
            // the oracle's value: the creation-time lineage alone (also accounts the closure calls it implies)
            let want = show_rows(eval(&h.lin, true));
            obs.lock().unwrap().push(CollectObs { tid, node: h.id(), real: real.clone(), want });
            Outcome::Collected(h.id(), real)
        }
    }
}

// ---------------------------------------------------------------------------------------------
// cooperative scheduler

/// one granted atomic step: who, through which lock site, and the real graph size right after it
struct Step { tid: usize, site: &'static str, nodes: usize, edges: usize }
struct St { parked: Vec<Option<&'static str>>, done: Vec<bool>, grant: Option<usize> }
struct Sched { m: Mutex<St>, cv: Condvar }

thread_local! {
    static CUR: RefCell<Option<(Arc<Sched>, usize)>> = const { RefCell::new(None) };
}

fn yield_here(site: &'static str) {
    // only the pipeline's own lock sites (and the harness' `begin`) are scheduling points of this model
    if site != "begin" && !site.starts_with("pipeline:") { return; }
    let cur = CUR.with(|c| c.borrow().clone());
    if let Some((s, t)) = cur { s.park(t, site); }
}

impl Sched {
    fn new(n: usize) -> Arc<Sched> {
        Arc::new(Sched { m: Mutex::new(St { parked: vec![None; n], done: vec![false; n], grant: None }), cv: Condvar::new() })
    }
    fn park(&self, t: usize, site: &'static str) {
        let mut g = self.m.lock().unwrap();
        g.parked[t] = Some(site);
        self.cv.notify_all();
        while g.grant != Some(t) { g = self.cv.wait(g).unwrap(); }
        g.grant = None;
        g.parked[t] = None;
    }
    fn finish(&self, t: usize) {
        let mut g = self.m.lock().unwrap();
        g.done[t] = true;
        self.cv.notify_all();
    }
    /// follow `plan` (entries of finished threads are skipped; afterwards lowest live thread first);
    /// returns the linearisation that actually happened, or None on a hang
    fn drive(&self, plan: &[usize], probe: &dyn Fn() -> (usize, usize)) -> Option<Vec<Step>> {
        let mut trace: Vec<Step> = vec![];
        let mut pos = 0;
        loop {
            let mut g = self.m.lock().unwrap();
            let quiescent = |g: &St| g.grant.is_none() && (0..g.done.len()).all(|t| g.done[t] || g.parked[t].is_some());
            while !quiescent(&g) {
                let (g2, to) = self.cv.wait_timeout(g, Duration::from_secs(20)).unwrap();
                g = g2;
                if to.timed_out() && !quiescent(&g) { return None; }
            }
            // everybody is parked or done: nobody holds the pipeline lock; look at what the last step did
            if let Some(last) = trace.last_mut() { let (n, e) = probe(); last.nodes = n; last.edges = e; }
            if g.done.iter().all(|d| *d) { return Some(trace); }
            while pos < plan.len() && g.done[plan[pos]] { pos += 1; }
            let t = if pos < plan.len() { pos += 1; plan[pos - 1] } else { (0..g.done.len()).find(|t| !g.done[*t]).unwrap() };
            trace.push(Step { tid: t, site: g.parked[t].unwrap(), nodes: 0, edges: 0 });
            g.grant = Some(t);
            self.cv.notify_all();
        }
    }
}

fn site_code(s: &str) -> char {
    match s {
        "begin" => 'b',
        "pipeline:insert_node" => 'i',
        "pipeline:connect" => 'c',
        "pipeline:snapshot" => 's',
        "pipeline:record_metrics_start" => 'm',
        "pipeline:record_metrics_end" => 'e',
        _ => '?',
    }
}

// ---------------------------------------------------------------------------------------------
// one history

struct HistoryResult {
    trace: Option<Vec<Step>>, // None = hang (scheduled mode only)
    outs: Vec<Vec<Outcome>>,
    obs: Vec<CollectObs>,
    world: Arc<World>,
}

/// run `progs` on fresh real threads sharing a fresh pipeline; `plan = Some(schedule)`: cooperative,
/// `None`: free-running (truly concurrent, started together)
fn run_history(progs: &[Vec<Op>], plan: Option<&[usize]>, with_metrics: bool) -> HistoryResult {
    let n = progs.len();
    let world = Arc::new(World { pipeline: Pipeline::default(), pool: Mutex::new(vec![]), closures: Mutex::new(vec![]) });
    if with_metrics { world.pipeline.set_metrics(ironbeam::metrics::MetricsCollector::new()); }
    let sched = Sched::new(n);
    let obs = Arc::new(Mutex::new(Vec::<CollectObs>::new()));
    let outs = Arc::new(Mutex::new(vec![Vec::<Outcome>::new(); n]));
    let start = Arc::new(std::sync::Barrier::new(n));
    let scheduled = plan.is_some();
    let mut joins = vec![];
    for (t, prog) in progs.iter().enumerate() {
        let (world, sched, obs, outs, prog, start) = (world.clone(), sched.clone(), obs.clone(), outs.clone(), prog.clone(), start.clone());
        joins.push(std::thread::spawn(move || {
            struct Fin(Arc<Sched>, usize);
            impl Drop for Fin { fn drop(&mut self) { CUR.with(|c| *c.borrow_mut() = None); self.0.finish(self.1); } }
            let _fin = Fin(sched.clone(), t);
            if scheduled { CUR.with(|c| *c.borrow_mut() = Some((sched.clone(), t))); } else { start.wait(); }
            let mut own: Vec<Handle> = vec![];
            for op in &prog {
                yield_here("begin");
                let o = exec_op(&world, &mut own, op, t, &obs);
                outs.lock().unwrap()[t].push(o);
            }
        }));
    }
    let probe = || { let (n, e) = world.pipeline.snapshot(); (n.len(), e.len()) };
    let trace = match plan { Some(p) => sched.drive(p, &probe), None => Some(vec![]) };
    if trace.is_some() { for j in joins { let _ = j.join(); } }
    let outs = outs.lock().unwrap().clone();
    let obs = std::mem::take(&mut *obs.lock().unwrap());
    HistoryResult { trace, outs, obs, world }
}

struct Snap { ids: Vec<u64>, kinds: Vec<char>, edges: Vec<(u64, u64)> }

fn snap(p: &Pipeline) -> Snap {
    let (nodes, edges) = p.snapshot();
    let mut v: Vec<(u64, char)> = nodes
        .iter()
        .map(|(id, n)| (id.raw(), match n { Node::Source { .. } => 'S', Node::Stateless(_) => 'T', Node::CoGroup { .. } => 'G', _ => 'O' }))
        .collect();
    v.sort();
    Snap { ids: v.iter().map(|x| x.0).collect(), kinds: v.iter().map(|x| x.1).collect(), edges: edges.iter().map(|(a, b)| (a.raw(), b.raw())).collect() }
}

fn dash(v: Vec<String>) -> String { if v.is_empty() { "-".into() } else { v.join(",") } }

/// the graph facts the property states, evaluated on the real snapshot: one node per insert with pairwise
/// distinct ids (none lost/overwritten), edges between existing distinct nodes, in-degree <= 1
fn graph_ok(s: &Snap, inserts: usize) -> Result<(), String> {
    let mut ids = s.ids.clone();
    ids.dedup();
    if ids.len() != s.ids.len() || ids.len() != inserts {
        return Err(format!("{} nodes with ids {:?} after {inserts} inserts (ids must be pairwise distinct, none lost)", s.ids.len(), s.ids));
    }
    for (f, t) in &s.edges {
        if f == t || ids.binary_search(f).is_err() || ids.binary_search(t).is_err() {
            return Err(format!("edge {f}->{t} does not join two existing distinct nodes"));
        }
    }
    let mut tos: Vec<u64> = s.edges.iter().map(|e| e.1).collect();
    tos.sort();
    if tos.windows(2).any(|w| w[0] == w[1]) { return Err("a node has two incoming edges".into()); }
    Ok(())
}

/// oracle checks shared by the scheduled and the free-running mode
fn check_oracle(cx: &mut Ctx, i: usize, res: &HistoryResult, s: &Snap) {
    // node ids: one per insert, pairwise distinct
    let mut inserts = 0usize;
    let mut built: Vec<u64> = vec![];
    let mut panics = 0;
    for o in res.outs.iter().flatten() {
        match o { Outcome::Built(id) => built.push(*id), Outcome::Panicked => panics += 1, _ => {} }
    }
    for h in res.world.pool.lock().unwrap().iter() {
        inserts += h.inserted;
    }
    if panics > 0 { cx.oracle_fail(i, "operation-panicked", format!("{panics} operations panicked")); }
    let mut b2 = built.clone();
    b2.sort();
    b2.dedup();
    if b2.len() != built.len() { cx.oracle_fail(i, "node-ids-not-distinct", format!("handles returned by builders share an id: {built:?}")); }
    if panics == 0 {
        if let Err(e) = graph_ok(s, inserts) { cx.oracle_fail(i, "graph-invariant-broken", e); }
    }
    // every collect equals the value of its creation-time lineage
    for o in &res.obs {
        if o.real != o.want {
            cx.oracle_fail(i, "collect-differs-from-lineage", format!("thread {} collect of node {}: got {} want {}", o.tid, o.node, o.real, o.want));
            break;
        }
    }
    // laziness / no interference: each closure was called exactly as often as the collects containing it imply
    let mut total_calls = 0;
    for l in res.world.closures.lock().unwrap().iter() {
        if let Lin::Map { actual, expected, f, .. } = &**l {
            let (a, e) = (actual.load(Ordering::SeqCst), expected.load(Ordering::SeqCst));
            total_calls += a;
            if a != e {
                let sig = if res.obs.is_empty() { "user-code-ran-while-building" } else { "closure-calls-differ-from-lineage" };
                cx.oracle_fail(i, sig, format!("closure {f:?}: called {a} times, its collects imply {e}"));
                break;
            }
        }
    }
    if res.obs.is_empty() { cx.count("history:build-only(0 closure calls required)"); }
    cx.count_n("closure calls observed", total_calls);
}

fn one_scheduled(cx: &mut Ctx, progs: &[Vec<Op>], plan: &[usize], tag: &str) {
    let with_metrics = tag == "random" && plan.len() % 3 == 0;
    if with_metrics { cx.count("random:pipeline has a metrics collector"); }
    let res = run_history(progs, Some(plan), with_metrics);
    let n = progs.len();
    let Some(trace) = res.trace.as_ref() else {
        let req = format!("GRAPH {n} {} {}", progs.iter().map(|p| enc_prog(p)).collect::<Vec<_>>().join(" "),
            plan.iter().map(|t| t.to_string()).collect::<String>());
        let i = cx.case(req, "HANG".into(), true);
        cx.oracle_fail(i, "hang", "a thread never reached its next yield point".into());
        return;
    };
    let s = snap(&res.world.pipeline);
    let sched_s: String = if trace.is_empty() { "-".into() } else { trace.iter().map(|st| st.tid.to_string()).collect() };
    let trace_s: String = if trace.is_empty() { "-".into() } else { trace.iter().map(|st| format!("{}{}{}.{}", st.tid, site_code(st.site), st.nodes, st.edges)).collect() };
    let req = format!("GRAPH {n} {} {sched_s}", progs.iter().map(|p| enc_prog(p)).collect::<Vec<_>>().join(" "));
    let mut real = format!(
        "n={} N={} E={} T={trace_s}",
        s.ids.len(),
        dash(s.ids.iter().zip(&s.kinds).map(|(i, k)| format!("{i}:{k}")).collect()),
        dash(s.edges.iter().map(|(a, b)| format!("{a}-{b}")).collect())
    );
    for (t, o) in res.outs.iter().enumerate() {
        real.push_str(&format!(" t{t}={}", dash(o.iter().map(show_outcome).collect())));
    }
    let collects = res.obs.len();
    let i = cx.case(req, real, n >= 2 && trace.len() >= 4);
    cx.count(&format!("{tag}:threads={n}"));
    cx.count_n(&format!("{tag}:atomic steps"), trace.len() as u64);
    cx.count_n(&format!("{tag}:collects"), collects as u64);
    let mut switches = 0;
    for w in trace.windows(2) { if w[0].tid != w[1].tid { switches += 1; } }
    cx.count_n(&format!("{tag}:context switches"), switches);
    check_oracle(cx, i, &res, &s);
}

fn one_free(cx: &mut Ctx, progs: &[Vec<Op>]) {
    let res = run_history(progs, None, false);
    let s = snap(&res.world.pipeline);
    let mut inserts = 0usize;
    for h in res.world.pool.lock().unwrap().iter() { inserts += h.inserted; }
    // next_id is not observable; the model is asked whether the snapshot is a legal graph with `inserts` nodes
    let real = if graph_ok(&s, inserts).is_ok() { "T" } else { "F" };
    let req = format!("GINV {inserts} {} {}", dash(s.ids.iter().map(|x| x.to_string()).collect()),
        dash(s.edges.iter().map(|(a, b)| format!("{a}-{b}")).collect()));
    let i = cx.case(req, real.into(), true);
    cx.count(&format!("free-running:threads={}", progs.len()));
    cx.count_n("free-running:collects", res.obs.len() as u64);
    check_oracle(cx, i, &res, &s);
}

// ---------------------------------------------------------------------------------------------
// generators

fn gen_rows(cx: &mut Ctx) -> Vec<(i64, i64)> {
    let n = *cx.rng.pick(&[0usize, 1, 2, 3, 4, 6]);
    (0..n).map(|_| (cx.rng.range(0, 2), cx.rng.range(-4, 9))).collect()
}
fn gen_ref(cx: &mut Ctx) -> Ref {
    let k = cx.rng.below(4);
    match cx.rng.below(5) { 0 | 1 => Ref::Front(k), 2 | 3 => Ref::Back(k), _ => Ref::Mine(k) }
}
fn gen_f(cx: &mut Ctx) -> F {
    match cx.rng.below(6) {
        0 | 1 => F::Add(cx.rng.range(-3, 5)),
        2 => F::Mul(*cx.rng.pick(&[2i64, 3, -1])),
        3 => F::Rekey(cx.rng.range(1, 3)),
        _ => { let m = cx.rng.range(2, 3); F::Drop(m, cx.rng.range(0, m - 1)) }
    }
}
fn gen_op(cx: &mut Ctx) -> Op {
    match cx.rng.below(10) {
        0 => Op::Source(gen_rows(cx)),
        1 | 2 | 3 => Op::Derive(gen_ref(cx), gen_f(cx)),
        4 | 5 => Op::Join(gen_ref(cx), gen_ref(cx)),
        _ => { let r = gen_ref(cx); let m = if cx.rng.chance(1, 3) { Some(1 + cx.rng.below(3)) } else { None }; Op::Collect(r, m) }
    }
}

/// all interleavings of two threads with `a` and `b` steps, after `pre` steps of thread 0
fn interleavings(pre: usize, a: usize, b: usize) -> Vec<Vec<usize>> {
    fn go(a: usize, b: usize, cur: &mut Vec<usize>, out: &mut Vec<Vec<usize>>) {
        if a == 0 && b == 0 { out.push(cur.clone()); return; }
        if a > 0 { cur.push(1); go(a - 1, b, cur, out); cur.pop(); }
        if b > 0 { cur.push(2); go(a, b - 1, cur, out); cur.pop(); }
    }
    let mut out = vec![];
    let mut cur = vec![0; pre];
    go(a, b, &mut cur, &mut out);
    out
}
fn binom(n: usize, k: usize) -> usize {
    let mut r = 1usize;
    for i in 0..k.min(n - k) { r = r * (n - i) / (i + 1); }
    r
}

fn src(rows: &[(i64, i64)]) -> Op { Op::Source(rows.to_vec()) }

pub fn run(cx: &mut Ctx) {
    ironbeam::verif_hooks::set_yield_callback(Some(Arc::new(|site| yield_here(site))));
    let base = vec![(0i64, 1i64), (1, 2), (0, 3), (1, 4)];
    let prefix = vec![src(&base), Op::Derive(Ref::Front(0), F::Add(1))];
    let pre_steps = prog_steps(&prefix);

    // (1) corpus / design witnesses: sequential re-collection, ancestors after descendants, siblings
    {
        let p0 = vec![
            src(&base), Op::Derive(Ref::Front(0), F::Mul(2)), Op::Collect(Ref::Front(0), None),
            Op::Derive(Ref::Front(0), F::Drop(2, 0)), Op::Collect(Ref::Front(0), Some(2)), Op::Collect(Ref::Front(1), None),
            Op::Join(Ref::Front(1), Ref::Front(2)), Op::Collect(Ref::Back(0), None), Op::Collect(Ref::Front(0), None),
            Op::Collect(Ref::Back(0), Some(3)), Op::Source(vec![(0, 9)]), Op::Collect(Ref::Front(2), None),
        ];
        let plan = vec![0; prog_steps(&p0)];
        one_scheduled(cx, &[p0], &plan, "corpus");
        // a collect of the parent racing with a sibling's insert/connect, strictly alternating
        let a = vec![Op::Derive(Ref::Front(0), F::Mul(3)), Op::Collect(Ref::Mine(0), None)];
        let b = vec![Op::Collect(Ref::Front(0), None), Op::Collect(Ref::Front(1), Some(2))];
        let mut plan = vec![0; pre_steps];
        for _ in 0..8 { plan.push(1); plan.push(2); }
        one_scheduled(cx, &[prefix.clone(), a, b], &plan, "corpus");
        // empty source, join with itself
        let p1 = vec![Op::Source(vec![]), Op::Join(Ref::Front(0), Ref::Front(0)), Op::Collect(Ref::Back(0), None), Op::Collect(Ref::Front(0), None)];
        let plan = vec![0; prog_steps(&p1)];
        one_scheduled(cx, &[p1], &plan, "corpus");
    }

    // (2) exhaustive small scope: for every ordered pair of single operations from a 7-letter alphabet
    //     (thread 1 runs the first, thread 2 the second, after a 2-operation prefix), ALL interleavings of
    //     their atomic steps; then selected multi-operation pairs, all interleavings (up to a cap).
    let alpha: Vec<Op> = vec![
        Op::Source(vec![(0, 7), (1, 8)]),
        Op::Derive(Ref::Front(0), F::Mul(2)),
        Op::Derive(Ref::Back(0), F::Drop(2, 0)),
        Op::Join(Ref::Front(0), Ref::Back(0)),
        Op::Collect(Ref::Front(0), None),
        Op::Collect(Ref::Back(0), None),
        Op::Collect(Ref::Back(0), Some(2)),
    ];
    let mut n_sched = 0usize;
    for a in &alpha {
        for b in &alpha {
            for plan in interleavings(pre_steps, op_steps(a), op_steps(b)) {
                one_scheduled(cx, &[prefix.clone(), vec![a.clone()], vec![b.clone()]], &plan, "exhaustive-1x1");
                n_sched += 1;
            }
        }
    }
    cx.exhaustive_blocks.push(format!(
        "2 worker threads x 1 operation each: all {} ordered pairs over a 7-operation alphabet (source, 2 derives, join, 3 collects) after a 2-operation prefix, ALL interleavings of their lock-granular steps ({n_sched} schedules)",
        alpha.len() * alpha.len()));
    let multi: Vec<(Vec<Op>, Vec<Op>)> = vec![
        (vec![Op::Derive(Ref::Front(0), F::Mul(2)), Op::Collect(Ref::Mine(0), None)], vec![Op::Derive(Ref::Back(0), F::Add(5))]),
        (vec![Op::Derive(Ref::Front(0), F::Mul(2)), Op::Collect(Ref::Front(0), None)], vec![Op::Collect(Ref::Front(0), Some(2))]),
        (vec![Op::Join(Ref::Front(0), Ref::Front(1)), Op::Collect(Ref::Mine(0), None)], vec![Op::Derive(Ref::Front(1), F::Rekey(2))]),
        (vec![Op::Source(vec![(1, 1)]), Op::Collect(Ref::Back(0), None)], vec![Op::Derive(Ref::Back(0), F::Drop(2, 1)), Op::Collect(Ref::Mine(0), None)]),
        (vec![Op::Derive(Ref::Front(0), F::Add(2)), Op::Derive(Ref::Mine(0), F::Mul(3)), Op::Collect(Ref::Mine(1), None)], vec![Op::Collect(Ref::Back(0), None)]),
        (vec![Op::Join(Ref::Front(0), Ref::Back(0))], vec![Op::Join(Ref::Back(0), Ref::Front(0))]),
        (vec![Op::Derive(Ref::Front(0), F::Mul(2)), Op::Collect(Ref::Mine(0), None)], vec![Op::Derive(Ref::Front(0), F::Add(3)), Op::Collect(Ref::Mine(0), None)]),
        (vec![Op::Derive(Ref::Front(0), F::Mul(2)), Op::Derive(Ref::Mine(0), F::Add(1)), Op::Collect(Ref::Mine(0), None)],
         vec![Op::Derive(Ref::Back(0), F::Add(3)), Op::Join(Ref::Front(0), Ref::Mine(0)), Op::Collect(Ref::Front(1), None)]),
    ];
    let cap = cx.budget(400, 4000);
    let mut n_multi = 0usize;
    let mut capped = 0usize;
    for (a, b) in &multi {
        let (sa, sb) = (prog_steps(a), prog_steps(b));
        let total = binom(sa + sb, sa);
        if total <= cap {
            for plan in interleavings(pre_steps, sa, sb) {
                one_scheduled(cx, &[prefix.clone(), a.clone(), b.clone()], &plan, "exhaustive-multi");
                n_multi += 1;
            }
        } else {
            capped += 1;
            for _ in 0..cap {
                let mut plan = vec![0; pre_steps];
                let (mut ra, mut rb) = (sa, sb);
                while ra + rb > 0 {
                    if cx.rng.below(ra + rb) < ra { plan.push(1); ra -= 1; } else { plan.push(2); rb -= 1; }
                }
                one_scheduled(cx, &[prefix.clone(), a.clone(), b.clone()], &plan, "sampled-multi");
            }
        }
    }
    cx.exhaustive_blocks.push(format!(
        "{} hand-picked pairs of 1-3-operation programs: ALL interleavings where there are at most {cap} ({n_multi} schedules); {capped} larger pairs sampled uniformly ({cap} schedules each)",
        multi.len()));

    // (3) random: 2..4 worker threads x <= 6 operations, random schedules with varying burstiness
    let rounds = cx.budget(400, 16000);
    for _ in 0..rounds {
        let workers = 2 + cx.rng.below(3);
        let mut progs = vec![];
        let mut pre = vec![Op::Source(gen_rows(cx))];
        for _ in 0..cx.rng.below(3) { pre.push(gen_op(cx)); }
        progs.push(pre);
        for _ in 0..workers {
            let len = 1 + cx.rng.below(6);
            progs.push((0..len).map(|_| gen_op(cx)).collect::<Vec<_>>());
        }
        let mut remaining: Vec<usize> = progs.iter().map(|p| prog_steps(p)).collect();
        let mut plan = vec![];
        let interleave_prefix = cx.rng.chance(1, 5);
        if !interleave_prefix { plan.extend(std::iter::repeat(0).take(remaining[0])); remaining[0] = 0; }
        let stick = cx.rng.below(4); // 0 = switch at every step with high probability … 3 = long bursts
        let mut cur = 1;
        while remaining.iter().sum::<usize>() > 0 {
            if remaining[cur % progs.len()] == 0 || cx.rng.below(stick + 1) == 0 {
                let live: Vec<usize> = (0..progs.len()).filter(|t| remaining[*t] > 0).collect();
                cur = *cx.rng.pick(&live);
            }
            let t = cur % progs.len();
            plan.push(t);
            remaining[t] -= 1;
        }
        one_scheduled(cx, &progs, &plan, "random");
    }

    // (4) free-running: no scheduler, real concurrency (what the cooperative runs cannot show: a critical
    //     section that was split in two). Many short builders racing, then collects.
    ironbeam::verif_hooks::set_yield_callback(None);
    let rounds = cx.budget(60, 1200);
    for r in 0..rounds {
        let workers = 2 + cx.rng.below(3);
        let mut progs = vec![];
        for _ in 0..workers {
            let mut p = vec![Op::Source(gen_rows(cx))];
            let len = if r % 3 == 0 { 40 } else { 6 + cx.rng.below(10) };
            for _ in 0..len {
                p.push(match cx.rng.below(8) {
                    0 => Op::Source(gen_rows(cx)),
                    1..=4 => Op::Derive(gen_ref(cx), F::Add(cx.rng.range(-2, 2))),
                    5 => Op::Join(gen_ref(cx), gen_ref(cx)),
                    _ => Op::Collect(gen_ref(cx), None),
                });
            }
            progs.push(p);
        }
        one_free(cx, &progs);
    }
    cx.notes.push("free-running cases are truly concurrent: their request lines (the snapshot) depend on the OS schedule, their verdicts do not".into());
}
