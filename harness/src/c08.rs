//! C08 — collections are lazy, immutable and re-runnable; branches do not interfere.
//!
//! Real side: 1..5 REAL OS threads share one `Pipeline` and execute small programs (new source / derive:
//! `map`, `filter`, `group_by_key`, `combine_values`, `combine_values_lifted`, `combine_globally` / join of
//! the four kinds / collect in either mode / `set_metrics` / `take_metrics`). A cooperative scheduler (installed through `verif_hooks::set_yield_callback`; every
//! `Pipeline` method yields right before taking the lock, and every operation yields once at its `begin`)
//! lets exactly one thread run from one yield point to the next, following a *schedule* (list of thread
//! ids). So an interleaving at lock granularity is replayable and can be ENUMERATED.
//!
//! Request  `GRAPH <n> <prog_0> … <prog_{n-1}> <schedule>`  (see lean/IbModel/Driver/D08.lean for the syntax)
//! Answer   `n=<#nodes> N=<id>:<kind>,… E=<from>-<to>,… T=<per step: thread, lock site, #nodes.#edges after it> U=<user-function calls> t0=<outcomes> …`
//!          from the real `snapshot()`, the real lock-site trace, the real call counters of every user closure /
//!          `CombineFn::add_input`, the real node ids and the real collect results.
//! The Lean model replays the same linearisation; the answers must be byte-identical.
//!
//! Request  `GINV <#nodes> <ids> <edges>`: a snapshot of the real graph after a FREE-RUNNING (no scheduler,
//! truly concurrent) build; the model evaluates its graph invariant on it, the harness its own.
//!
//! Oracle (independent of the model, of snapshots, ids and the back-walk): every handle carries its
//! creation-time lineage as a plain Rust expression tree (`Lin`); every collect must equal `eval(lin)`;
//! every user function (map/filter closure, `CombineFn::add_input` of the per-key / lifted / global
//! combiners) has its own call counter whose final value must equal the number of rows the lineage
//! evaluations of the collects that contain it feed to it (so: 0 calls from building; no calls from
//! collects of other branches; no second run of a barrier); node ids pairwise distinct, none lost; edges
//! old→young, in-degree ≤ 1; `take_metrics` answers follow the order of the metrics critical sections.
//!
//! Small-scope blocks: (2a) every ordered pair of single operations, ALL interleavings; (2b) every pair of
//! programs of up to 3 (quick: 2) operations over per-thread alphabets, one schedule per Mazurkiewicz trace
//! under the dependence relation `dependent` (partial-order reduction, sleep sets); (2c) hand-picked pairs.

use crate::ctx::{Ctx, Tier, guarded};
use ironbeam::collection::{CombineFn, LiftableCombiner};
use ironbeam::node::Node;
use ironbeam::{PCollection, Pipeline, from_vec};
use std::cell::RefCell;
use std::sync::atomic::{AtomicU64, Ordering};
use std::sync::{Arc, Condvar, Mutex};
use std::time::Duration;

// ---------------------------------------------------------------------------------------------
// programs

#[derive(Clone, Copy, Debug, PartialEq)]
enum Ref { Front(usize), Back(usize), Mine(usize) }

#[derive(Clone, Copy, Debug, PartialEq)]
enum F { Add(i64), Mul(i64), Rekey(i64), Drop(i64, i64) }

#[derive(Clone, Copy, Debug, PartialEq)]
enum JK { Inner, Left, Right, Full }

#[derive(Clone, Debug, PartialEq)]
enum Op {
    Source(Vec<(i64, i64)>),
    Derive(Ref, F),                     // map / filter, any element type
    Group(Ref),                         // group_by_key                (k,v) -> (k,Vec v)
    CombV(Ref, i64),                    // combine_values(sum+bias)    (k,v) -> (k,v)
    CombL(Ref, i64),                    // combine_values_lifted(..)   (k,Vec v) -> (k,v)
    CombG(Ref, i64, Option<usize>),     // combine_globally(.., fanout) (k,v) -> one (k,v)
    Join(JK, Ref, Ref),
    Collect(Ref, Option<usize>), // None = collect_seq, Some(p) = collect_par(None, Some(p))
    SetM,                               // Pipeline::set_metrics
    TakeM,                              // Pipeline::take_metrics
}

fn enc_ref(r: Ref) -> String {
    match r { Ref::Front(k) => format!("f{k}"), Ref::Back(k) => format!("b{k}"), Ref::Mine(k) => format!("m{k}") }
}
fn enc_f(f: F) -> String {
    match f {
        F::Add(n) => format!("a{n}"), F::Mul(n) => format!("m{n}"),
        F::Rekey(m) => format!("k{m}"), F::Drop(m, r) => format!("f{m}.{r}"),
    }
}
fn enc_op(op: &Op) -> String {
    match op {
        Op::Source(rows) => format!("S{}", rows.iter().map(|(k, v)| format!("{k}.{v}")).collect::<Vec<_>>().join("_")),
        Op::Derive(r, f) => format!("D{}/{}", enc_ref(*r), enc_f(*f)),
        Op::Group(r) => format!("G{}", enc_ref(*r)),
        Op::CombV(r, b) => format!("V{}/{b}", enc_ref(*r)),
        Op::CombL(r, b) => format!("L{}/{b}", enc_ref(*r)),
        Op::CombG(r, b, fo) => format!("A{}/{b}/{}", enc_ref(*r), fo.map_or("n".to_string(), |x| x.to_string())),
        Op::Join(k, l, r) => format!("J{}{}/{}", match k { JK::Inner => 'i', JK::Left => 'l', JK::Right => 'r', JK::Full => 'f' }, enc_ref(*l), enc_ref(*r)),
        Op::Collect(r, None) => format!("C{}/s", enc_ref(*r)),
        Op::Collect(r, Some(p)) => format!("C{}/p{p}", enc_ref(*r)),
        Op::SetM => "M+".into(),
        Op::TakeM => "M-".into(),
    }
}
fn enc_prog(p: &[Op]) -> String {
    if p.is_empty() { "-".into() } else { p.iter().map(enc_op).collect::<Vec<_>>().join(";") }
}
/// kinds of the atomic steps of an operation when its handles resolve: b = begin (harness), i = insert_node,
/// I = insert_node after which the builder returns (handle published), c = connect (+ publication),
/// s = snapshot, m/e = record_metrics_start/end, M/K = set/take_metrics
fn op_kinds(op: &Op) -> &'static str {
    match op {
        Op::Source(_) => "bI",
        Op::Derive(..) | Op::Group(_) | Op::CombV(..) | Op::CombL(..) | Op::CombG(..) => "bic",
        Op::Join(..) => "bssiic",
        Op::Collect(..) => "bmse",
        Op::SetM => "bM",
        Op::TakeM => "bK",
    }
}
fn op_steps(op: &Op) -> usize { op_kinds(op).len() }
fn prog_steps(p: &[Op]) -> usize { p.iter().map(op_steps).sum() }
fn prog_kinds(p: &[Op]) -> Vec<u8> { p.iter().flat_map(|o| op_kinds(o).bytes()).collect() }

// ---------------------------------------------------------------------------------------------
// lineage expressions: the oracle's own notion of "what this collection is" (fixed at creation)

#[derive(Clone, Debug, PartialEq)]
enum Cell { Absent, Null, Val(i64), List(Vec<i64>) }
type Row = (i64, Cell, Cell);

impl Cell {
    fn pv(&self) -> i64 { match self { Cell::Val(v) => *v, Cell::List(l) => l.iter().sum(), _ => 0 } }
    fn mapv(&self, g: impl Fn(i64) -> i64) -> Cell {
        match self { Cell::Val(v) => Cell::Val(g(*v)), Cell::List(l) => Cell::List(l.iter().map(|x| g(*x)).collect()), c => c.clone() }
    }
    fn vals(&self) -> Vec<i64> { match self { Cell::Val(v) => vec![*v], Cell::List(l) => l.clone(), _ => vec![] } }
}

/// user-function counters of one lineage node
struct Cnt { actual: Arc<AtomicU64>, expected: AtomicU64 }
impl Cnt { fn new() -> Cnt { Cnt { actual: Arc::new(AtomicU64::new(0)), expected: AtomicU64::new(0) } } }

enum Lin {
    Src(Vec<(i64, i64)>),
    Map { parent: Arc<Lin>, f: F, cnt: Cnt },
    Group(Arc<Lin>),
    CombV { parent: Arc<Lin>, bias: i64, cnt: Cnt }, // on pairs and (lifted) on groups: per key, sum of all values + bias
    CombG { parent: Arc<Lin>, bias: i64, cnt: Cnt },
    Join(JK, Arc<Lin>, Arc<Lin>),
}
impl Lin {
    fn cnt(&self) -> Option<(&Cnt, String)> {
        match self {
            Lin::Map { cnt, f, .. } => Some((cnt, format!("closure {f:?}"))),
            Lin::CombV { cnt, bias, .. } => Some((cnt, format!("combine_values add_input (bias {bias})"))),
            Lin::CombG { cnt, bias, .. } => Some((cnt, format!("combine_globally add_input (bias {bias})"))),
            _ => None,
        }
    }
}

/// the user function of map/filter, on the common row view (pv = the value, or the sum of a group)
fn apply_f(f: F, r: &Row) -> Option<Row> {
    let (k, v, w) = r;
    match f {
        F::Add(n) => Some((*k, v.mapv(|x| x + n), w.clone())),
        F::Mul(n) => Some((*k, v.mapv(|x| x * n), w.clone())),
        F::Rekey(m) => Some(((k + v.pv()).rem_euclid(m), v.clone(), w.clone())),
        F::Drop(m, r) => if v.pv().rem_euclid(m) != r { Some((*k, v.clone(), w.clone())) } else { None },
    }
}

fn keys_of(rows: &[Row]) -> Vec<i64> {
    let mut ks: Vec<i64> = vec![];
    for r in rows { if !ks.contains(&r.0) { ks.push(r.0); } }
    ks
}

/// plain-Rust evaluation of a lineage; `count` = also account the user-function calls this evaluation implies
fn eval(l: &Lin, count: bool) -> Vec<Row> {
    match l {
        Lin::Src(rows) => rows.iter().map(|(k, v)| (*k, Cell::Val(*v), Cell::Absent)).collect(),
        Lin::Map { parent, f, cnt } => {
            let input = eval(parent, count);
            if count { cnt.expected.fetch_add(input.len() as u64, Ordering::SeqCst); }
            input.iter().filter_map(|r| apply_f(*f, r)).collect()
        }
        Lin::Group(parent) => {
            let input = eval(parent, count);
            keys_of(&input).into_iter().map(|k| {
                let vs: Vec<i64> = input.iter().filter(|r| r.0 == k).flat_map(|r| r.1.vals()).collect();
                (k, Cell::List(vs), Cell::Absent)
            }).collect()
        }
        Lin::CombV { parent, bias, cnt } => {
            let input = eval(parent, count);
            // add_input runs once per value (per pair, or per member of a group)
            if count { cnt.expected.fetch_add(input.iter().map(|r| r.1.vals().len() as u64).sum(), Ordering::SeqCst); }
            keys_of(&input).into_iter().map(|k| {
                let s: i64 = input.iter().filter(|r| r.0 == k).map(|r| r.1.pv()).sum();
                (k, Cell::Val(s + bias), Cell::Absent)
            }).collect()
        }
        Lin::CombG { parent, bias, cnt } => {
            let input = eval(parent, count);
            if count { cnt.expected.fetch_add(input.len() as u64, Ordering::SeqCst); }
            let sk: i64 = input.iter().map(|r| r.0).sum();
            let sv: i64 = input.iter().map(|r| r.1.pv()).sum();
            vec![(sk.rem_euclid(2), Cell::Val(sv + bias), Cell::Absent)]
        }
        Lin::Join(kind, a, b) => {
            let l = eval(a, count);
            let r = eval(b, count);
            let mut out = vec![];
            for x in &l {
                let mut hit = false;
                for y in &r {
                    if x.0 == y.0 { hit = true; out.push((x.0, x.1.clone(), y.1.clone())); }
                }
                if !hit && matches!(kind, JK::Left | JK::Full) { out.push((x.0, x.1.clone(), Cell::Null)); }
            }
            if matches!(kind, JK::Right | JK::Full) {
                for y in &r {
                    if !l.iter().any(|x| x.0 == y.0) { out.push((y.0, Cell::Null, y.1.clone())); }
                }
            }
            out
        }
    }
}

fn show_cell(c: &Cell) -> String {
    match c {
        Cell::Absent => String::new(),
        Cell::Null => "n".into(),
        Cell::Val(v) => v.to_string(),
        Cell::List(l) => { let mut l = l.clone(); l.sort(); format!("g{}", l.iter().map(|x| x.to_string()).collect::<Vec<_>>().join("+")) }
    }
}
/// canonical form: every row rendered, the rendered rows sorted bytewise
fn show_rows(rows: Vec<Row>) -> String {
    if rows.is_empty() { return "-".into(); }
    let mut v: Vec<String> = rows.iter().map(|(k, a, b)| match b {
        Cell::Absent => format!("{k}.{}", show_cell(a)),
        _ => format!("{k}.{}.{}", show_cell(a), show_cell(b)),
    }).collect();
    v.sort();
    v.join("_")
}

// ---------------------------------------------------------------------------------------------
// handles on the real pipeline

type KV = (i64, i64);
type JI = (i64, (i64, i64));
type JL = (i64, (i64, Option<i64>));
type JR = (i64, (Option<i64>, i64));
type JF = (i64, (Option<i64>, Option<i64>));
type GR = (i64, Vec<i64>);

fn oc(x: Option<i64>) -> Cell { x.map_or(Cell::Null, Cell::Val) }
fn co(c: &Cell) -> Option<i64> { match c { Cell::Val(v) => Some(*v), _ => None } }

/// the element types of the real collections, seen as the oracle's rows
trait RowT: Clone + Send + Sync + 'static {
    fn to_row(&self) -> Row;
    fn from_row(r: &Row) -> Self;
}
impl RowT for KV { fn to_row(&self) -> Row { (self.0, Cell::Val(self.1), Cell::Absent) } fn from_row(r: &Row) -> Self { (r.0, r.1.pv()) } }
impl RowT for JI { fn to_row(&self) -> Row { (self.0, Cell::Val(self.1.0), Cell::Val(self.1.1)) } fn from_row(r: &Row) -> Self { (r.0, (r.1.pv(), r.2.pv())) } }
impl RowT for JL { fn to_row(&self) -> Row { (self.0, Cell::Val(self.1.0), oc(self.1.1)) } fn from_row(r: &Row) -> Self { (r.0, (r.1.pv(), co(&r.2))) } }
impl RowT for JR { fn to_row(&self) -> Row { (self.0, oc(self.1.0), Cell::Val(self.1.1)) } fn from_row(r: &Row) -> Self { (r.0, (co(&r.1), r.2.pv())) } }
impl RowT for JF { fn to_row(&self) -> Row { (self.0, oc(self.1.0), oc(self.1.1)) } fn from_row(r: &Row) -> Self { (r.0, (co(&r.1), co(&r.2))) } }
impl RowT for GR { fn to_row(&self) -> Row { (self.0, Cell::List(self.1.clone()), Cell::Absent) } fn from_row(r: &Row) -> Self { (r.0, r.1.vals()) } }

#[derive(Clone)]
enum Coll { KV(PCollection<KV>), JI(PCollection<JI>), JL(PCollection<JL>), JR(PCollection<JR>), JF(PCollection<JF>), G(PCollection<GR>) }

macro_rules! each_coll {
    ($coll:expr, $c:ident => $body:expr) => {
        match $coll {
            Coll::KV($c) => $body, Coll::JI($c) => $body, Coll::JL($c) => $body,
            Coll::JR($c) => $body, Coll::JF($c) => $body, Coll::G($c) => $body,
        }
    };
}

#[derive(Clone)]
struct Handle { coll: Coll, lin: Arc<Lin>, inserted: usize }

impl Handle {
    fn id(&self) -> u64 { each_coll!(&self.coll, c => c.node_id().raw()) }
    /// element-type class: 0 = (k,v), 1 = join result, 2 = grouped
    fn class(&self) -> usize { match self.coll { Coll::KV(_) => 0, Coll::G(_) => 2, _ => 1 } }
}

fn pick<T: Clone>(l: &[T], k: usize) -> Option<T> {
    if l.is_empty() { None } else { Some(l[k % l.len()].clone()) }
}
fn pick_back<T: Clone>(l: &[T], k: usize) -> Option<T> {
    if l.is_empty() { None } else { Some(l[l.len() - 1 - (k % l.len())].clone()) }
}
fn resolve(pool: &[Handle], own: &[Handle], r: Ref) -> Option<Handle> {
    match r {
        Ref::Front(k) => pick(pool, k),
        Ref::Back(k) => pick_back(pool, k),
        Ref::Mine(k) => pick_back(own, k).or_else(|| pick_back(pool, k)),
    }
}
/// a typed argument is resolved among the handles of the required element-type class
fn resolve_cls(pool: &[Handle], own: &[Handle], class: usize, r: Ref) -> Option<Handle> {
    let p: Vec<Handle> = pool.iter().filter(|h| h.class() == class).cloned().collect();
    let o: Vec<Handle> = own.iter().filter(|h| h.class() == class).cloned().collect();
    resolve(&p, &o, r)
}

struct World {
    pipeline: Pipeline,
    pool: Mutex<Vec<Handle>>,
    /// every lineage node that holds a user function (closure / CombineFn) with its call counters
    closures: Mutex<Vec<Arc<Lin>>>,
}

#[derive(Clone, Debug)]
enum Outcome { Built(u64), Collected(u64, String), Skipped, Panicked, MSet, MTaken(bool) }

fn show_outcome(o: &Outcome) -> String {
    match o {
        Outcome::Built(id) => format!("B{id}"),
        Outcome::Collected(x, r) => format!("C{x}:{r}"),
        Outcome::Skipped => "K".into(),
        Outcome::Panicked => "P".into(),
        Outcome::MSet => "M".into(),
        Outcome::MTaken(b) => if *b { "M1".into() } else { "M0".into() },
    }
}

/// user combiners (their `add_input` is counted as the user-function call)
struct SumC { bias: i64, calls: Arc<AtomicU64> }
impl CombineFn<i64, i64, i64> for SumC {
    fn create(&self) -> i64 { 0 }
    fn add_input(&self, acc: &mut i64, v: i64) { self.calls.fetch_add(1, Ordering::SeqCst); *acc += v; }
    fn merge(&self, acc: &mut i64, other: i64) { *acc += other; }
    fn finish(&self, acc: i64) -> i64 { acc + self.bias }
}
impl LiftableCombiner<i64, i64, i64> for SumC {}
struct SumKV { bias: i64, calls: Arc<AtomicU64> }
impl CombineFn<KV, KV, KV> for SumKV {
    fn create(&self) -> KV { (0, 0) }
    fn add_input(&self, acc: &mut KV, v: KV) { self.calls.fetch_add(1, Ordering::SeqCst); acc.0 += v.0; acc.1 += v.1; }
    fn merge(&self, acc: &mut KV, other: KV) { acc.0 += other.0; acc.1 += other.1; }
    fn finish(&self, acc: KV) -> KV { (acc.0.rem_euclid(2), acc.1 + self.bias) }
}

/// the REAL builder / collect calls
fn derive_t<T: RowT>(c: &PCollection<T>, f: F, actual: Arc<AtomicU64>) -> PCollection<T> {
    match f {
        F::Drop(..) => c.clone().filter(move |x: &T| {
            actual.fetch_add(1, Ordering::SeqCst);
            apply_f(f, &x.to_row()).is_some()
        }),
        _ => c.clone().map(move |x: &T| {
            actual.fetch_add(1, Ordering::SeqCst);
            T::from_row(&apply_f(f, &x.to_row()).unwrap())
        }),
    }
}
fn derive_real(h: &Handle, f: F, actual: Arc<AtomicU64>) -> Coll {
    match &h.coll {
        Coll::KV(c) => Coll::KV(derive_t(c, f, actual)),
        Coll::JI(c) => Coll::JI(derive_t(c, f, actual)),
        Coll::JL(c) => Coll::JL(derive_t(c, f, actual)),
        Coll::JR(c) => Coll::JR(derive_t(c, f, actual)),
        Coll::JF(c) => Coll::JF(derive_t(c, f, actual)),
        Coll::G(c) => Coll::G(derive_t(c, f, actual)),
    }
}
fn collect_t<T: RowT>(c: &PCollection<T>, mode: Option<usize>) -> Result<Vec<Row>, String> {
    let r = match mode { None => c.clone().collect_seq(), Some(p) => c.clone().collect_par(None, Some(p)) };
    r.map(|v| v.iter().map(RowT::to_row).collect()).map_err(|e| format!("{e:#}"))
}
fn collect_real(h: &Handle, mode: Option<usize>) -> Result<Vec<Row>, String> {
    each_coll!(&h.coll, c => collect_t(c, mode))
}

/// what one collect observed vs. what its creation-time lineage says
struct CollectObs { tid: usize, node: u64, real: String, want: String }

/// run one operation of a thread on the real pipeline (after its `begin` yield)
fn exec_op(w: &World, own: &mut Vec<Handle>, op: &Op, tid: usize, obs: &Mutex<Vec<CollectObs>>) -> Outcome {
    let pool_now: Vec<Handle> = w.pool.lock().unwrap().clone();
    let publish = |h: Handle, own: &mut Vec<Handle>| {
        let id = h.id();
        w.pool.lock().unwrap().push(h.clone());
        own.push(h);
        Outcome::Built(id)
    };
    // a derive whose node holds a user function: register the lineage node (with its counters), build for real
    let built = |lin: Arc<Lin>, with_fn: bool, mk: &dyn Fn() -> Coll, own: &mut Vec<Handle>| {
        if with_fn { w.closures.lock().unwrap().push(lin.clone()); }
        match guarded(|| mk()) {
            Ok(coll) => publish(Handle { coll, lin, inserted: 1 }, own),
            Err(_) => Outcome::Panicked,
        }
    };
    match op {
        Op::Source(rows) => {
            let rows2 = rows.clone();
            let p = w.pipeline.clone();
            match guarded(move || from_vec(&p, rows2)) {
                Ok(c) => publish(Handle { coll: Coll::KV(c), lin: Arc::new(Lin::Src(rows.clone())), inserted: 1 }, own),
                Err(_) => Outcome::Panicked,
            }
        }
        Op::Derive(r, f) => {
            let Some(h) = resolve(&pool_now, own, *r) else { return Outcome::Skipped };
            let cnt = Cnt::new();
            let actual = cnt.actual.clone();
            let lin = Arc::new(Lin::Map { parent: h.lin.clone(), f: *f, cnt });
            built(lin, true, &|| derive_real(&h, *f, actual.clone()), own)
        }
        Op::Group(r) => {
            let Some(h) = resolve_cls(&pool_now, own, 0, *r) else { return Outcome::Skipped };
            let Coll::KV(c) = &h.coll else { return Outcome::Skipped };
            built(Arc::new(Lin::Group(h.lin.clone())), false, &|| Coll::G(c.clone().group_by_key()), own)
        }
        Op::CombV(r, bias) => {
            let Some(h) = resolve_cls(&pool_now, own, 0, *r) else { return Outcome::Skipped };
            let Coll::KV(c) = &h.coll else { return Outcome::Skipped };
            let cnt = Cnt::new();
            let actual = cnt.actual.clone();
            let lin = Arc::new(Lin::CombV { parent: h.lin.clone(), bias: *bias, cnt });
            built(lin, true, &|| Coll::KV(c.clone().combine_values(SumC { bias: *bias, calls: actual.clone() })), own)
        }
        Op::CombL(r, bias) => {
            let Some(h) = resolve_cls(&pool_now, own, 2, *r) else { return Outcome::Skipped };
            let Coll::G(c) = &h.coll else { return Outcome::Skipped };
            let cnt = Cnt::new();
            let actual = cnt.actual.clone();
            let lin = Arc::new(Lin::CombV { parent: h.lin.clone(), bias: *bias, cnt });
            built(lin, true, &|| Coll::KV(c.clone().combine_values_lifted(SumC { bias: *bias, calls: actual.clone() })), own)
        }
        Op::CombG(r, bias, fanout) => {
            let Some(h) = resolve_cls(&pool_now, own, 0, *r) else { return Outcome::Skipped };
            let Coll::KV(c) = &h.coll else { return Outcome::Skipped };
            let cnt = Cnt::new();
            let actual = cnt.actual.clone();
            let lin = Arc::new(Lin::CombG { parent: h.lin.clone(), bias: *bias, cnt });
            built(lin, true, &|| Coll::KV(c.clone().combine_globally(SumKV { bias: *bias, calls: actual.clone() }, *fanout)), own)
        }
        Op::Join(kind, l, r) => {
            let (Some(a), Some(b)) = (resolve_cls(&pool_now, own, 0, *l), resolve_cls(&pool_now, own, 0, *r)) else {
                return Outcome::Skipped;
            };
            let (Coll::KV(ca), Coll::KV(cb)) = (&a.coll, &b.coll) else { return Outcome::Skipped };
            let made = guarded(|| match kind {
                JK::Inner => Coll::JI(ca.join_inner(cb)),
                JK::Left => Coll::JL(ca.join_left(cb)),
                JK::Right => Coll::JR(ca.join_right(cb)),
                JK::Full => Coll::JF(ca.join_full(cb)),
            });
            match made {
                Ok(coll) => publish(Handle { coll, lin: Arc::new(Lin::Join(*kind, a.lin.clone(), b.lin.clone())), inserted: 2 }, own),
                Err(_) => Outcome::Panicked,
            }
        }
        Op::Collect(r, mode) => {
            let Some(h) = resolve(&pool_now, own, *r) else { return Outcome::Skipped };
            let real = match guarded(|| collect_real(&h, *mode)) {
                Ok(Ok(rows)) => show_rows(rows),
                Ok(Err(e)) => format!("ERR-{}", e.split_whitespace().take(3).collect::<Vec<_>>().join("-")),
                Err(_) => "PANIC".to_string(),
            };
            // the oracle's value: the creation-time lineage alone (also accounts the user-function calls it implies)
            let want = show_rows(eval(&h.lin, true));
            obs.lock().unwrap().push(CollectObs { tid, node: h.id(), real: real.clone(), want });
            Outcome::Collected(h.id(), real)
        }
        Op::SetM => {
            let p = w.pipeline.clone();
            match guarded(move || p.set_metrics(ironbeam::metrics::MetricsCollector::new())) {
                Ok(()) => Outcome::MSet,
                Err(_) => Outcome::Panicked,
            }
        }
        Op::TakeM => {
            let p = w.pipeline.clone();
            match guarded(move || p.take_metrics().is_some()) {
                Ok(b) => Outcome::MTaken(b),
                Err(_) => Outcome::Panicked,
            }
        }
    }
}

// ---------------------------------------------------------------------------------------------
// cooperative scheduler

/// one granted atomic step: who, through which lock site, and the real graph size right after it
struct Step { tid: usize, site: &'static str, nodes: usize, edges: usize }
struct St { parked: Vec<Option<&'static str>>, done: Vec<bool>, grant: Option<usize> }
struct Sched { m: Mutex<St>, cv: Condvar }

thread_local! {
    static CUR: RefCell<Option<(Arc<Sched>, usize)>> = const { RefCell::new(None) };
}

fn yield_here(site: &'static str) {
    // only the pipeline's own lock sites (and the harness' `begin`) are scheduling points of this model
    if site != "begin" && !site.starts_with("pipeline:") { return; }
    let cur = CUR.with(|c| c.borrow().clone());
    if let Some((s, t)) = cur { s.park(t, site); }
}

impl Sched {
    fn new(n: usize) -> Arc<Sched> {
        Arc::new(Sched { m: Mutex::new(St { parked: vec![None; n], done: vec![false; n], grant: None }), cv: Condvar::new() })
    }
    fn park(&self, t: usize, site: &'static str) {
        let mut g = self.m.lock().unwrap();
        g.parked[t] = Some(site);
        self.cv.notify_all();
        while g.grant != Some(t) { g = self.cv.wait(g).unwrap(); }
        g.grant = None;
        g.parked[t] = None;
    }
    fn finish(&self, t: usize) {
        let mut g = self.m.lock().unwrap();
        g.done[t] = true;
        self.cv.notify_all();
    }
    /// follow `plan` (entries of finished threads are skipped; afterwards lowest live thread first);
    /// returns the linearisation that actually happened, or None on a hang
    fn drive(&self, plan: &[usize], probe: &dyn Fn() -> (usize, usize)) -> Option<Vec<Step>> {
        let mut trace: Vec<Step> = vec![];
        let mut pos = 0;
        loop {
            let mut g = self.m.lock().unwrap();
            let quiescent = |g: &St| g.grant.is_none() && (0..g.done.len()).all(|t| g.done[t] || g.parked[t].is_some());
            while !quiescent(&g) {
                let (g2, to) = self.cv.wait_timeout(g, Duration::from_secs(20)).unwrap();
                g = g2;
                if to.timed_out() && !quiescent(&g) { return None; }
            }
            // everybody is parked or done: nobody holds the pipeline lock; look at what the last step did
            if let Some(last) = trace.last_mut() { let (n, e) = probe(); last.nodes = n; last.edges = e; }
            if g.done.iter().all(|d| *d) { return Some(trace); }
            while pos < plan.len() && g.done[plan[pos]] { pos += 1; }
            let t = if pos < plan.len() { pos += 1; plan[pos - 1] } else { (0..g.done.len()).find(|t| !g.done[*t]).unwrap() };
            trace.push(Step { tid: t, site: g.parked[t].unwrap(), nodes: 0, edges: 0 });
            g.grant = Some(t);
            self.cv.notify_all();
        }
    }
}

fn site_code(s: &str) -> char {
    match s {
        "begin" => 'b',
        "pipeline:insert_node" => 'i',
        "pipeline:connect" => 'c',
        "pipeline:snapshot" => 's',
        "pipeline:record_metrics_start" => 'm',
        "pipeline:record_metrics_end" => 'e',
        "pipeline:set_metrics" => 'M',
        "pipeline:take_metrics" => 'K',
        _ => '?',
    }
}

// ---------------------------------------------------------------------------------------------
// one history

struct HistoryResult {
    trace: Option<Vec<Step>>, // None = hang (scheduled mode only)
    outs: Vec<Vec<Outcome>>,
    obs: Vec<CollectObs>,
    world: Arc<World>,
}

/// run `progs` on fresh real threads sharing a fresh pipeline; `plan = Some(schedule)`: cooperative,
/// `None`: free-running (truly concurrent, started together)
fn run_history(progs: &[Vec<Op>], plan: Option<&[usize]>) -> HistoryResult {
    let n = progs.len();
    let world = Arc::new(World { pipeline: Pipeline::default(), pool: Mutex::new(vec![]), closures: Mutex::new(vec![]) });
    let sched = Sched::new(n);
    let obs = Arc::new(Mutex::new(Vec::<CollectObs>::new()));
    let outs = Arc::new(Mutex::new(vec![Vec::<Outcome>::new(); n]));
    let start = Arc::new(std::sync::Barrier::new(n));
    let scheduled = plan.is_some();
    let mut joins = vec![];
    for (t, prog) in progs.iter().enumerate() {
        let (world, sched, obs, outs, prog, start) = (world.clone(), sched.clone(), obs.clone(), outs.clone(), prog.clone(), start.clone());
        joins.push(std::thread::spawn(move || {
            struct Fin(Arc<Sched>, usize);
            impl Drop for Fin { fn drop(&mut self) { CUR.with(|c| *c.borrow_mut() = None); self.0.finish(self.1); } }
            let _fin = Fin(sched.clone(), t);
            if scheduled { CUR.with(|c| *c.borrow_mut() = Some((sched.clone(), t))); } else { start.wait(); }
            let mut own: Vec<Handle> = vec![];
            for op in &prog {
                yield_here("begin");
                let o = exec_op(&world, &mut own, op, t, &obs);
                outs.lock().unwrap()[t].push(o);
            }
        }));
    }
    let probe = || { let (n, e) = world.pipeline.snapshot(); (n.len(), e.len()) };
    let trace = match plan { Some(p) => sched.drive(p, &probe), None => Some(vec![]) };
    if trace.is_some() { for j in joins { let _ = j.join(); } }
    let outs = outs.lock().unwrap().clone();
    let obs = std::mem::take(&mut *obs.lock().unwrap());
    HistoryResult { trace, outs, obs, world }
}

struct Snap { ids: Vec<u64>, kinds: Vec<char>, edges: Vec<(u64, u64)> }

fn snap(p: &Pipeline) -> Snap {
    let (nodes, edges) = p.snapshot();
    let mut v: Vec<(u64, char)> = nodes
        .iter()
        .map(|(id, n)| (id.raw(), match n {
            Node::Source { .. } => 'S', Node::Stateless(_) => 'T', Node::CoGroup { .. } => 'G',
            Node::GroupByKey { .. } => 'K', Node::CombineValues { .. } => 'V', Node::CombineGlobal { .. } => 'A', _ => 'O',
        }))
        .collect();
    v.sort();
    Snap { ids: v.iter().map(|x| x.0).collect(), kinds: v.iter().map(|x| x.1).collect(), edges: edges.iter().map(|(a, b)| (a.raw(), b.raw())).collect() }
}

fn dash(v: Vec<String>) -> String { if v.is_empty() { "-".into() } else { v.join(",") } }

/// the graph facts the property states, evaluated on the real snapshot: one node per insert with pairwise
/// distinct ids (none lost/overwritten), edges between existing distinct nodes, in-degree <= 1
fn graph_ok(s: &Snap, inserts: usize) -> Result<(), String> {
    let mut ids = s.ids.clone();
    ids.dedup();
    if ids.len() != s.ids.len() || ids.len() != inserts {
        return Err(format!("{} nodes with ids {:?} after {inserts} inserts (ids must be pairwise distinct, none lost)", s.ids.len(), s.ids));
    }
    for (f, t) in &s.edges {
        if f == t || ids.binary_search(f).is_err() || ids.binary_search(t).is_err() {
            return Err(format!("edge {f}->{t} does not join two existing distinct nodes"));
        }
    }
    let mut tos: Vec<u64> = s.edges.iter().map(|e| e.1).collect();
    tos.sort();
    if tos.windows(2).any(|w| w[0] == w[1]) { return Err("a node has two incoming edges".into()); }
    Ok(())
}

/// oracle checks shared by the scheduled and the free-running mode
fn check_oracle(cx: &mut Ctx, i: usize, res: &HistoryResult, s: &Snap) {
    // node ids: one per insert, pairwise distinct
    let mut inserts = 0usize;
    let mut built: Vec<u64> = vec![];
    let mut panics = 0;
    for o in res.outs.iter().flatten() {
        match o { Outcome::Built(id) => built.push(*id), Outcome::Panicked => panics += 1, _ => {} }
    }
    for h in res.world.pool.lock().unwrap().iter() {
        inserts += h.inserted;
    }
    if panics > 0 { cx.oracle_fail(i, "operation-panicked", format!("{panics} operations panicked")); }
    let mut b2 = built.clone();
    b2.sort();
    b2.dedup();
    if b2.len() != built.len() { cx.oracle_fail(i, "node-ids-not-distinct", format!("handles returned by builders share an id: {built:?}")); }
    if panics == 0 {
        if let Err(e) = graph_ok(s, inserts) { cx.oracle_fail(i, "graph-invariant-broken", e); }
    }
    // every collect equals the value of its creation-time lineage
    for o in &res.obs {
        if o.real != o.want {
            cx.oracle_fail(i, "collect-differs-from-lineage", format!("thread {} collect of node {}: got {} want {}", o.tid, o.node, o.real, o.want));
            break;
        }
    }
    // laziness / no interference: each user function (closure, CombineFn::add_input) was called exactly as
    // often as the collects containing it imply
    let mut total_calls = 0;
    for l in res.world.closures.lock().unwrap().iter() {
        if let Some((cnt, what)) = l.cnt() {
            let (a, e) = (cnt.actual.load(Ordering::SeqCst), cnt.expected.load(Ordering::SeqCst));
            total_calls += a;
            if a != e {
                let sig = if res.obs.is_empty() { "user-code-ran-while-building" } else { "closure-calls-differ-from-lineage" };
                cx.oracle_fail(i, sig, format!("{what}: called {a} times, its collects imply {e}"));
                break;
            }
        }
    }
    if res.obs.is_empty() { cx.count("history:build-only(0 closure calls required)"); }
    cx.count_n("closure calls observed", total_calls);
}

fn total_calls(res: &HistoryResult) -> u64 {
    res.world.closures.lock().unwrap().iter().filter_map(|l| l.cnt().map(|(c, _)| c.actual.load(Ordering::SeqCst))).sum()
}

fn one_scheduled(cx: &mut Ctx, progs: &[Vec<Op>], plan: &[usize], tag: &str) {
    let res = run_history(progs, Some(plan));
    let n = progs.len();
    let Some(trace) = res.trace.as_ref() else {
        let req = format!("GRAPH {n} {} {}", progs.iter().map(|p| enc_prog(p)).collect::<Vec<_>>().join(" "),
            plan.iter().map(|t| t.to_string()).collect::<String>());
        let i = cx.case(req, "HANG".into(), true);
        cx.oracle_fail(i, "hang", "a thread never reached its next yield point".into());
        return;
    };
    let s = snap(&res.world.pipeline);
    let sched_s: String = if trace.is_empty() { "-".into() } else { trace.iter().map(|st| st.tid.to_string()).collect() };
    let trace_s: String = if trace.is_empty() { "-".into() } else { trace.iter().map(|st| format!("{}{}{}.{}", st.tid, site_code(st.site), st.nodes, st.edges)).collect() };
    let req = format!("GRAPH {n} {} {sched_s}", progs.iter().map(|p| enc_prog(p)).collect::<Vec<_>>().join(" "));
    let mut real = format!(
        "n={} N={} E={} T={trace_s} U={}",
        s.ids.len(),
        dash(s.ids.iter().zip(&s.kinds).map(|(i, k)| format!("{i}:{k}")).collect()),
        dash(s.edges.iter().map(|(a, b)| format!("{a}-{b}")).collect()),
        total_calls(&res)
    );
    for (t, o) in res.outs.iter().enumerate() {
        real.push_str(&format!(" t{t}={}", dash(o.iter().map(show_outcome).collect())));
    }
    let collects = res.obs.len();
    let i = cx.case(req, real, n >= 2 && trace.len() >= 4);
    cx.count(&format!("{tag}:threads={n}"));
    cx.count_n(&format!("{tag}:atomic steps"), trace.len() as u64);
    cx.count_n(&format!("{tag}:collects"), collects as u64);
    let mut switches = 0;
    for w in trace.windows(2) { if w[0].tid != w[1].tid { switches += 1; } }
    cx.count_n(&format!("{tag}:context switches"), switches);
    check_oracle(cx, i, &res, &s);
    // set/take_metrics are linearisable: replaying the real lock-site trace, every take_metrics returns
    // Some exactly when a set_metrics was the last metrics write before it
    let mut has = false;
    let mut expect: Vec<Vec<bool>> = vec![vec![]; n];
    for st in trace {
        match site_code(st.site) { 'M' => has = true, 'K' => { expect[st.tid].push(has); has = false; } _ => {} }
    }
    for (t, o) in res.outs.iter().enumerate() {
        let got: Vec<bool> = o.iter().filter_map(|x| if let Outcome::MTaken(b) = x { Some(*b) } else { None }).collect();
        if got != expect[t] {
            cx.oracle_fail(i, "take-metrics-not-linearisable", format!("thread {t}: take_metrics returned Some = {got:?}, the order of the critical sections implies {:?}", expect[t]));
            break;
        }
    }
}

fn one_free(cx: &mut Ctx, progs: &[Vec<Op>]) {
    let res = run_history(progs, None);
    let s = snap(&res.world.pipeline);
    let mut inserts = 0usize;
    for h in res.world.pool.lock().unwrap().iter() { inserts += h.inserted; }
    // next_id is not observable; the model is asked whether the snapshot is a legal graph with `inserts` nodes
    let real = if graph_ok(&s, inserts).is_ok() { "T" } else { "F" };
    let req = format!("GINV {inserts} {} {}", dash(s.ids.iter().map(|x| x.to_string()).collect()),
        dash(s.edges.iter().map(|(a, b)| format!("{a}-{b}")).collect()));
    let i = cx.case(req, real.into(), true);
    cx.count(&format!("free-running:threads={}", progs.len()));
    cx.count_n("free-running:collects", res.obs.len() as u64);
    check_oracle(cx, i, &res, &s);
}

// ---------------------------------------------------------------------------------------------
// generators

fn gen_rows(cx: &mut Ctx) -> Vec<(i64, i64)> {
    let n = *cx.rng.pick(&[0usize, 1, 2, 3, 4, 6]);
    (0..n).map(|_| (cx.rng.range(0, 2), cx.rng.range(-4, 9))).collect()
}
fn gen_ref(cx: &mut Ctx) -> Ref {
    let k = cx.rng.below(4);
    match cx.rng.below(5) { 0 | 1 => Ref::Front(k), 2 | 3 => Ref::Back(k), _ => Ref::Mine(k) }
}
fn gen_f(cx: &mut Ctx) -> F {
    match cx.rng.below(6) {
        0 | 1 => F::Add(cx.rng.range(-3, 5)),
        2 => F::Mul(*cx.rng.pick(&[2i64, 3, -1])),
        3 => F::Rekey(cx.rng.range(1, 3)),
        _ => { let m = cx.rng.range(2, 3); F::Drop(m, cx.rng.range(0, m - 1)) }
    }
}
fn gen_jk(cx: &mut Ctx) -> JK { *cx.rng.pick(&[JK::Inner, JK::Left, JK::Right, JK::Full]) }
fn gen_op(cx: &mut Ctx) -> Op {
    match cx.rng.below(20) {
        0 | 1 => Op::Source(gen_rows(cx)),
        2..=5 => Op::Derive(gen_ref(cx), gen_f(cx)),
        6 => Op::Group(gen_ref(cx)),
        7 | 8 => Op::CombV(gen_ref(cx), cx.rng.range(-1, 2)),
        9 => Op::CombL(gen_ref(cx), cx.rng.range(-1, 2)),
        10 => { let r = gen_ref(cx); let b = cx.rng.range(-1, 2); Op::CombG(r, b, *cx.rng.pick(&[None, Some(0), Some(1), Some(2), Some(3)])) }
        11..=13 => { let k = gen_jk(cx); Op::Join(k, gen_ref(cx), gen_ref(cx)) }
        14 => if cx.rng.chance(1, 2) { Op::SetM } else { Op::TakeM },
        _ => { let r = gen_ref(cx); let m = if cx.rng.chance(1, 3) { Some(1 + cx.rng.below(3)) } else { None }; Op::Collect(r, m) }
    }
}

/// all interleavings of two threads with `a` and `b` steps, after `pre` steps of thread 0
fn interleavings(pre: usize, a: usize, b: usize) -> Vec<Vec<usize>> {
    fn go(a: usize, b: usize, cur: &mut Vec<usize>, out: &mut Vec<Vec<usize>>) {
        if a == 0 && b == 0 { out.push(cur.clone()); return; }
        if a > 0 { cur.push(1); go(a - 1, b, cur, out); cur.pop(); }
        if b > 0 { cur.push(2); go(a, b - 1, cur, out); cur.pop(); }
    }
    let mut out = vec![];
    let mut cur = vec![0; pre];
    go(a, b, &mut cur, &mut out);
    out
}
fn binom(n: usize, k: usize) -> usize {
    let mut r = 1usize;
    for i in 0..k.min(n - k) { r = r * (n - i) / (i + 1); }
    r
}

/// DEPENDENCE of two atomic steps of different threads, from what each critical section reads/writes:
/// insert_node R/W next_id + W nodes; connect W edges; snapshot R nodes + edges; record_metrics_* R metrics;
/// set/take_metrics W metrics; `begin` (harness) R pool; a builder's last step (I, c) W pool (publication).
/// Two steps that are not dependent commute: swapping them when adjacent gives the same final state and the
/// same results (every ordered pair of operations — hence of step kinds — is also run under ALL
/// interleavings in the 1x1 block, where that is observed rather than assumed).
fn dependent(x: u8, y: u8) -> bool {
    let ins = |c: u8| c == b'i' || c == b'I';
    let publ = |c: u8| c == b'I' || c == b'c';
    let met_w = |c: u8| c == b'M' || c == b'K';
    let met = |c: u8| met_w(c) || c == b'm' || c == b'e';
    (ins(x) && ins(y))
        || (ins(x) && y == b's') || (x == b's' && ins(y))
        || (x == b'c' && y == b'c')
        || (x == b'c' && y == b's') || (x == b's' && y == b'c')
        || (publ(x) && publ(y))
        || (publ(x) && y == b'b') || (x == b'b' && publ(y))
        || (met_w(x) && met(y)) || (met(x) && met_w(y))
}

/// one schedule per Mazurkiewicz trace of two threads whose step kinds are `a` and `b` (sleep-set
/// enumeration: a complete schedule is emitted iff no equivalent one was emitted before), after `pre` steps of thread 0
fn trace_representatives(pre: usize, a: &[u8], b: &[u8]) -> Vec<Vec<usize>> {
    fn go(a: &[u8], b: &[u8], i: usize, j: usize, sleep: [bool; 2], cur: &mut Vec<usize>, out: &mut Vec<Vec<usize>>) {
        if i == a.len() && j == b.len() { out.push(cur.clone()); return; }
        let next = |t: usize| -> Option<u8> { if t == 0 { a.get(i).copied() } else { b.get(j).copied() } };
        let mut done = [false; 2];
        for t in 0..2 {
            let Some(st) = next(t) else { continue };
            if sleep[t] { continue; }
            let mut ns = [false; 2];
            for u in 0..2 {
                if u == t || !(sleep[u] || done[u]) { continue; }
                if let Some(su) = next(u) { if !dependent(st, su) { ns[u] = true; } }
            }
            cur.push(t + 1);
            go(a, b, i + (t == 0) as usize, j + (t == 1) as usize, ns, cur, out);
            cur.pop();
            done[t] = true;
        }
    }
    let mut out = vec![];
    let mut cur = vec![0; pre];
    go(a, b, 0, 0, [false; 2], &mut cur, &mut out);
    out
}

/// all programs of 1..=max operations over `alpha`
fn programs(alpha: &[Op], max: usize) -> Vec<Vec<Op>> {
    let mut out: Vec<Vec<Op>> = vec![];
    let mut layer: Vec<Vec<Op>> = vec![vec![]];
    for _ in 0..max {
        let mut next = vec![];
        for p in &layer { for o in alpha { let mut q = p.clone(); q.push(o.clone()); next.push(q); } }
        out.extend(next.iter().cloned());
        layer = next;
    }
    out
}

fn src(rows: &[(i64, i64)]) -> Op { Op::Source(rows.to_vec()) }

pub fn run(cx: &mut Ctx) {
    ironbeam::verif_hooks::set_yield_callback(Some(Arc::new(|site| yield_here(site))));
    let deep = cx.tier != Tier::Quick;
    let base = vec![(0i64, 1i64), (1, 2), (0, 3), (1, 4), (2, 5), (2, 6)];
    // pool after the prefix: 0 = source (k,v) with keys 0,1,2 (two rows each), 1 = map of it that re-keys into {0,1}
    // (so key 2 is unmatched, twice, in every join of the two), 2 = group_by_key of the source (k,Vec v)
    let prefix = vec![src(&base), Op::Derive(Ref::Front(0), F::Rekey(2)), Op::Group(Ref::Front(0))];
    let pre_steps = prog_steps(&prefix);

    // (1) corpus / design witnesses: sequential re-collection, ancestors after descendants, siblings
    {
        let p0 = vec![
            src(&base), Op::Derive(Ref::Front(0), F::Mul(2)), Op::Collect(Ref::Front(0), None),
            Op::Derive(Ref::Front(0), F::Drop(2, 0)), Op::Collect(Ref::Front(0), Some(2)), Op::Collect(Ref::Front(1), None),
            Op::Join(JK::Inner, Ref::Front(1), Ref::Front(2)), Op::Collect(Ref::Back(0), None), Op::Collect(Ref::Front(0), None),
            Op::Collect(Ref::Back(0), Some(3)), Op::Source(vec![(0, 9)]), Op::Collect(Ref::Front(2), None),
        ];
        let plan = vec![0; prog_steps(&p0)];
        one_scheduled(cx, &[p0], &plan, "corpus");
        // a collect of the parent racing with a sibling's insert/connect, strictly alternating
        let a = vec![Op::Derive(Ref::Front(0), F::Mul(3)), Op::Collect(Ref::Mine(0), None)];
        let b = vec![Op::Collect(Ref::Front(0), None), Op::Collect(Ref::Front(1), Some(2))];
        let mut plan = vec![0; pre_steps];
        for _ in 0..8 { plan.push(1); plan.push(2); }
        one_scheduled(cx, &[prefix.clone(), a, b], &plan, "corpus");
        // empty source, join with itself
        let p1 = vec![Op::Source(vec![]), Op::Join(JK::Inner, Ref::Front(0), Ref::Front(0)), Op::Collect(Ref::Back(0), None), Op::Collect(Ref::Front(0), None)];
        let plan = vec![0; prog_steps(&p1)];
        one_scheduled(cx, &[p1], &plan, "corpus");
        // barriers in the middle of lineages: sibling per-key / global / lifted combines of one source, each
        // collected in both modes, interleaved with collects of the ancestors; the four join kinds over
        // lineages that contain barriers; everything collected twice
        let p2 = vec![
            src(&[(0, 1), (1, 2), (0, 3), (2, 5)]), Op::CombV(Ref::Front(0), 1), Op::CombV(Ref::Front(0), 2),
            Op::Collect(Ref::Front(1), None), Op::Collect(Ref::Front(2), Some(2)), Op::Collect(Ref::Front(1), Some(3)),
            Op::Group(Ref::Front(0)), Op::CombL(Ref::Back(0), 5), Op::Collect(Ref::Back(0), None), Op::Collect(Ref::Back(1), Some(2)),
            Op::CombG(Ref::Front(1), 7, Some(2)), Op::Collect(Ref::Back(0), Some(4)), Op::Collect(Ref::Front(2), None),
            Op::Derive(Ref::Back(0), F::Mul(3)), Op::Source(vec![(1, 10), (3, 30)]),
            Op::Join(JK::Left, Ref::Front(1), Ref::Back(0)), Op::Join(JK::Right, Ref::Front(2), Ref::Back(0)),
            Op::Join(JK::Full, Ref::Back(1), Ref::Back(0)), Op::Join(JK::Inner, Ref::Front(1), Ref::Front(2)),
            Op::Collect(Ref::Back(0), None), Op::Collect(Ref::Back(1), Some(2)), Op::Collect(Ref::Back(2), None), Op::Collect(Ref::Back(3), Some(3)),
            Op::Derive(Ref::Back(1), F::Rekey(2)), Op::Collect(Ref::Back(0), None), Op::Collect(Ref::Back(2), None),
            Op::Collect(Ref::Front(1), None), Op::Collect(Ref::Front(0), Some(2)),
        ];
        let plan = vec![0; prog_steps(&p2)];
        one_scheduled(cx, &[p2], &plan, "corpus");
        // joins whose operands' lineages contain group_by_key + lifted combine / a global combine (the captured
        // sub-chains run without the planner's lifting pass), in both modes, twice
        let p2 = vec![
            src(&[(0, 1), (1, 2), (0, 3), (2, 5)]), Op::Group(Ref::Front(0)), Op::CombL(Ref::Back(0), 1),
            Op::CombG(Ref::Front(0), 2, Some(2)), Op::Derive(Ref::Front(1), F::Rekey(1)), Op::CombL(Ref::Back(0), 4),
            Op::Join(JK::Left, Ref::Front(1), Ref::Front(2)), Op::Join(JK::Full, Ref::Front(2), Ref::Back(0)),
            Op::Join(JK::Right, Ref::Back(0), Ref::Front(1)), Op::Join(JK::Inner, Ref::Front(0), Ref::Front(1)),
            Op::Collect(Ref::Back(0), None), Op::Collect(Ref::Back(1), Some(2)), Op::Collect(Ref::Back(2), None), Op::Collect(Ref::Back(3), Some(3)),
            Op::Collect(Ref::Back(3), None), Op::Collect(Ref::Back(2), Some(2)), Op::Collect(Ref::Back(4), None), Op::Collect(Ref::Back(4), Some(2)),
            Op::Collect(Ref::Front(2), None), Op::Collect(Ref::Front(3), None), Op::Collect(Ref::Front(2), Some(2)),
        ];
        let plan = vec![0; prog_steps(&p2)];
        one_scheduled(cx, &[p2], &plan, "corpus");
        // the four join kinds with repeated unmatched keys on both sides, each collected in both modes
        let p3 = vec![
            src(&[(0, 1), (0, 2), (1, 3), (1, 4), (2, 5)]), src(&[(1, 10), (1, 11), (3, 30), (3, 31), (2, 20)]),
            Op::Join(JK::Inner, Ref::Front(0), Ref::Front(1)), Op::Join(JK::Left, Ref::Front(0), Ref::Front(1)),
            Op::Join(JK::Right, Ref::Front(0), Ref::Front(1)), Op::Join(JK::Full, Ref::Front(0), Ref::Front(1)),
            Op::Collect(Ref::Front(2), None), Op::Collect(Ref::Front(3), None), Op::Collect(Ref::Front(4), None), Op::Collect(Ref::Front(5), None),
            Op::Collect(Ref::Front(2), Some(2)), Op::Collect(Ref::Front(3), Some(3)), Op::Collect(Ref::Front(4), Some(2)), Op::Collect(Ref::Front(5), Some(4)),
            Op::Derive(Ref::Front(4), F::Add(1)), Op::Derive(Ref::Front(5), F::Drop(2, 0)), Op::Collect(Ref::Back(0), None), Op::Collect(Ref::Back(1), None),
        ];
        let plan = vec![0; prog_steps(&p3)];
        one_scheduled(cx, &[p3], &plan, "corpus");
        // set/take_metrics racing a collect, strictly alternating, then the other way round
        let a = vec![Op::SetM, Op::Collect(Ref::Front(1), None), Op::TakeM, Op::TakeM];
        let b = vec![Op::Collect(Ref::Front(0), Some(2)), Op::SetM, Op::Collect(Ref::Front(2), None)];
        for first in [1usize, 2] {
            let mut plan = vec![0; pre_steps];
            for _ in 0..12 { plan.push(first); plan.push(3 - first); }
            one_scheduled(cx, &[prefix.clone(), a.clone(), b.clone()], &plan, "corpus");
        }
    }

    // (2a) exhaustive small scope: for every ordered pair of single operations from the alphabet (thread 1
    //      runs the first, thread 2 the second, after the 3-operation prefix), ALL interleavings of their
    //      atomic steps (no reduction).
    let mut alpha: Vec<Op> = vec![
        Op::Source(vec![(0, 7), (1, 8)]),
        Op::Derive(Ref::Front(0), F::Mul(2)),
        Op::Group(Ref::Front(1)),
        Op::CombV(Ref::Front(0), 1),
        Op::CombL(Ref::Back(0), 2),
        Op::CombG(Ref::Back(1), 3, Some(2)),
        Op::Join(JK::Inner, Ref::Front(0), Ref::Back(0)),
        Op::Join(JK::Full, Ref::Back(0), Ref::Front(0)),
        Op::Collect(Ref::Front(0), None),
        Op::Collect(Ref::Back(0), Some(2)),
        Op::SetM,
        Op::TakeM,
    ];
    if deep {
        alpha.extend([
            Op::Join(JK::Left, Ref::Front(1), Ref::Back(0)),
            Op::Join(JK::Right, Ref::Back(0), Ref::Back(1)),
        ]);
    }
    let mut n_sched = 0usize;
    for a in &alpha {
        for b in &alpha {
            for plan in interleavings(pre_steps, op_steps(a), op_steps(b)) {
                one_scheduled(cx, &[prefix.clone(), vec![a.clone()], vec![b.clone()]], &plan, "exhaustive-1x1");
                n_sched += 1;
            }
        }
    }
    cx.exhaustive_blocks.push(format!(
        "2 worker threads x 1 operation each: all {} ordered pairs over a {}-operation alphabet ({}) after a 3-operation prefix (source, map, group_by_key), ALL interleavings of their lock-granular steps ({n_sched} schedules)",
        alpha.len() * alpha.len(), alpha.len(), alpha.iter().map(enc_op).collect::<Vec<_>>().join(" ")));

    // (2b) 2 worker threads x up to 3 operations each (quick tier: up to 2): for EVERY ordered pair of programs
    //      over a per-thread alphabet, one schedule of EVERY Mazurkiewicz trace (every interleaving is
    //      equivalent, by swapping adjacent independent steps — see `dependent` — to exactly one of them).
    let max_ops = if deep { 3 } else { 2 };
    let configs: Vec<(&str, Vec<Op>, Vec<Op>, usize)> = vec![
        ("sibling barrier vs chain", vec![Op::CombV(Ref::Front(0), 1), Op::Collect(Ref::Mine(0), None)],
            vec![Op::Derive(Ref::Mine(0), F::Add(2)), Op::Collect(Ref::Mine(0), Some(2))], max_ops),
        ("group vs global combine", vec![Op::Group(Ref::Front(0)), Op::Collect(Ref::Back(0), None)],
            vec![Op::CombG(Ref::Front(1), 2, Some(2)), Op::Collect(Ref::Front(0), None)], max_ops),
        ("lifted combine vs per-key combine", vec![Op::CombL(Ref::Front(0), 1), Op::Collect(Ref::Mine(0), Some(3))],
            vec![Op::CombV(Ref::Back(0), 2), Op::Collect(Ref::Back(0), None)], 2),
        ("metrics vs collect", vec![Op::SetM, Op::TakeM, Op::Collect(Ref::Front(1), None)],
            vec![Op::Collect(Ref::Front(0), Some(2)), Op::TakeM], max_ops),
        ("join vs join", vec![Op::Join(JK::Left, Ref::Front(0), Ref::Mine(0)), Op::Collect(Ref::Mine(0), None)],
            vec![Op::Join(JK::Full, Ref::Mine(0), Ref::Front(1)), Op::Collect(Ref::Back(0), None)], if deep { 2 } else { 1 }),
        ("join over barriers vs chain", vec![Op::Join(JK::Right, Ref::Front(1), Ref::Front(0)), Op::CombV(Ref::Front(1), 1), Op::Collect(Ref::Mine(0), None)],
            vec![Op::Derive(Ref::Mine(0), F::Mul(2)), Op::Collect(Ref::Back(0), None)], if deep { 2 } else { 1 }),
    ];
    for (name, al1, al2, max) in &configs {
        let (p1s, p2s) = (programs(al1, *max), programs(al2, *max));
        let (mut n_tr, mut n_full) = (0usize, 0u128);
        for p1 in &p1s {
            for p2 in &p2s {
                let (k1, k2) = (prog_kinds(p1), prog_kinds(p2));
                n_full += binom(k1.len() + k2.len(), k1.len()) as u128;
                for plan in trace_representatives(pre_steps, &k1, &k2) {
                    one_scheduled(cx, &[prefix.clone(), p1.clone(), p2.clone()], &plan, "exhaustive-2xN");
                    n_tr += 1;
                }
            }
        }
        cx.exhaustive_blocks.push(format!(
            "2 worker threads x 1..{max} operations each ({name}): thread 1 over {{{}}}, thread 2 over {{{}}}, all {} ordered pairs of programs, one schedule per Mazurkiewicz trace = every interleaving up to swaps of independent steps ({n_tr} schedules standing for {n_full} interleavings)",
            al1.iter().map(enc_op).collect::<Vec<_>>().join(" "), al2.iter().map(enc_op).collect::<Vec<_>>().join(" "), p1s.len() * p2s.len()));
    }

    // (2c) selected multi-operation pairs, all interleavings (up to a cap), no reduction
    let multi: Vec<(Vec<Op>, Vec<Op>)> = vec![
        (vec![Op::Derive(Ref::Front(0), F::Mul(2)), Op::Collect(Ref::Mine(0), None)], vec![Op::Derive(Ref::Back(0), F::Add(5))]),
        (vec![Op::Derive(Ref::Front(0), F::Mul(2)), Op::Collect(Ref::Front(0), None)], vec![Op::Collect(Ref::Front(0), Some(2))]),
        (vec![Op::Join(JK::Inner, Ref::Front(0), Ref::Front(1)), Op::Collect(Ref::Mine(0), None)], vec![Op::Derive(Ref::Front(1), F::Rekey(2))]),
        (vec![Op::Source(vec![(1, 1)]), Op::Collect(Ref::Back(0), None)], vec![Op::Derive(Ref::Back(0), F::Drop(2, 1)), Op::Collect(Ref::Mine(0), None)]),
        (vec![Op::Derive(Ref::Front(0), F::Add(2)), Op::Derive(Ref::Mine(0), F::Mul(3)), Op::Collect(Ref::Mine(1), None)], vec![Op::Collect(Ref::Back(0), None)]),
        (vec![Op::Join(JK::Left, Ref::Front(0), Ref::Back(0))], vec![Op::Join(JK::Right, Ref::Back(0), Ref::Front(0))]),
        (vec![Op::CombV(Ref::Front(0), 2), Op::Collect(Ref::Mine(0), None)], vec![Op::CombG(Ref::Front(0), 3, None), Op::Collect(Ref::Mine(0), None)]),
        (vec![Op::Derive(Ref::Front(0), F::Mul(2)), Op::CombV(Ref::Mine(0), 1), Op::Collect(Ref::Mine(0), None)],
         vec![Op::Derive(Ref::Back(0), F::Add(3)), Op::Join(JK::Full, Ref::Front(0), Ref::Mine(0)), Op::Collect(Ref::Front(1), None)]),
    ];
    let cap = cx.budget(400, 4000);
    let mut n_multi = 0usize;
    let mut capped = 0usize;
    for (a, b) in &multi {
        let (sa, sb) = (prog_steps(a), prog_steps(b));
        let total = binom(sa + sb, sa);
        if total <= cap {
            for plan in interleavings(pre_steps, sa, sb) {
                one_scheduled(cx, &[prefix.clone(), a.clone(), b.clone()], &plan, "exhaustive-multi");
                n_multi += 1;
            }
        } else {
            capped += 1;
            for _ in 0..cap {
                let mut plan = vec![0; pre_steps];
                let (mut ra, mut rb) = (sa, sb);
                while ra + rb > 0 {
                    if cx.rng.below(ra + rb) < ra { plan.push(1); ra -= 1; } else { plan.push(2); rb -= 1; }
                }
                one_scheduled(cx, &[prefix.clone(), a.clone(), b.clone()], &plan, "sampled-multi");
            }
        }
    }
    cx.exhaustive_blocks.push(format!(
        "{} hand-picked pairs of 1-3-operation programs: ALL interleavings where there are at most {cap} ({n_multi} schedules); {capped} larger pairs sampled uniformly ({cap} schedules each)",
        multi.len()));

    // (3) random: 2..4 worker threads x <= 6 operations, random schedules with varying burstiness
    let rounds = cx.budget(400, 8000);
    for _ in 0..rounds {
        let workers = 2 + cx.rng.below(3);
        let mut progs = vec![];
        let mut pre = vec![Op::Source(gen_rows(cx))];
        if cx.rng.chance(1, 3) { pre.push(Op::SetM); }
        for _ in 0..cx.rng.below(3) { pre.push(gen_op(cx)); }
        progs.push(pre);
        for _ in 0..workers {
            let len = 1 + cx.rng.below(6);
            progs.push((0..len).map(|_| gen_op(cx)).collect::<Vec<_>>());
        }
        let mut remaining: Vec<usize> = progs.iter().map(|p| prog_steps(p)).collect();
        let mut plan = vec![];
        let interleave_prefix = cx.rng.chance(1, 5);
        if !interleave_prefix { plan.extend(std::iter::repeat(0).take(remaining[0])); remaining[0] = 0; }
        let stick = cx.rng.below(4); // 0 = switch at every step with high probability … 3 = long bursts
        let mut cur = 1;
        while remaining.iter().sum::<usize>() > 0 {
            if remaining[cur % progs.len()] == 0 || cx.rng.below(stick + 1) == 0 {
                let live: Vec<usize> = (0..progs.len()).filter(|t| remaining[*t] > 0).collect();
                cur = *cx.rng.pick(&live);
            }
            let t = cur % progs.len();
            plan.push(t);
            remaining[t] -= 1;
        }
        one_scheduled(cx, &progs, &plan, "random");
    }

    // (4) free-running: no scheduler, real concurrency (what the cooperative runs cannot show: a critical
    //     section that was split in two). Many short builders racing, then collects.
    ironbeam::verif_hooks::set_yield_callback(None);
    let rounds = cx.budget(60, 1200);
    for r in 0..rounds {
        let workers = 2 + cx.rng.below(3);
        let mut progs = vec![];
        for _ in 0..workers {
            let mut p = vec![Op::Source(gen_rows(cx))];
            let len = if r % 3 == 0 { 40 } else { 6 + cx.rng.below(10) };
            for _ in 0..len {
                p.push(match cx.rng.below(16) {
                    0 | 1 => Op::Source(gen_rows(cx)),
                    2..=6 => Op::Derive(gen_ref(cx), F::Add(cx.rng.range(-2, 2))),
                    7 => Op::Group(gen_ref(cx)),
                    8 => Op::CombV(gen_ref(cx), cx.rng.range(-1, 1)),
                    9 => Op::CombL(gen_ref(cx), cx.rng.range(-1, 1)),
                    10 => { let r = gen_ref(cx); Op::CombG(r, 1, *cx.rng.pick(&[None, Some(2)])) }
                    11 | 12 => { let k = gen_jk(cx); Op::Join(k, gen_ref(cx), gen_ref(cx)) }
                    13 => if cx.rng.chance(1, 2) { Op::SetM } else { Op::TakeM },
                    _ => { let r = gen_ref(cx); let m = if cx.rng.chance(1, 4) { Some(2) } else { None }; Op::Collect(r, m) }
                });
            }
            progs.push(p);
        }
        one_free(cx, &progs);
    }
    cx.notes.push("free-running cases are truly concurrent: their request lines (the snapshot) depend on the OS schedule, their verdicts do not".into());
    cx.notes.push("block 2b relies on the stated dependence relation between lock sites (which fields a critical section reads/writes); blocks 2a/2c/3 do not".into());
}
