//! Round 3 (PIPE3b) — pipeline-family extensions that live beside `pipe.rs` (a child module, so the private
//! helpers of `pipe.rs` are visible):
//!
//! * terminals other than the plain collect: `collect_fail_fast`, `collect_seq_sorted`,
//!   `collect_par_sorted(None, Some(n))`, `collect_par_sorted_by_key(None, Some(n))`;
//! * sources other than `from_vec`: `from_iter`, `from_custom_source` with a user `VecOps` whose `len` / `split`
//!   follow a policy (`None`, more / fewer / empty parts, and three contract-VIOLATING policies);
//! * `apply_composite` (a packaged sequence of steps; transparent in the request);
//! * request kind `PIPEX source=<spec> term=<terminal> mode=… canon=… src <rows> ; steps`
//!   (`lean/IbModel/Driver/PipeX.lean`, model `lean/IbModel/Model/ProgramTerm.lean`).

use super::*;
use ironbeam::extensions::CompositeTransform;
use ironbeam::type_token::{Partition, VecOps, vec_ops_for};
use std::any::Any;
use std::marker::PhantomData;
use std::sync::Arc;

/* ---------------------------------------------------------------- apply_composite */

/// a packaged sequence of harness steps; `expand` applies them with the public builders
pub struct Packed(pub Vec<Step>);

fn run_packed(c: Coll, steps: &[Step]) -> Coll {
    let mut c = c;
    for s in steps {
        c = apply_step(c, s);
    }
    c
}

macro_rules! packed_impl {
    ($i:ty, $wrap:path, $o:ty, $unwrap:ident) => {
        impl CompositeTransform<$i, $o> for Packed {
            fn expand(&self, input: PCollection<$i>) -> PCollection<$o> {
                $unwrap(run_packed($wrap(input), &self.0))
            }
        }
    };
}
packed_impl!(V, Coll::T, V, as_t);
packed_impl!(V, Coll::T, (V, V), as_kv);
packed_impl!(V, Coll::T, (V, Vec<V>), as_kg);
packed_impl!((V, V), Coll::KV, V, as_t);
packed_impl!((V, V), Coll::KV, (V, V), as_kv);
packed_impl!((V, V), Coll::KV, (V, Vec<V>), as_kg);
packed_impl!((V, Vec<V>), Coll::KG, V, as_t);
packed_impl!((V, Vec<V>), Coll::KG, (V, V), as_kv);
packed_impl!((V, Vec<V>), Coll::KG, (V, Vec<V>), as_kg);

pub fn apply_composite_step(c: Coll, inner: Vec<Step>) -> Coll {
    let sh_in = match &c { Coll::T(_) => Shape::T, Coll::KV(_) => Shape::KV, Coll::KG(_) => Shape::KG, Coll::R(_) => panic!("harness: composite on R") };
    let sh_out = inner.iter().fold(Some(sh_in), |s, st| s.and_then(|s| shape_after(s, st))).expect("harness: ill-shaped composite");
    let t = Packed(inner);
    match (c, sh_out) {
        (Coll::T(x), Shape::T) => Coll::T(x.apply_composite::<V, Packed>(&t)),
        (Coll::T(x), Shape::KV) => Coll::KV(x.apply_composite::<(V, V), Packed>(&t)),
        (Coll::T(x), Shape::KG) => Coll::KG(x.apply_composite::<(V, Vec<V>), Packed>(&t)),
        (Coll::KV(x), Shape::T) => Coll::T(x.apply_composite::<V, Packed>(&t)),
        (Coll::KV(x), Shape::KV) => Coll::KV(x.apply_composite::<(V, V), Packed>(&t)),
        (Coll::KV(x), Shape::KG) => Coll::KG(x.apply_composite::<(V, Vec<V>), Packed>(&t)),
        (Coll::KG(x), Shape::T) => Coll::T(x.apply_composite::<V, Packed>(&t)),
        (Coll::KG(x), Shape::KV) => Coll::KV(x.apply_composite::<(V, V), Packed>(&t)),
        (Coll::KG(x), Shape::KG) => Coll::KG(x.apply_composite::<(V, Vec<V>), Packed>(&t)),
        _ => panic!("harness: composite must end in shape T, KV or KG"),
    }
}

/* ---------------------------------------------------------------- sources */

#[derive(Clone, Debug, PartialEq)]
pub enum LenPol { Exact, None, Fixed(usize) }
#[derive(Clone, Debug, PartialEq)]
pub enum SplitPol { None, Chunks(usize), Plus(usize), Minus(usize), Empties(usize), DropLast(usize), RevParts(usize), DupFirst(usize) }
#[derive(Clone, Debug, PartialEq)]
pub enum SourceSpec { Vec, Iter, Custom(LenPol, SplitPol) }

impl SplitPol {
    /// does `split` keep the `VecOps` contract "the parts, concatenated, are what `clone_any` returns"?
    pub fn keeps_contract(&self) -> bool { !matches!(self, SplitPol::DropLast(_) | SplitPol::RevParts(_) | SplitPol::DupFirst(_)) }
    pub fn enc(&self) -> String {
        match self {
            SplitPol::None => "none".into(), SplitPol::Chunks(c) => format!("chunks{c}"), SplitPol::Plus(k) => format!("plus{k}"),
            SplitPol::Minus(k) => format!("minus{k}"), SplitPol::Empties(c) => format!("empties{c}"), SplitPol::DropLast(c) => format!("droplast{c}"),
            SplitPol::RevParts(c) => format!("rev{c}"), SplitPol::DupFirst(c) => format!("dup{c}"),
        }
    }
}
impl LenPol {
    pub fn enc(&self) -> String { match self { LenPol::Exact => "exact".into(), LenPol::None => "none".into(), LenPol::Fixed(k) => format!("fix{k}") } }
}
impl SourceSpec {
    pub fn enc(&self) -> String {
        match self { SourceSpec::Vec => "vec".into(), SourceSpec::Iter => "iter".into(), SourceSpec::Custom(l, s) => format!("custom/{}/{}", l.enc(), s.enc()) }
    }
    pub fn keeps_contract(&self) -> bool { match self { SourceSpec::Custom(_, s) => s.keeps_contract(), _ => true } }
}

/// a USER `VecOps` over a `Vec<T>` payload whose answers follow the two policies
pub struct PolicyOps<T> { pub len: LenPol, pub split: SplitPol, _t: PhantomData<fn() -> T> }

impl<T: Clone + Send + Sync + 'static> VecOps for PolicyOps<T> {
    fn len(&self, data: &dyn Any) -> Option<usize> {
        let v = data.downcast_ref::<Vec<T>>()?;
        match self.len { LenPol::Exact => Some(v.len()), LenPol::None => None, LenPol::Fixed(k) => Some(k) }
    }
    fn split(&self, data: &dyn Any, n: usize) -> Option<Vec<Partition>> {
        let v = data.downcast_ref::<Vec<T>>()?;
        let boxed = |c: &[T]| Box::new(c.to_vec()) as Partition;
        let chunks = |v: &[T], c: usize| -> Vec<Partition> { v.chunks(c.max(1)).map(boxed).collect() };
        match self.split {
            SplitPol::None => None,
            SplitPol::Chunks(c) => Some(chunks(v, c)),
            // the crate's own rule, asked for more / fewer parts than the engine requested
            SplitPol::Plus(k) => vec_ops_for::<T>().split(data, n + k),
            SplitPol::Minus(k) => vec_ops_for::<T>().split(data, n.saturating_sub(k)),
            SplitPol::Empties(c) => {
                let mut out: Vec<Partition> = vec![boxed(&[])];
                for p in v.chunks(c.max(1)) { out.push(boxed(p)); out.push(boxed(&[])); }
                Some(out)
            }
            SplitPol::DropLast(c) => Some(chunks(&v[..v.len().saturating_sub(1)], c)),
            SplitPol::RevParts(c) => { let mut out = chunks(v, c); out.reverse(); Some(out) }
            SplitPol::DupFirst(c) => {
                let mut out = chunks(v, c);
                if let Some(first) = v.chunks(c.max(1)).next() { out.insert(0, boxed(first)); }
                Some(out)
            }
        }
    }
    fn clone_any(&self, data: &dyn Any) -> Option<Partition> {
        data.downcast_ref::<Vec<T>>().map(|v| Box::new(v.clone()) as Partition)
    }
}

fn typed_source<T: ironbeam::RFBound>(p: &Pipeline, data: Vec<T>, spec: &SourceSpec) -> PCollection<T> {
    match spec {
        SourceSpec::Vec => from_vec(p, data),
        SourceSpec::Iter => ironbeam::from_iter(p, data.into_iter()),
        SourceSpec::Custom(l, s) => ironbeam::from_custom_source(p, data, Arc::new(PolicyOps::<T> { len: l.clone(), split: s.clone(), _t: PhantomData })),
    }
}

pub fn source_with(p: &Pipeline, shape: Shape, rows: &[V], spec: &SourceSpec) -> Coll {
    match shape {
        Shape::T => Coll::T(typed_source(p, rows.to_vec(), spec)),
        Shape::KV => Coll::KV(typed_source(p, rows.iter().map(kv_of).collect::<Vec<_>>(), spec)),
        Shape::KG => Coll::KG(typed_source(p, rows.iter().map(kg_of).collect::<Vec<_>>(), spec)),
        Shape::R => panic!("harness: no source of shape R"),
    }
}

/* ---------------------------------------------------------------- terminals */

#[derive(Clone, Copy, Debug, PartialEq)]
pub enum Terminal { Collect, FailFast, Sorted, SortedByKey }

#[derive(Clone, Debug, PartialEq)]
pub enum OutX { Rows(Vec<V>), Fail(String), Err(String), Panic(String), Hang }

fn final_shape(prog: &Prog) -> Option<Shape> {
    prog.steps.iter().fold(Some(prog.shape), |s, st| s.and_then(|s| shape_after(s, st)))
}

impl Terminal {
    pub fn enc(&self, sh: Shape) -> String {
        match self {
            Terminal::Collect => "collect".into(), Terminal::FailFast => "fail_fast".into(),
            Terminal::Sorted => format!("sorted:{}", if sh == Shape::KV { "kv" } else { "t" }), Terminal::SortedByKey => "sorted_by_key".into(),
        }
    }
}

const FAIL_PREFIX: &str = "element failed: ";

/// the user-level fail-fast loop over already collected `Result`s (what `collect_fail_fast` does after `collect_seq`)
fn fail_fast_over(rs: Vec<Result<V, String>>) -> anyhow::Result<Vec<V>> {
    let mut ok = vec![];
    for r in rs {
        match r { Ok(v) => ok.push(v), Err(e) => return Err(anyhow::anyhow!("{FAIL_PREFIX}{e}")) }
    }
    Ok(ok)
}

fn finish(c: Coll, term: Terminal, mode: Mode) -> anyhow::Result<Vec<V>> {
    Ok(match (term, c, mode) {
        (Terminal::Collect, c, m) => collect(c, m)?,
        // the real terminal; it always collects sequentially
        (Terminal::FailFast, Coll::R(x), Mode::Seq) => x.collect_fail_fast()?,
        // "fail fast over a parallel collect" has no entry point of its own: the same loop over `collect_par`
        (Terminal::FailFast, Coll::R(x), Mode::Par(n)) => fail_fast_over(x.collect_par(None, Some(n))?)?,
        (Terminal::Sorted, Coll::T(x), Mode::Seq) => x.collect_seq_sorted()?,
        (Terminal::Sorted, Coll::T(x), Mode::Par(n)) => x.collect_par_sorted(None, Some(n))?,
        (Terminal::Sorted, Coll::KV(x), Mode::Seq) => x.collect_seq_sorted()?.iter().map(row_v_kv).collect(),
        (Terminal::Sorted, Coll::KV(x), Mode::Par(n)) => x.collect_par_sorted(None, Some(n))?.iter().map(row_v_kv).collect(),
        (Terminal::SortedByKey, Coll::KV(x), Mode::Par(n)) => x.collect_par_sorted_by_key(None, Some(n))?.iter().map(row_v_kv).collect(),
        _ => panic!("harness: terminal not applicable to this shape / mode"),
    })
}

/// a watchdog verdict is confirmed by re-execution with a longer limit before it is believed (machine load)
fn watchdog_confirmed<T: Send + 'static>(f: impl Fn() -> T + Send + Sync + Clone + 'static) -> Option<Result<T, String>> {
    for secs in [20u64, 60, 120] {
        let g = f.clone();
        if let Some(r) = with_watchdog(secs, move || g()) { return Some(r); }
    }
    None
}

/// build `prog` (composites intact) over the given source and run the given terminal on the REAL engine
pub fn run_real_x(prog: &Prog, spec: &SourceSpec, term: Terminal, mode: Mode) -> OutX {
    let prog = prog.clone();
    let spec = spec.clone();
    let threads = PAR_THREADS.load(std::sync::atomic::Ordering::SeqCst);
    let run = move || {
        let p = Pipeline::default();
        let c = build_from(&p, source_with(&p, prog.shape, &prog.src, &spec), &prog.steps);
        if threads == 0 || mode == Mode::Seq { finish(c, term, mode) } else { pool_for(threads).install(|| finish(c, term, mode)) }
    };
    match watchdog_confirmed(run) {
        None => OutX::Hang,
        Some(Err(msg)) => OutX::Panic(msg),
        Some(Ok(Err(e))) => { let m = format!("{e}"); if term == Terminal::FailFast && m.starts_with(FAIL_PREFIX) { OutX::Fail(m) } else { OutX::Err(m) } }
        Some(Ok(Ok(rows))) => OutX::Rows(rows),
    }
}

pub fn outx_answer(o: &OutX, canon: &str) -> String {
    match o {
        OutX::Rows(r) => outcome_answer(&Outcome::Rows(r.clone()), canon),
        OutX::Fail(m) => format!("FAIL {}", V::S(m.clone()).enc()),
        OutX::Err(e) => outcome_answer(&Outcome::Err(e.clone()), canon),
        OutX::Panic(m) => outcome_answer(&Outcome::Panic(m.clone()), canon),
        OutX::Hang => "HANG".into(),
    }
}

fn sort_rows(rows: &[V], sh: Shape) -> Vec<V> {
    let mut v = rows.to_vec();
    if sh == Shape::KV { v.sort_by(|a, b| kv_of(a).cmp(&kv_of(b))); } else { v.sort(); }
    v
}

/// what the terminal must return according to the property, from the plain-vector reference rows
fn expected_x(reference: &RefOut, term: Terminal, sh: Shape, canon: &str, barrier_free: bool) -> Option<String> {
    let rows = match reference { RefOut::Rows(r) => r, other => return Some(ref_answer(other, canon)) };
    Some(match term {
        Terminal::Collect => ref_answer(reference, canon),
        Terminal::FailFast => match rows.iter().find(|r| is_err_row(r)) {
            Some(e) => format!("FAIL {}", V::S(format!("{FAIL_PREFIX}{}", match val_of(e) { V::S(s) => s, o => o.enc() })).enc()),
            None => format!("OK {}", V::L(rows.iter().map(val_of).collect()).enc()),
        },
        Terminal::Sorted => format!("OK {}", V::L(sort_rows(rows, sh)).enc()),
        Terminal::SortedByKey => {
            if !barrier_free { return None; } // judged by `sorted_by_key_ok` instead
            let mut v = rows.clone();
            v.sort_by(|a, b| key_of(a).cmp(&key_of(b))); // std's stable sort on the reference rows
            format!("OK {}", V::L(v).enc())
        }
    })
}

pub struct XOpts { pub par_vs_seq: bool, pub vs_reference: bool }

/// `check_prog` for a program over `spec` ending in `term`. `prog` may contain composites; request, reference and
/// canon rule see the flattened program.
pub fn check_prog_x(cx: &mut Ctx, prog: &Prog, spec: &SourceSpec, term: Terminal, modes: &[Mode], o: &XOpts) {
    let flat = Prog { shape: prog.shape, src: prog.src.clone(), steps: flatten_steps(&prog.steps) };
    if !hazard_free(&flat) { cx.count("skipped:hash-ordered-lists-reach-an-order-sensitive-step"); return; }
    let sh = match final_shape(&flat) { Some(s) => s, None => { cx.count("skipped:ill-shaped"); return; } };
    let pcanon = flat.canon();
    let barrier_free = !flat.has_barrier();
    // exact sequences where the terminal defines the order; the program's own rule otherwise
    let canon = match term {
        Terminal::FailFast => { if !barrier_free { cx.count("skipped:fail-fast-after-a-barrier"); return; } "seq" }
        Terminal::Sorted => { if pcanon == "deep" { cx.count("skipped:sorted-terminal-on-deep-canon-program"); return; } "seq" }
        Terminal::SortedByKey => { if pcanon == "deep" { cx.count("skipped:sorted-terminal-on-deep-canon-program"); return; } pcanon }
        Terminal::Collect => pcanon,
    };
    count_prog(cx, &flat);
    cx.count(&format!("terminal:{}", term.enc(sh)));
    cx.count(&format!("source:{}", match spec { SourceSpec::Custom(l, s) => format!("custom len={} split={}", l.enc().trim_end_matches(char::is_numeric), s.enc().trim_end_matches(char::is_numeric)), other => other.enc() }));
    if prog.steps.iter().any(|s| matches!(s, Step::Composite(_))) { cx.count("program:has-apply_composite"); }
    let nontrivial = flat.src.len() >= 2 && !flat.steps.is_empty();
    let reference = reference(&flat);
    let lawful = spec.keeps_contract();
    let mut seq_answer: Option<String> = None;
    for m in modes {
        let out = run_real_x(prog, spec, term, *m);
        let ans = outx_answer(&out, canon);
        let req = format!("PIPEX source={} term={} mode={} canon={canon} src {}{}", spec.enc(), term.enc(sh), m.enc(), V::L(flat.src.clone()).enc(), steps_enc(&flat.steps));
        let idx = cx.case(req, ans.clone(), nontrivial);
        cx.count(&format!("mode:{}", if *m == Mode::Seq { "seq" } else { "par" }));
        cx.count(&format!("outcome:{}", ans.split(' ').next().unwrap_or("")));
        if matches!(out, OutX::Hang) {
            cx.oracle_fail(idx, "run-does-not-terminate", format!("no result within 20 s, 60 s and 120 s in mode {}", m.enc()));
            continue;
        }
        if term == Terminal::FailFast {
            let class = match &reference {
                RefOut::Rows(rows) => {
                    let bad: Vec<usize> = rows.iter().enumerate().filter(|(_, r)| is_err_row(r)).map(|(i, _)| i).collect();
                    let n = rows.len();
                    if bad.is_empty() { "none" } else if bad.len() == n { "all" } else if bad == [0] { "first-only" } else if bad == [n - 1] { "last-only" }
                    else if bad.len() == 1 { "one-in-the-middle" } else if bad.last() == Some(&(n - 1)) { "several-incl-last" } else { "several" }
                }
                _ => "reference-not-rows",
            };
            cx.count(&format!("fail-fast:failing-positions:{class}"));
        }
        let in_contract = lawful || *m == Mode::Seq;
        if !in_contract { cx.count("source:contract-violating-split(correspondence only)"); }
        if *m == Mode::Seq { seq_answer = Some(ans.clone()); }
        else if o.par_vs_seq && in_contract && term != Terminal::SortedByKey {
            if let Some(sa) = &seq_answer { if *sa != ans { cx.oracle_fail(idx, "par-differs-from-seq", format!("source={} term={} seq={sa} par={ans}", spec.enc(), term.enc(sh))); } }
        }
        if o.vs_reference && in_contract {
            let want = expected_x(&reference, term, sh, canon, barrier_free);
            let ok = match &want {
                Some(w) => *w == ans,
                None => sorted_by_key_ok(&out, &reference),
            };
            if !ok {
                ironbeam::verif_hooks::set_skip_reorder(true);
                let out2 = run_real_x(prog, spec, term, *m);
                ironbeam::verif_hooks::set_skip_reorder(false);
                let ans2 = outx_answer(&out2, canon);
                let ok2 = match &want { Some(w) => *w == ans2, None => sorted_by_key_ok(&out2, &reference) };
                let sig = if ok2 { "planned-differs-from-literal-only-through-reorder-pass" } else {
                    match term { Terminal::FailFast => "collect-fail-fast-wrong", Terminal::Sorted | Terminal::SortedByKey => "sorted-terminal-wrong", Terminal::Collect => "differs-from-reference" } };
                cx.oracle_fail(idx, sig, format!("source={} term={} mode={} real={ans} expected={} real-without-reorder-pass={ans2}", spec.enc(), term.enc(sh), m.enc(), want.unwrap_or_else(|| "<keys ascending, rows = the reference rows as a multiset>".into())));
            }
        }
    }
}

/// `collect_par_sorted_by_key` after a barrier: keys ascending, and the rows are the reference rows as a multiset
fn sorted_by_key_ok(out: &OutX, reference: &RefOut) -> bool {
    match (out, reference) {
        (OutX::Rows(rows), RefOut::Rows(want)) => {
            rows.windows(2).all(|w| key_of(&w[0]) <= key_of(&w[1])) && canon_rows(rows, "top") == canon_rows(want, "top")
        }
        _ => false,
    }
}
