//! Shared harness context: one seeded PRNG, case emission, oracle failures, statistics.
//!
//! Every case is one request line (what the Lean driver is asked to evaluate) plus the
//! canonical answer the REAL implementation gave.  The orchestrator pipes the requests
//! through `ibdriver` and diffs the two streams.

use std::collections::BTreeMap;
use std::io::Write;
use std::panic::{AssertUnwindSafe, catch_unwind};

/// SplitMix64 — all random choices of the harness derive from this one state.
#[derive(Clone)]
pub struct Rng(pub u64);
impl Rng {
    pub fn next_u64(&mut self) -> u64 {
        self.0 = self.0.wrapping_add(0x9E37_79B9_7F4A_7C15);
        let mut z = self.0;
        z = (z ^ (z >> 30)).wrapping_mul(0xBF58_476D_1CE4_E5B9);
        z = (z ^ (z >> 27)).wrapping_mul(0x94D0_49BB_1331_11EB);
        z ^ (z >> 31)
    }
    /// uniform in 0..n (n ≥ 1)
    pub fn below(&mut self, n: usize) -> usize {
        if n <= 1 { 0 } else { (self.next_u64() % n as u64) as usize }
    }
    pub fn range(&mut self, lo: i64, hi: i64) -> i64 {
        lo + (self.next_u64() % ((hi - lo + 1) as u64)) as i64
    }
    pub fn chance(&mut self, num: u64, den: u64) -> bool {
        self.next_u64() % den < num
    }
    pub fn pick<'a, T>(&mut self, xs: &'a [T]) -> &'a T {
        &xs[self.below(xs.len())]
    }
}

#[derive(Clone, Copy, PartialEq, Eq, Debug)]
pub enum Tier {
    Quick,
    Thorough,
    Search,
}

pub struct OracleFail {
    pub case: usize,
    pub signature: String,
    pub detail: String,
}

pub struct Ctx {
    pub rng: Rng,
    pub seed: u64,
    pub tier: Tier,
    pub prop: String,
    pub reqs: Vec<String>,
    pub reals: Vec<String>,
    pub nontrivial: Vec<bool>,
    pub fails: Vec<OracleFail>,
    pub stats: BTreeMap<String, u64>,
    pub samples: Vec<String>,
    pub exhaustive_blocks: Vec<String>,
    pub notes: Vec<String>,
}

impl Ctx {
    pub fn new(prop: &str, seed: u64, tier: Tier) -> Self {
        Ctx {
            rng: Rng(seed ^ 0xD1B5_4A32_D192_ED03),
            seed,
            tier,
            prop: prop.to_string(),
            reqs: vec![],
            reals: vec![],
            nontrivial: vec![],
            fails: vec![],
            stats: BTreeMap::new(),
            samples: vec![],
            exhaustive_blocks: vec![],
            notes: vec![],
        }
    }
    /// budget helper: quick / thorough / search
    pub fn budget(&self, q: usize, t: usize) -> usize {
        match self.tier {
            Tier::Quick => q,
            Tier::Thorough => t,
            // SIZE-like parameters (exhaustive lengths / depths / alphabet sizes: small, thorough < 2x quick) keep their
            // thorough value in the search tier — ten times an exponent is not "more cases", it is out of memory (a
            // search run of C20 once grew to 60 GB that way); COUNT-like budgets are multiplied.
            Tier::Search => if t <= 2 * q || t <= 16 { t } else { (q * 10).max(t) },
        }
    }
    pub fn count(&mut self, key: &str) {
        *self.stats.entry(key.to_string()).or_insert(0) += 1;
    }
    pub fn count_n(&mut self, key: &str, n: u64) {
        *self.stats.entry(key.to_string()).or_insert(0) += n;
    }
    /// Register one correspondence case; returns its index.
    pub fn case(&mut self, req: String, real: String, nontrivial: bool) -> usize {
        debug_assert!(!req.contains('\n') && !real.contains('\n'));
        let i = self.reqs.len();
        if self.samples.len() < 6 && (nontrivial || i < 2) {
            self.samples.push(format!("{req}  =>  {real}"));
        }
        self.reqs.push(req);
        self.reals.push(real);
        self.nontrivial.push(nontrivial);
        i
    }
    /// The property's own statement failed on REAL output (independent of the model).
    pub fn oracle_fail(&mut self, case: usize, signature: &str, detail: String) {
        self.count(&format!("oracle_fail:{signature}"));
        self.fails.push(OracleFail { case, signature: signature.to_string(), detail });
    }
    pub fn write_out(&self, dir: &str) -> anyhow::Result<()> {
        std::fs::create_dir_all(dir)?;
        let grace = crate::pipe::WATCHDOG_GRACE_USED.load(std::sync::atomic::Ordering::SeqCst);
        let mut notes = self.notes.clone();
        if grace > 0 { notes.push(format!("watchdog grace period used by {grace} runs (machine stall; the runs completed and were judged normally)")); }
        let mut f = std::io::BufWriter::new(std::fs::File::create(format!("{dir}/cases.txt"))?);
        for (i, r) in self.reqs.iter().enumerate() {
            writeln!(f, "{i} {r}")?;
        }
        f.flush()?;
        let mut f = std::io::BufWriter::new(std::fs::File::create(format!("{dir}/real.txt"))?);
        for (i, r) in self.reals.iter().enumerate() {
            writeln!(f, "{i} {r}")?;
        }
        f.flush()?;
        let mut f = std::io::BufWriter::new(std::fs::File::create(format!("{dir}/nontrivial.txt"))?);
        for b in &self.nontrivial {
            writeln!(f, "{}", u8::from(*b))?;
        }
        f.flush()?;
        let fails: Vec<serde_json::Value> = self
            .fails
            .iter()
            .map(|x| {
                serde_json::json!({"case": x.case, "signature": x.signature, "detail": x.detail,
                "request": self.reqs.get(x.case), "real": self.reals.get(x.case)})
            })
            .collect();
        let meta = serde_json::json!({
            "property": self.prop, "seed": self.seed, "tier": format!("{:?}", self.tier),
            "cases": self.reqs.len(), "oracle_failures": fails, "stats": self.stats,
            "samples": self.samples, "exhaustive_blocks": self.exhaustive_blocks, "notes": notes,
        });
        std::fs::write(format!("{dir}/meta.json"), serde_json::to_string_pretty(&meta)?)?;
        Ok(())
    }
}

/// Run `f`, mapping a panic to `Err(message)`. The default panic hook is silenced by `main`.
pub fn guarded<T>(f: impl FnOnce() -> T) -> Result<T, String> {
    match catch_unwind(AssertUnwindSafe(f)) {
        Ok(v) => Ok(v),
        Err(e) => {
            let msg = if let Some(s) = e.downcast_ref::<&str>() {
                (*s).to_string()
            } else if let Some(s) = e.downcast_ref::<String>() {
                s.clone()
            } else {
                "panic".to_string()
            };
            Err(msg)
        }
    }
}

pub fn hex(bytes: &[u8]) -> String {
    let mut s = String::with_capacity(bytes.len() * 2);
    for b in bytes {
        s.push_str(&format!("{b:02x}"));
    }
    s
}

/// round 5 — breadcrumb: the request about to be run on the REAL code, kept in `<out>/breadcrumb.txt` (one line,
/// overwritten in place). `catch_unwind` cannot contain an abort (allocation failure, stack overflow, `process::exit`);
/// when the harness dies, `bin/ibcheck` reports this line as the input that was running.
static BREADCRUMB: std::sync::Mutex<Option<std::fs::File>> = std::sync::Mutex::new(None);
pub fn breadcrumb_init(dir: &str) {
    let _ = std::fs::create_dir_all(dir);
    if let Ok(f) = std::fs::OpenOptions::new().create(true).write(true).truncate(true).open(std::path::Path::new(dir).join("breadcrumb.txt")) {
        *BREADCRUMB.lock().unwrap_or_else(std::sync::PoisonError::into_inner) = Some(f);
    }
}
pub fn breadcrumb(text: &str) {
    use std::io::{Seek, Write};
    let mut g = BREADCRUMB.lock().unwrap_or_else(std::sync::PoisonError::into_inner);
    if let Some(f) = g.as_mut() {
        let line: String = text.chars().take(4000).collect();
        let _ = f.seek(std::io::SeekFrom::Start(0));
        let _ = f.write_all(line.as_bytes());
        let _ = f.set_len(line.len() as u64);
    }
}
pub fn breadcrumb_done() {
    let mut g = BREADCRUMB.lock().unwrap_or_else(std::sync::PoisonError::into_inner);
    if let Some(f) = g.as_mut() { let _ = f.set_len(0); }
}
