//! C20 — the shipped test assertions accept exactly equal collections.
//!
//! Request:  `ASSERT <eq|unord|kv|grp> <A> | <B>`   answer: `PASS` | `PANIC`
//!   eq/unord : A = comma-separated ints (empty list = `-`)
//!   kv       : rows `k:v`
//!   grp      : rows `k:v.v.v` (empty group = `k:`)
//! Real side: the real assertion under catch_unwind. Oracle: reference multiset / sequence
//! equality computed by sorting and counting, independent of model and implementation.
//!   kv  : passes <=> the two row collections are equal as multisets, for EVERY input (repeated keys
//!         included; `kv-rejects-equal-multisets-with-repeated-key` was a known finding until the
//!         `fix:` commit that compares runs of equal keys as multisets, it must not occur any more).
//!   grp : the property's right-hand side (same multiset of keys, and for every key every group of
//!         one side is multiset-equal to every group of the other side) implies PASS for every input;
//!         PASS implies it when the keys of at least one side are pairwise distinct (grouped data);
//!         for every input PASS implies equal key multisets and equal flattened (key, value) multisets.

use crate::ctx::{Ctx, guarded};
use ironbeam::testing::{
    assert_collections_equal, assert_collections_unordered_equal, assert_grouped_kv_equal,
    assert_kv_collections_equal,
};

fn enc_ints(a: &[i64]) -> String {
    if a.is_empty() { "-".into() } else { a.iter().map(|x| x.to_string()).collect::<Vec<_>>().join(",") }
}
fn enc_kv(a: &[(i64, i64)]) -> String {
    if a.is_empty() { "-".into() } else { a.iter().map(|(k, v)| format!("{k}:{v}")).collect::<Vec<_>>().join(",") }
}
fn enc_grp(a: &[(i64, Vec<i64>)]) -> String {
    if a.is_empty() {
        "-".into()
    } else {
        a.iter()
            .map(|(k, vs)| format!("{k}:{}", vs.iter().map(|x| x.to_string()).collect::<Vec<_>>().join(".")))
            .collect::<Vec<_>>()
            .join(",")
    }
}
fn verdict(r: Result<(), String>) -> (&'static str, bool) {
    match r { Ok(()) => ("PASS", true), Err(_) => ("PANIC", false) }
}
fn sorted<T: Ord + Clone>(a: &[T]) -> Vec<T> { let mut v = a.to_vec(); v.sort(); v }

fn one_eq(cx: &mut Ctx, a: &[i64], b: &[i64]) {
    let (s, pass) = verdict(guarded(|| assert_collections_equal(a, b)));
    let nt = !a.is_empty() && !b.is_empty();
    let i = cx.case(format!("ASSERT eq {} | {}", enc_ints(a), enc_ints(b)), s.into(), nt);
    cx.count(if pass { "eq:pass" } else { "eq:panic" });
    if pass != (a == b) {
        cx.oracle_fail(i, "eq-iff-sequence-equal", format!("passes={pass} but a==b is {}", a == b));
    }
}
fn one_unord(cx: &mut Ctx, a: &[i64], b: &[i64]) {
    let (s, pass) = verdict(guarded(|| assert_collections_unordered_equal(a, b)));
    let want = sorted(a) == sorted(b);
    let nt = a.len() >= 2 && b.len() >= 2;
    let i = cx.case(format!("ASSERT unord {} | {}", enc_ints(a), enc_ints(b)), s.into(), nt);
    cx.count(if pass { "unord:pass" } else { "unord:panic" });
    if pass != want {
        let sig = if pass { "unord-accepts-different-multiplicity" } else { "unord-rejects-equal-multisets" };
        cx.oracle_fail(i, sig, format!("passes={pass}, multiset-equal={want}"));
    }
}
fn keys_nodup<T>(a: &[(i64, T)]) -> bool {
    let mut ks: Vec<i64> = a.iter().map(|x| x.0).collect();
    ks.sort();
    ks.windows(2).all(|w| w[0] != w[1])
}
fn one_kv(cx: &mut Ctx, a: &[(i64, i64)], b: &[(i64, i64)]) {
    let (s, pass) = verdict(guarded(|| assert_kv_collections_equal(a.to_vec(), b.to_vec())));
    let want = sorted(a) == sorted(b);
    let nt = a.len() >= 2 && b.len() >= 2;
    let i = cx.case(format!("ASSERT kv {} | {}", enc_kv(a), enc_kv(b)), s.into(), nt);
    cx.count(if pass { "kv:pass" } else { "kv:panic" });
    if pass {
        // the path repaired by the fix: rows of a repeated key in a different relative order
        let by_key = |x: &[(i64, i64)]| { let mut v = x.to_vec(); v.sort_by_key(|r| r.0); v };
        if by_key(a) != by_key(b) { cx.count("kv:pass(equal-key rows in different relative order)"); }
    }
    if pass != want {
        let sig = if pass {
            "kv-accepts-unequal"
        } else if !keys_nodup(a) {
            // multiset-equal, repeated key, rows of that key in a different relative order
            "kv-rejects-equal-multisets-with-repeated-key"
        } else {
            "kv-rejects-equal-multisets"
        };
        cx.oracle_fail(i, sig, format!("passes={pass}, multiset-equal={want}"));
    }
}
fn one_grp(cx: &mut Ctx, a: &[(i64, Vec<i64>)], b: &[(i64, Vec<i64>)]) {
    let (s, pass) = verdict(guarded(|| assert_grouped_kv_equal(a.to_vec(), b.to_vec())));
    let nt = !a.is_empty() && !b.is_empty();
    let i = cx.case(format!("ASSERT grp {} | {}", enc_grp(a), enc_grp(b)), s.into(), nt);
    cx.count(if pass { "grp:pass" } else { "grp:panic" });
    let keys = |x: &[(i64, Vec<i64>)]| sorted(&x.iter().map(|r| r.0).collect::<Vec<_>>());
    let flat = |x: &[(i64, Vec<i64>)]| {
        sorted(&x.iter().flat_map(|(k, vs)| vs.iter().map(move |v| (*k, *v))).collect::<Vec<_>>())
    };
    // the property's right-hand side, literally: same multiset of keys and, for every key, every
    // group of that key on one side is multiset-equal to every group of that key on the other side
    let rhs = keys(a) == keys(b)
        && a.iter().all(|(k, vs)| b.iter().filter(|(k2, _)| k2 == k).all(|(_, ws)| sorted(vs) == sorted(ws)));
    let grouped = keys_nodup(a) || keys_nodup(b);
    if grouped && keys_nodup(a) && keys_nodup(b) {
        // cross-check of the oracle itself on grouped data: rhs == equality of the normal forms
        let norm = |x: &[(i64, Vec<i64>)]| {
            let mut v: Vec<(i64, Vec<i64>)> = x.iter().map(|(k, vs)| (*k, sorted(vs))).collect();
            v.sort();
            v
        };
        if rhs != (norm(a) == norm(b)) {
            cx.oracle_fail(i, "grp-oracle-inconsistent", "rhs and normal-form equality differ".into());
        }
    }
    // completeness holds for every input (theorem assertGrouped_complete)
    if rhs && !pass {
        cx.oracle_fail(i, "grp-rejects-equal", format!("passes={pass}, same keys and per-key multisets={rhs}"));
    }
    // soundness of the property's statement: grouped data (keys unique on at least one side)
    if grouped {
        if pass && !rhs {
            cx.oracle_fail(i, "grp-accepts-different-multiplicity", format!("passes={pass}, same keys and per-key multisets={rhs}"));
        }
    } else {
        cx.count("grp:repeated-key-on-both-sides");
    }
    // soundness for every input, repeated keys included (theorems assertGrouped_sound_keys / _flatten)
    if pass && (keys(a) != keys(b) || flat(a) != flat(b)) {
        cx.oracle_fail(i, "grp-accepts-different-rows", format!("passes although keys-equal={} flattened-rows-equal={}", keys(a) == keys(b), flat(a) == flat(b)));
    }
}

fn all_seqs<T: Clone>(alpha: &[T], max_len: usize) -> Vec<Vec<T>> {
    let mut out: Vec<Vec<T>> = vec![vec![]];
    let mut frontier: Vec<Vec<T>> = vec![vec![]];
    for _ in 0..max_len {
        let mut next = vec![];
        for s in &frontier {
            for x in alpha {
                let mut t = s.clone();
                t.push(x.clone());
                next.push(t);
            }
        }
        out.extend(next.iter().cloned());
        frontier = next;
    }
    out
}

pub fn run(cx: &mut Ctx) {
    // corpus: minimised past failures first
    one_unord(cx, &[1, 1, 2], &[1, 2, 2]);
    one_grp(cx, &[(0, vec![1, 1])], &[(0, vec![1])]);
    one_grp(cx, &[(0, vec![1, 1, 2])], &[(0, vec![1, 2, 2])]);
    one_kv(cx, &[(1, 0), (1, 1)], &[(1, 1), (1, 0)]); // rejected before the kv fix
    one_kv(cx, &[(1, 0), (1, 0), (1, 1)], &[(1, 0), (1, 1), (1, 1)]); // greedy match must consume partners
    one_kv(cx, &[(0, 0), (1, 1)], &[(0, 0), (0, 1)]); // partner must have the same key
    one_kv(cx, &[(2, 5), (1, 7), (1, 8)], &[(1, 8), (1, 7), (2, 5)]);
    one_grp(cx, &[(0, vec![1, 2])], &[(0, vec![1, 2, 2])]); // actual group is a proper sub-multiset, same set
    one_grp(cx, &[(0, vec![1]), (0, vec![2])], &[(0, vec![2]), (0, vec![1])]); // repeated key: rejected (not grouped data)
    one_grp(cx, &[(0, vec![1]), (0, vec![2])], &[(0, vec![1]), (0, vec![2])]);

    // exhaustive small scope
    let n = cx.budget(4, 5);
    let seqs = all_seqs(&[0i64, 1, 2], n);
    for a in &seqs {
        for b in &seqs {
            one_eq(cx, a, b);
            one_unord(cx, a, b);
        }
    }
    cx.exhaustive_blocks.push(format!("eq,unord: all pairs of sequences of length <= {n} over 3 symbols ({} pairs)", seqs.len() * seqs.len()));
    let kv_alpha: Vec<(i64, i64)> = vec![(0, 0), (0, 1), (1, 0), (1, 1)];
    let kn = cx.budget(3, 4);
    let kvs = all_seqs(&kv_alpha, kn);
    for a in &kvs {
        for b in &kvs {
            one_kv(cx, a, b);
        }
    }
    cx.exhaustive_blocks.push(format!("kv: all pairs of row sequences of length <= {kn} over keys {{0,1}} x values {{0,1}} ({} pairs)", kvs.len() * kvs.len()));
    let groups = all_seqs(&[0i64, 1], 2);
    let mut grp_alpha: Vec<(i64, Vec<i64>)> = vec![];
    for k in 0..2 {
        for g in &groups {
            grp_alpha.push((k, g.clone()));
        }
    }
    let gs = all_seqs(&grp_alpha, 2);
    for a in &gs {
        for b in &gs {
            one_grp(cx, a, b);
        }
    }
    cx.exhaustive_blocks.push(format!("grp: all pairs of grouped sequences of length <= 2 over keys {{0,1}} x groups of length <= 2 over {{0,1}} ({} pairs)", gs.len() * gs.len()));

    // random longer pairs: b is a perturbation of a (shuffle / duplicate-swap / replace / drop)
    let rounds = cx.budget(1500, 30000);
    for _ in 0..rounds {
        let len = cx.rng.below(30);
        let dom = 1 + cx.rng.below(6) as i64;
        let a: Vec<i64> = (0..len).map(|_| cx.rng.range(0, dom)).collect();
        let mut b = a.clone();
        perturb(cx, &mut b, dom);
        one_eq(cx, &a, &b);
        one_unord(cx, &a, &b);
        let ka: Vec<(i64, i64)> = a.iter().map(|x| (x % 3, x / 3)).collect();
        let kb: Vec<(i64, i64)> = b.iter().map(|x| (x % 3, x / 3)).collect();
        one_kv(cx, &ka, &kb);
        let mut ga = group(&a);
        let mut gb = group(&b);
        if cx.rng.chance(1, 2) { gb.reverse(); }
        one_grp(cx, &ga, &gb);
        // not grouped data: split one group into two rows with the same key, on one or both sides
        if cx.rng.chance(1, 4) {
            split_group(cx, &mut gb);
            if cx.rng.chance(1, 2) { split_group(cx, &mut ga); }
            one_grp(cx, &ga, &gb);
        }
        // a second key/value stream with more keys and values: rows k*4+v, 4 keys x 4 values
        let len2 = cx.rng.below(14);
        let a2: Vec<i64> = (0..len2).map(|_| cx.rng.range(0, 16)).collect();
        let mut b2 = a2.clone();
        perturb(cx, &mut b2, 16);
        let ka2: Vec<(i64, i64)> = a2.iter().map(|x| (x % 4, x / 4)).collect();
        let kb2: Vec<(i64, i64)> = b2.iter().map(|x| (x % 4, x / 4)).collect();
        one_kv(cx, &ka2, &kb2);
    }
}

fn group(a: &[i64]) -> Vec<(i64, Vec<i64>)> {
    let mut m: std::collections::BTreeMap<i64, Vec<i64>> = Default::default();
    for x in a { m.entry(x % 3).or_default().push(x / 3); }
    m.into_iter().collect()
}

fn split_group(cx: &mut Ctx, g: &mut Vec<(i64, Vec<i64>)>) {
    if g.is_empty() { return; }
    let i = cx.rng.below(g.len());
    let at = cx.rng.below(g[i].1.len() + 1);
    let tail = g[i].1.split_off(at);
    let k = g[i].0;
    let pos = cx.rng.below(g.len() + 1);
    g.insert(pos, (k, tail));
    cx.count("grp:split-group(repeated key)");
}

fn perturb(cx: &mut Ctx, b: &mut Vec<i64>, dom: i64) {
    match cx.rng.below(6) {
        0 => {}
        1 => { // shuffle
            for i in (1..b.len()).rev() { let j = cx.rng.below(i + 1); b.swap(i, j); }
            cx.count("perturb:shuffle");
        }
        2 => { // change multiplicities, keep the set and the length: copy one element over another
            if b.len() >= 2 { let i = cx.rng.below(b.len()); let j = cx.rng.below(b.len()); b[i] = b[j]; }
            for i in (1..b.len()).rev() { let j = cx.rng.below(i + 1); b.swap(i, j); }
            cx.count("perturb:multiplicity");
        }
        3 => { if !b.is_empty() { let i = cx.rng.below(b.len()); b[i] = cx.rng.range(0, dom); } cx.count("perturb:replace"); }
        4 => { if !b.is_empty() { let i = cx.rng.below(b.len()); b.remove(i); } cx.count("perturb:drop"); }
        _ => { b.reverse(); cx.count("perturb:reverse"); }
    }
}
