//! C20 — the shipped test assertions accept exactly equal collections.
//!
//! Request:  `ASSERT <eq|unord|kv|grp|maps>[/P|/S] <A> | <B>`   answer: `PASS` | `PANIC`
//!   eq/unord : A = comma-separated ints (empty list = `-`)
//!   kv       : rows `k:v`
//!   grp      : rows `k:v.v.v` (empty group = `k:`)
//!   maps     : rows `k:v` = the sequence of `HashMap::insert` calls that builds each map (a repeated key
//!              overwrites), compared with `assert_maps_equal`
//!   suffix   : the Rust type the generic assertion is instantiated with (elements, keys AND values):
//!              none = `i64`; `/P` = `struct P(i64,i64)` — derived `Eq`/`Ord`, a LOSSY `Debug` (prints field 0
//!              only: `P(0,0)` and `P(0,1)` print alike) and a WEAK `Hash` (one bit reaches the hasher, so
//!              unequal elements collide all the time), integer x -> `P(x div 2, x mod 2)`; `/S` = `String`,
//!              x -> `"s{x}"` (heap type; `Ord` is lexicographic, "s10" < "s2"). `maps/P` additionally uses a
//!              non-default `BuildHasher` whose hasher returns 0 for every key. Both embeddings are injective,
//!              so the reference verdicts are computed on the integers.
//! Request:  `ASSERT size <A> <n>` | `ASSERT contains[/P|/S] <A> <x>` | `ASSERT <all|any|none> <pred> <A>`
//!   pred     : `true` `false` `even` `odd` `neg` `lt:<n>` `eq:<n>` `ne:<n>` (a closed library of closures)
//! Request:  `ASSERT jsonl <F> | <E>`, `ASSERT csv <F> | <E>`: see `c20_files.rs`.
//! Real side: the real assertion under catch_unwind. Oracle: reference multiset / sequence
//! equality computed by sorting and counting, independent of model and implementation.
//!   kv  : passes <=> the two row collections are equal as multisets, for EVERY input (repeated keys
//!         included; `kv-rejects-equal-multisets-with-repeated-key` was a known finding until the
//!         `fix:` commit that compares runs of equal keys as multisets, it must not occur any more).
//!   grp : DECISION (review E, round 3). The property says "for grouped data: the same keys and, per key, the
//!         same multiset of values". Grouped data = what `group_by_key` produces = ONE row per key. The oracle
//!         therefore judges exactly the inputs in which BOTH sides have pairwise distinct keys:
//!         passes <=> same set of keys and, for every key, multiset-equal value lists (the literal right-hand
//!         side; cross-checked against equality of the normal forms). Inputs in which a key occurs in several
//!         rows of a side are NOT grouped data; the text does not say whether they are to be compared as
//!         multisets of groups (what the code does: `[(0,[1,2]),(0,[])]` vs `[(0,[1]),(0,[2])]` panics) or by
//!         the union of the values per key (which would accept that pair), so NO verdict is demanded there:
//!         they are still generated and executed, the real answer must agree with the Lean model (which is
//!         proved to decide "equal as multisets of groups", `assertGrouped_iff_groups`) — a change of behaviour
//!         there is a model/implementation disagreement, not an oracle failure — and three counters
//!         (`grp:repeated-key:*`) record how the real answers relate to the two readings.
//!   maps: passes <=> the two maps have the same entries (reference: last value per key, sorted).
//!   size / contains / all / any / none: passes <=> len == n / occurrences > 0 / number of satisfying
//!         elements == len / > 0 / == 0.
//! Nothing here depends on wall-clock time, machine load or statistics: every verdict is a deterministic
//! function of the generated input.

use crate::ctx::{Ctx, guarded};
use ironbeam::testing::{
    assert_all, assert_any, assert_collection_size, assert_collections_equal,
    assert_collections_unordered_equal, assert_contains, assert_grouped_kv_equal,
    assert_kv_collections_equal, assert_maps_equal, assert_none,
};
use std::collections::HashMap;
use std::fmt::Debug;
use std::hash::{BuildHasher, BuildHasherDefault, Hash, Hasher};

/// the element / key / value types the generic assertions are instantiated with
pub trait Elem: Clone + Debug + Eq + Hash + Ord {
    const SUF: &'static str;
    fn emb(x: i64) -> Self;
}
impl Elem for i64 {
    const SUF: &'static str = "";
    fn emb(x: i64) -> Self { x }
}
/// derived equality and order, LOSSY `Debug`, WEAK `Hash` (both lawful: equal values print / hash alike)
#[derive(Clone, PartialEq, Eq, PartialOrd, Ord)]
pub struct P(pub i64, pub i64);
impl Debug for P {
    fn fmt(&self, f: &mut std::fmt::Formatter<'_>) -> std::fmt::Result { write!(f, "P({})", self.0) }
}
impl Hash for P {
    fn hash<H: Hasher>(&self, h: &mut H) { h.write_u8((self.0 & 1) as u8); }
}
impl Elem for P {
    const SUF: &'static str = "/P";
    fn emb(x: i64) -> Self { P(x.div_euclid(2), x.rem_euclid(2)) }
}
impl Elem for String {
    const SUF: &'static str = "/S";
    fn emb(x: i64) -> Self { format!("s{x}") }
}
/// a `BuildHasher` other than the default one: every key hashes to 0
#[derive(Default, Clone)]
pub struct ZeroHasher;
impl Hasher for ZeroHasher {
    fn finish(&self) -> u64 { 0 }
    fn write(&mut self, _bytes: &[u8]) {}
}

fn emb_all<T: Elem>(a: &[i64]) -> Vec<T> { a.iter().map(|x| T::emb(*x)).collect() }
fn emb_kv<T: Elem>(a: &[(i64, i64)]) -> Vec<(T, T)> { a.iter().map(|(k, v)| (T::emb(*k), T::emb(*v))).collect() }
fn emb_grp<T: Elem>(a: &[(i64, Vec<i64>)]) -> Vec<(T, Vec<T>)> {
    a.iter().map(|(k, vs)| (T::emb(*k), emb_all::<T>(vs))).collect()
}

pub fn enc_ints(a: &[i64]) -> String {
    if a.is_empty() { "-".into() } else { a.iter().map(|x| x.to_string()).collect::<Vec<_>>().join(",") }
}
pub fn enc_kv(a: &[(i64, i64)]) -> String {
    if a.is_empty() { "-".into() } else { a.iter().map(|(k, v)| format!("{k}:{v}")).collect::<Vec<_>>().join(",") }
}
fn enc_grp(a: &[(i64, Vec<i64>)]) -> String {
    if a.is_empty() {
        "-".into()
    } else {
        a.iter()
            .map(|(k, vs)| format!("{k}:{}", vs.iter().map(|x| x.to_string()).collect::<Vec<_>>().join(".")))
            .collect::<Vec<_>>()
            .join(",")
    }
}
pub fn verdict(r: Result<(), String>) -> (&'static str, bool) {
    match r { Ok(()) => ("PASS", true), Err(_) => ("PANIC", false) }
}
fn sorted<T: Ord + Clone>(a: &[T]) -> Vec<T> { let mut v = a.to_vec(); v.sort(); v }

fn one_eq<T: Elem>(cx: &mut Ctx, a: &[i64], b: &[i64]) {
    let (ta, tb) = (emb_all::<T>(a), emb_all::<T>(b));
    let (s, pass) = verdict(guarded(|| assert_collections_equal(&ta, &tb)));
    let nt = !a.is_empty() && !b.is_empty();
    let i = cx.case(format!("ASSERT eq{} {} | {}", T::SUF, enc_ints(a), enc_ints(b)), s.into(), nt);
    cx.count(&format!("eq{}:{}", T::SUF, if pass { "pass" } else { "panic" }));
    if pass != (a == b) {
        cx.oracle_fail(i, "eq-iff-sequence-equal", format!("passes={pass} but a==b is {}", a == b));
    }
}
fn one_unord<T: Elem>(cx: &mut Ctx, a: &[i64], b: &[i64]) {
    let (ta, tb) = (emb_all::<T>(a), emb_all::<T>(b));
    let (s, pass) = verdict(guarded(|| assert_collections_unordered_equal(&ta, &tb)));
    let want = sorted(a) == sorted(b);
    let nt = a.len() >= 2 && b.len() >= 2;
    let i = cx.case(format!("ASSERT unord{} {} | {}", T::SUF, enc_ints(a), enc_ints(b)), s.into(), nt);
    cx.count(&format!("unord{}:{}", T::SUF, if pass { "pass" } else { "panic" }));
    if pass != want {
        let sig = if pass { "unord-accepts-different-multiplicity" } else { "unord-rejects-equal-multisets" };
        cx.oracle_fail(i, sig, format!("passes={pass}, multiset-equal={want}"));
    }
}
fn keys_nodup<T>(a: &[(i64, T)]) -> bool {
    let mut ks: Vec<i64> = a.iter().map(|x| x.0).collect();
    ks.sort();
    ks.windows(2).all(|w| w[0] != w[1])
}
fn one_kv<T: Elem>(cx: &mut Ctx, a: &[(i64, i64)], b: &[(i64, i64)]) {
    let (ta, tb) = (emb_kv::<T>(a), emb_kv::<T>(b));
    let (s, pass) = verdict(guarded(|| assert_kv_collections_equal(ta, tb)));
    let want = sorted(a) == sorted(b);
    let nt = a.len() >= 2 && b.len() >= 2;
    let i = cx.case(format!("ASSERT kv{} {} | {}", T::SUF, enc_kv(a), enc_kv(b)), s.into(), nt);
    cx.count(&format!("kv{}:{}", T::SUF, if pass { "pass" } else { "panic" }));
    if pass {
        // the path repaired by the fix: rows of a repeated key in a different relative order
        let by_key = |x: &[(i64, i64)]| { let mut v = x.to_vec(); v.sort_by_key(|r| r.0); v };
        if by_key(a) != by_key(b) { cx.count("kv:pass(equal-key rows in different relative order)"); }
    }
    if pass != want {
        let sig = if pass {
            "kv-accepts-unequal"
        } else if !keys_nodup(a) {
            // multiset-equal, repeated key, rows of that key in a different relative order
            "kv-rejects-equal-multisets-with-repeated-key"
        } else {
            "kv-rejects-equal-multisets"
        };
        cx.oracle_fail(i, sig, format!("passes={pass}, multiset-equal={want}"));
    }
}
fn one_grp<T: Elem>(cx: &mut Ctx, a: &[(i64, Vec<i64>)], b: &[(i64, Vec<i64>)]) {
    let (ta, tb) = (emb_grp::<T>(a), emb_grp::<T>(b));
    let (s, pass) = verdict(guarded(|| assert_grouped_kv_equal(ta, tb)));
    let nt = !a.is_empty() && !b.is_empty();
    let i = cx.case(format!("ASSERT grp{} {} | {}", T::SUF, enc_grp(a), enc_grp(b)), s.into(), nt);
    cx.count(&format!("grp{}:{}", T::SUF, if pass { "pass" } else { "panic" }));
    let keys = |x: &[(i64, Vec<i64>)]| sorted(&x.iter().map(|r| r.0).collect::<Vec<_>>());
    let flat = |x: &[(i64, Vec<i64>)]| {
        sorted(&x.iter().flat_map(|(k, vs)| vs.iter().map(move |v| (*k, *v))).collect::<Vec<_>>())
    };
    // equal as multisets of groups (key, multiset of values): every group's values sorted, then the rows sorted
    let norm = |x: &[(i64, Vec<i64>)]| {
        let mut v: Vec<(i64, Vec<i64>)> = x.iter().map(|(k, vs)| (*k, sorted(vs))).collect();
        v.sort();
        v
    };
    let same_groups = norm(a) == norm(b);
    if keys_nodup(a) && keys_nodup(b) {
        // GROUPED DATA (one row per key on both sides): the property's right-hand side, literally —
        // the same keys and, for every key, the same multiset of values
        cx.count("grp:grouped-data(unique keys on both sides; oracle applies)");
        let want = keys(a) == keys(b)
            && a.iter().all(|(k, vs)| b.iter().filter(|(k2, _)| k2 == k).all(|(_, ws)| sorted(vs) == sorted(ws)));
        if want != same_groups {
            cx.oracle_fail(i, "grp-oracle-inconsistent", "right-hand side and normal-form equality differ on grouped data".into());
        }
        if pass != want {
            let sig = if !pass {
                "grp-rejects-equal"
            } else if keys(a) == keys(b) && a.iter().all(|(k, vs)| b.iter().filter(|(k2, _)| k2 == k).all(|(_, ws)| {
                let (mut x, mut y) = (sorted(vs), sorted(ws)); x.dedup(); y.dedup(); x == y })) {
                // same keys, per key the same SET of values: only the multiplicities differ
                "grp-accepts-different-multiplicity"
            } else {
                "grp-accepts-unequal"
            };
            cx.oracle_fail(i, sig, format!("grouped data (unique keys): passes={pass}, same keys and per key the same multiset of values={want}"));
        }
    } else {
        // a key occurs in several rows of a side: not grouped data, outside the property's iff — NO oracle.
        // The real answer is compared with the Lean model only; the counters relate it to the two readings.
        cx.count("grp:repeated-key(no oracle; model correspondence only)");
        let union_reading = {
            let mut ka = keys(a); ka.dedup();
            let mut kb = keys(b); kb.dedup();
            ka == kb && flat(a) == flat(b)
        };
        if pass { cx.count("grp:repeated-key:pass"); }
        if pass != same_groups { cx.count("grp:repeated-key:answer-differs-from-multiset-of-groups-reading(not an oracle)"); }
        if pass != union_reading { cx.count("grp:repeated-key:answer-differs-from-union-of-values-reading(not an oracle)"); }
        if pass && flat(a) != flat(b) { cx.count("grp:repeated-key:accepted-with-different-flattened-rows(not an oracle)"); }
        if pass && a.len() == b.len() {
            // the path repaired by the second grouped fix: groups of a repeated key listed in a different relative order
            let by_key = |x: &[(i64, Vec<i64>)]| {
                let mut v: Vec<(i64, Vec<i64>)> = x.iter().map(|(k, vs)| (*k, sorted(vs))).collect();
                v.sort_by_key(|r| r.0);
                v
            };
            if by_key(a) != by_key(b) { cx.count("grp:repeated-key:pass(equal-key groups in different relative order)"); }
        }
    }
}

fn build_map<T: Elem, S: BuildHasher + Default>(rows: &[(i64, i64)]) -> HashMap<T, T, S> {
    let mut m = HashMap::with_hasher(S::default());
    for (k, v) in rows { m.insert(T::emb(*k), T::emb(*v)); }
    m
}
/// reference for a map built by inserts: the LAST value of every key, sorted by key (no hash map)
fn last_wins(rows: &[(i64, i64)]) -> Vec<(i64, i64)> {
    let mut out: Vec<(i64, i64)> = vec![];
    for (k, v) in rows.iter().rev() {
        if !out.iter().any(|(k2, _)| k2 == k) { out.push((*k, *v)); }
    }
    out.sort();
    out
}
fn one_maps_with<T: Elem, S: BuildHasher + Default>(cx: &mut Ctx, a: &[(i64, i64)], b: &[(i64, i64)]) {
    let (ma, mb) = (build_map::<T, S>(a), build_map::<T, S>(b));
    let (s, pass) = verdict(guarded(|| assert_maps_equal(&ma, &mb)));
    let (ra, rb) = (last_wins(a), last_wins(b));
    let want = ra == rb;
    let nt = ra.len() >= 2 && rb.len() >= 2;
    let i = cx.case(format!("ASSERT maps{} {} | {}", T::SUF, enc_kv(a), enc_kv(b)), s.into(), nt);
    cx.count(&format!("maps{}:{}", T::SUF, if pass { "pass" } else { "panic" }));
    if ma.len() != ra.len() || mb.len() != rb.len() {
        cx.oracle_fail(i, "maps-oracle-inconsistent", "reference map size differs from HashMap size".into());
    }
    if pass != want {
        let sig = if pass { "maps-accepts-unequal" } else { "maps-rejects-equal" };
        cx.oracle_fail(i, sig, format!("passes={pass}, same entries={want}"));
    }
}
fn one_maps(cx: &mut Ctx, a: &[(i64, i64)], b: &[(i64, i64)]) {
    one_maps_with::<i64, std::collections::hash_map::RandomState>(cx, a, b);
}
/// the typed variants of one abstract case: `P` (with the all-colliding hasher for maps) and `String`
fn one_maps_typed(cx: &mut Ctx, ty: usize, a: &[(i64, i64)], b: &[(i64, i64)]) {
    match ty {
        0 => one_maps(cx, a, b),
        1 => one_maps_with::<P, BuildHasherDefault<ZeroHasher>>(cx, a, b),
        _ => one_maps_with::<String, std::collections::hash_map::RandomState>(cx, a, b),
    }
}
fn one_eq_typed(cx: &mut Ctx, ty: usize, a: &[i64], b: &[i64]) {
    match ty { 0 => one_eq::<i64>(cx, a, b), 1 => one_eq::<P>(cx, a, b), _ => one_eq::<String>(cx, a, b) }
}
fn one_unord_typed(cx: &mut Ctx, ty: usize, a: &[i64], b: &[i64]) {
    match ty { 0 => one_unord::<i64>(cx, a, b), 1 => one_unord::<P>(cx, a, b), _ => one_unord::<String>(cx, a, b) }
}
fn one_kv_typed(cx: &mut Ctx, ty: usize, a: &[(i64, i64)], b: &[(i64, i64)]) {
    match ty { 0 => one_kv::<i64>(cx, a, b), 1 => one_kv::<P>(cx, a, b), _ => one_kv::<String>(cx, a, b) }
}
fn one_grp_typed(cx: &mut Ctx, ty: usize, a: &[(i64, Vec<i64>)], b: &[(i64, Vec<i64>)]) {
    match ty { 0 => one_grp::<i64>(cx, a, b), 1 => one_grp::<P>(cx, a, b), _ => one_grp::<String>(cx, a, b) }
}
fn one_contains_typed(cx: &mut Ctx, ty: usize, a: &[i64], x: i64) {
    match ty { 0 => one_contains::<i64>(cx, a, x), 1 => one_contains::<P>(cx, a, x), _ => one_contains::<String>(cx, a, x) }
}
fn one_size(cx: &mut Ctx, a: &[i64], n: usize) {
    let (s, pass) = verdict(guarded(|| assert_collection_size(a, n)));
    let i = cx.case(format!("ASSERT size {} {n}", enc_ints(a)), s.into(), !a.is_empty());
    cx.count(if pass { "size:pass" } else { "size:panic" });
    if pass != (a.iter().count() == n) {
        cx.oracle_fail(i, "size-iff-length", format!("passes={pass}, len={} n={n}", a.len()));
    }
}
fn one_contains<T: Elem>(cx: &mut Ctx, a: &[i64], x: i64) {
    let (ta, tx) = (emb_all::<T>(a), T::emb(x));
    let (s, pass) = verdict(guarded(|| assert_contains(&ta, &tx)));
    let i = cx.case(format!("ASSERT contains{} {} {x}", T::SUF, enc_ints(a)), s.into(), a.len() >= 2);
    cx.count(&format!("contains{}:{}", T::SUF, if pass { "pass" } else { "panic" }));
    let occ = a.iter().filter(|y| **y == x).count();
    if pass != (occ > 0) {
        cx.oracle_fail(i, "contains-iff-member", format!("passes={pass}, occurrences={occ}"));
    }
}

/// the closed library of predicates for `assert_all` / `assert_any` / `assert_none`
#[derive(Clone, Copy, Debug)]
enum Pred { True, False, Even, Odd, Neg, Lt(i64), Eq(i64), Ne(i64) }
impl Pred {
    fn enc(self) -> String {
        match self {
            Pred::True => "true".into(), Pred::False => "false".into(), Pred::Even => "even".into(),
            Pred::Odd => "odd".into(), Pred::Neg => "neg".into(), Pred::Lt(n) => format!("lt:{n}"),
            Pred::Eq(n) => format!("eq:{n}"), Pred::Ne(n) => format!("ne:{n}"),
        }
    }
    fn eval(self, x: i64) -> bool {
        match self {
            Pred::True => true, Pred::False => false, Pred::Even => x % 2 == 0, Pred::Odd => x % 2 != 0,
            Pred::Neg => x < 0, Pred::Lt(n) => x < n, Pred::Eq(n) => x == n, Pred::Ne(n) => x != n,
        }
    }
}
fn one_pred(cx: &mut Ctx, which: &str, p: Pred, a: &[i64]) {
    let r = match which {
        "all" => guarded(|| assert_all(a, |x| p.eval(*x))),
        "any" => guarded(|| assert_any(a, |x| p.eval(*x))),
        _ => guarded(|| assert_none(a, |x| p.eval(*x))),
    };
    let (s, pass) = verdict(r);
    let i = cx.case(format!("ASSERT {which} {} {}", p.enc(), enc_ints(a)), s.into(), a.len() >= 2);
    cx.count(&format!("{which}:{}", if pass { "pass" } else { "panic" }));
    // reference: the number of satisfying elements, computed on a sorted copy
    let sat = sorted(a).into_iter().filter(|x| p.eval(*x)).count();
    let want = match which { "all" => sat == a.len(), "any" => sat > 0, _ => sat == 0 };
    if pass != want {
        cx.oracle_fail(i, &format!("{which}-iff-count"), format!("passes={pass}, satisfying={sat} of {}", a.len()));
    }
}

/// SIZE of an exhaustive scope: quick / thorough. The search tier uses the thorough sizes (`Ctx::budget` would
/// multiply the quick value by ten, and a scope parameter is an exponent: length <= 40 over 3 symbols never ends
/// and exhausts the machine's memory first); only iteration counts of random blocks go through `cx.budget`.
pub fn scope(cx: &Ctx, quick: usize, thorough: usize) -> usize {
    if cx.tier == crate::ctx::Tier::Quick { quick } else { thorough }
}

fn all_seqs<T: Clone>(alpha: &[T], max_len: usize) -> Vec<Vec<T>> {
    let mut out: Vec<Vec<T>> = vec![vec![]];
    let mut frontier: Vec<Vec<T>> = vec![vec![]];
    for _ in 0..max_len {
        let mut next = vec![];
        for s in &frontier {
            for x in alpha {
                let mut t = s.clone();
                t.push(x.clone());
                next.push(t);
            }
        }
        out.extend(next.iter().cloned());
        frontier = next;
    }
    out
}

pub fn run(cx: &mut Ctx) {
    // corpus: minimised past failures first
    one_unord::<i64>(cx, &[1, 1, 2], &[1, 2, 2]);
    one_grp::<i64>(cx, &[(0, vec![1, 1])], &[(0, vec![1])]);
    one_grp::<i64>(cx, &[(0, vec![1, 1, 2])], &[(0, vec![1, 2, 2])]);
    one_kv::<i64>(cx, &[(1, 0), (1, 1)], &[(1, 1), (1, 0)]); // rejected before the kv fix
    one_kv::<i64>(cx, &[(1, 0), (1, 0), (1, 1)], &[(1, 0), (1, 1), (1, 1)]); // greedy match must consume partners
    one_kv::<i64>(cx, &[(0, 0), (1, 1)], &[(0, 0), (0, 1)]); // partner must have the same key
    one_kv::<i64>(cx, &[(2, 5), (1, 7), (1, 8)], &[(1, 8), (1, 7), (2, 5)]);
    one_grp::<i64>(cx, &[(0, vec![1, 2])], &[(0, vec![1, 2, 2])]); // actual group is a proper sub-multiset, same set
    one_grp::<i64>(cx, &[(0, vec![1]), (0, vec![2])], &[(0, vec![2]), (0, vec![1])]); // repeated key, same groups: rejected before the second grouped fix
    one_grp::<i64>(cx, &[(0, vec![1]), (0, vec![2])], &[(0, vec![1]), (0, vec![2])]);
    one_grp::<i64>(cx, &[(0, vec![1, 2]), (0, vec![])], &[(0, vec![1]), (0, vec![2])]); // same keys, same flattened rows, different groups
    one_grp::<i64>(cx, &[(0, vec![1]), (0, vec![1]), (0, vec![2])], &[(0, vec![1]), (0, vec![2]), (0, vec![2])]); // partners are consumed
    one_grp::<i64>(cx, &[(0, vec![1, 2]), (0, vec![2, 1]), (1, vec![3])], &[(1, vec![3]), (0, vec![2, 1]), (0, vec![2, 1])]);
    one_grp::<i64>(cx, &[(0, vec![1]), (1, vec![2])], &[(0, vec![1]), (0, vec![2])]); // partner must have the same key
    one_maps(cx, &[(1, 1), (2, 2)], &[(2, 2), (1, 1)]);
    one_maps(cx, &[(1, 1), (2, 2)], &[(1, 1), (3, 2)]); // same size, expected key missing from actual
    one_maps(cx, &[(1, 1), (2, 2)], &[(1, 1), (2, 3)]); // same keys, one value differs
    one_maps(cx, &[(1, 1), (2, 2)], &[(1, 1)]);         // actual has an extra key
    one_maps(cx, &[(1, 1)], &[(1, 1), (2, 2)]);
    one_maps(cx, &[(1, 0), (1, 1)], &[(1, 1)]);         // overwritten entry
    one_size(cx, &[], 0);
    one_size(cx, &[1, 2, 3], 2);
    one_contains::<i64>(cx, &[], 0);
    one_contains::<i64>(cx, &[1, 2, 3], 3);
    one_pred(cx, "all", Pred::Even, &[]);
    one_pred(cx, "any", Pred::Even, &[]);
    one_pred(cx, "none", Pred::Even, &[]);
    one_pred(cx, "all", Pred::Even, &[2, 4, 5]);
    one_pred(cx, "any", Pred::Even, &[1, 3, 4]);
    one_pred(cx, "none", Pred::Even, &[1, 3, 4]);
    // review E (round 3): elements that are unequal but PRINT alike (`P(0,0)` / `P(0,1)` = integers 0 / 1) and
    // collide in the hasher; a comparison keyed by `Debug` output or by hash would accept these
    one_eq::<P>(cx, &[0], &[1]);
    one_eq::<P>(cx, &[0, 1], &[0, 1]);
    one_unord::<P>(cx, &[0, 0, 1], &[0, 1, 1]);
    one_unord::<P>(cx, &[0, 1], &[1, 0]);
    one_kv::<P>(cx, &[(0, 0), (0, 1)], &[(0, 1), (0, 1)]);
    one_kv::<P>(cx, &[(0, 0), (1, 0)], &[(0, 0), (0, 0)]);
    one_grp::<P>(cx, &[(0, vec![0, 0, 1])], &[(0, vec![0, 1, 1])]);
    one_grp::<P>(cx, &[(0, vec![0])], &[(1, vec![0])]);
    one_contains::<P>(cx, &[0, 2], 1);
    one_maps_typed(cx, 1, &[(0, 0), (1, 1)], &[(0, 0), (1, 0)]);
    one_maps_typed(cx, 1, &[(0, 0)], &[(1, 0)]);
    one_kv::<String>(cx, &[(10, 1), (2, 1)], &[(2, 1), (10, 1)]); // "s10" < "s2": the sort order is not the numeric one
    one_grp::<String>(cx, &[(10, vec![1, 2]), (2, vec![3])], &[(2, vec![3]), (10, vec![2, 1])]);
    crate::c20_files::corpus(cx);

    // exhaustive small scope
    let n = scope(cx, 4, 5);
    let seqs = all_seqs(&[0i64, 1, 2], n);
    for a in &seqs {
        for b in &seqs {
            one_eq::<i64>(cx, a, b);
            one_unord::<i64>(cx, a, b);
        }
    }
    cx.exhaustive_blocks.push(format!("eq,unord: all pairs of sequences of length <= {n} over 3 symbols ({} pairs)", seqs.len() * seqs.len()));
    let kv_alpha: Vec<(i64, i64)> = vec![(0, 0), (0, 1), (1, 0), (1, 1)];
    let kn = scope(cx, 4, 5);
    let kvs = all_seqs(&kv_alpha, kn);
    for a in &kvs {
        for b in &kvs {
            one_kv::<i64>(cx, a, b);
        }
    }
    cx.exhaustive_blocks.push(format!("kv: all pairs of row sequences of length <= {kn} over keys {{0,1}} x values {{0,1}} ({} pairs)", kvs.len() * kvs.len()));
    // groups up to length 3 ([0,0,1] vs [0,1,1] sized), one or two rows, unique and repeated keys
    let groups = all_seqs(&[0i64, 1], 3);
    let mut grp_alpha: Vec<(i64, Vec<i64>)> = vec![];
    for k in 0..2 {
        for g in &groups {
            grp_alpha.push((k, g.clone()));
        }
    }
    let gs = all_seqs(&grp_alpha, 2);
    for a in &gs {
        for b in &gs {
            one_grp::<i64>(cx, a, b);
        }
    }
    cx.exhaustive_blocks.push(format!("grp: all pairs of grouped sequences of length <= 2 over keys {{0,1}} x groups of length <= 3 over {{0,1}} ({} pairs)", gs.len() * gs.len()));
    // three rows of one repeated key
    let rk_alpha: Vec<(i64, Vec<i64>)> = vec![(0, vec![]), (0, vec![1]), (0, vec![2]), (0, vec![1, 2]), (0, vec![2, 1]), (1, vec![1])];
    let rk = all_seqs(&rk_alpha, 3);
    for a in &rk {
        for b in &rk {
            one_grp::<i64>(cx, a, b);
        }
    }
    cx.exhaustive_blocks.push(format!("grp: all pairs of grouped sequences of length <= 3 over the rows 0:[] 0:[1] 0:[2] 0:[1,2] 0:[2,1] 1:[1] (repeated keys; {} pairs)", rk.len() * rk.len()));
    // maps: all pairs of insert sequences of length <= 3 over keys {0,1} x values {0,1}
    let ms = all_seqs(&kv_alpha, 3);
    for a in &ms {
        for b in &ms {
            one_maps(cx, a, b);
        }
    }
    cx.exhaustive_blocks.push(format!("maps: all pairs of insert sequences of length <= 3 over keys {{0,1}} x values {{0,1}} ({} pairs)", ms.len() * ms.len()));
    // size / contains / all / any / none: all sequences of length <= 4 over 3 symbols
    let preds = [Pred::True, Pred::False, Pred::Even, Pred::Odd, Pred::Neg, Pred::Lt(1), Pred::Lt(2), Pred::Eq(0), Pred::Eq(2), Pred::Ne(1), Pred::Eq(7)];
    let small = all_seqs(&[0i64, 1, 2], 4);
    for a in &small {
        for n in 0..=5 { one_size(cx, a, n); }
        for x in 0..=3 { one_contains::<i64>(cx, a, x); }
        for p in preds {
            for which in ["all", "any", "none"] { one_pred(cx, which, p, a); }
        }
    }
    cx.exhaustive_blocks.push(format!("size (n <= 5), contains (x <= 3), all/any/none ({} predicates): all sequences of length <= 4 over 3 symbols ({} sequences)", preds.len(), small.len()));

    // the same assertions at the types `P` (lossy Debug, weak Hash) and `String`: smaller scopes
    let tn = scope(cx, 3, 4);
    let tseqs = all_seqs(&[0i64, 1, 2], tn);
    let tkvs = all_seqs(&kv_alpha, tn);
    // grouped DATA: one row per key (key 0, or keys 0 and 1), groups of length <= 3 over {0,1}
    let tgroups = all_seqs(&[0i64, 1], scope(cx, 2, 3));
    let mut tgs: Vec<Vec<(i64, Vec<i64>)>> = vec![vec![]];
    for g in &tgroups { tgs.push(vec![(0, g.clone())]); tgs.push(vec![(1, g.clone())]); }
    for g in &tgroups { for h in &tgroups { tgs.push(vec![(0, g.clone()), (1, h.clone())]); tgs.push(vec![(1, h.clone()), (0, g.clone())]); } }
    let tms = all_seqs(&kv_alpha, 2);
    for ty in 1..=2usize {
        for a in &tseqs {
            for b in &tseqs {
                one_eq_typed(cx, ty, a, b);
                one_unord_typed(cx, ty, a, b);
            }
            for x in 0..=3 { one_contains_typed(cx, ty, a, x); }
        }
        for a in &tkvs { for b in &tkvs { one_kv_typed(cx, ty, a, b); } }
        for a in &tgs { for b in &tgs { one_grp_typed(cx, ty, a, b); } }
        for a in &tms { for b in &tms { one_maps_typed(cx, ty, a, b); } }
    }
    cx.exhaustive_blocks.push(format!("types P(i64,i64) [lossy Debug, weak Hash; maps with an all-colliding BuildHasher] and String: eq, unord: all pairs of sequences of length <= {tn} over 3 symbols ({} pairs per type); contains (x <= 3); kv: all pairs of row sequences of length <= {tn} over keys {{0,1}} x values {{0,1}} ({} pairs per type); grp: all pairs of grouped DATA (one row per key) over keys {{0,1}} x groups of length <= 2 (thorough: 3) over {{0,1}} ({} pairs per type); maps: insert sequences of length <= 2 ({} pairs per type)", tseqs.len() * tseqs.len(), tkvs.len() * tkvs.len(), tgs.len() * tgs.len(), tms.len() * tms.len()));
    // grouped DATA at i64 beyond the blocks above: one row per key, three keys
    let g2 = all_seqs(&[0i64, 1], scope(cx, 1, 2));
    let mut g3: Vec<Vec<(i64, Vec<i64>)>> = vec![];
    for x in &g2 { for y in &g2 { for z in &g2 {
        g3.push(vec![(0, x.clone()), (1, y.clone()), (2, z.clone())]);
        g3.push(vec![(2, z.clone()), (0, x.clone()), (1, y.clone())]);
    } } }
    for a in &g3 { for b in &g3 { one_grp::<i64>(cx, a, b); } }
    cx.exhaustive_blocks.push(format!("grp (grouped data, oracle applies): three keys, one row each, groups of length <= 1 (thorough: 2) over {{0,1}}, two row orders ({} pairs)", g3.len() * g3.len()));

    // the file assertions (assert_jsonl_equals / assert_csv_equals)
    crate::c20_files::exhaustive(cx);

    // long runs: 100..=300 rows / groups / elements sharing ONE key (or one value domain), at all three types
    long_runs(cx);
    crate::c20_files::random(cx);

    // random longer pairs: b is a perturbation of a (shuffle / duplicate-swap / replace / drop)
    let rounds = cx.budget(1500, 30000);
    for round in 0..rounds {
        // every third round runs the generic assertions at `P`, every third at `String`
        let ty = round % 3;
        let len = cx.rng.below(30);
        let dom = 1 + cx.rng.below(6) as i64;
        let a: Vec<i64> = (0..len).map(|_| cx.rng.range(0, dom)).collect();
        let mut b = a.clone();
        perturb(cx, &mut b, dom);
        one_eq_typed(cx, ty, &a, &b);
        one_unord_typed(cx, ty, &a, &b);
        let ka: Vec<(i64, i64)> = a.iter().map(|x| (x % 3, x / 3)).collect();
        let kb: Vec<(i64, i64)> = b.iter().map(|x| (x % 3, x / 3)).collect();
        one_kv_typed(cx, ty, &ka, &kb);
        let mut ga = group(&a);
        let mut gb = group(&b);
        if cx.rng.chance(1, 2) { gb.reverse(); }
        one_grp_typed(cx, ty, &ga, &gb);
        // not grouped data: split one group into two rows with the same key, on one or both sides
        if cx.rng.chance(1, 4) {
            split_group(cx, &mut gb);
            if cx.rng.chance(1, 2) { split_group(cx, &mut ga); }
            one_grp::<i64>(cx, &ga, &gb);
        }
        // a second key/value stream with more keys and values: rows k*4+v, 4 keys x 4 values
        let len2 = cx.rng.below(14);
        let a2: Vec<i64> = (0..len2).map(|_| cx.rng.range(0, 16)).collect();
        let mut b2 = a2.clone();
        perturb(cx, &mut b2, 16);
        let ka2: Vec<(i64, i64)> = a2.iter().map(|x| (x % 4, x / 4)).collect();
        let kb2: Vec<(i64, i64)> = b2.iter().map(|x| (x % 4, x / 4)).collect();
        one_kv_typed(cx, ty, &ka2, &kb2);
        // maps from the same two row streams (a repeated key overwrites)
        one_maps_typed(cx, ty, &ka2, &kb2);
        one_maps_typed(cx, ty, &ka, &kb);
        // size / contains / predicates on the perturbed sequence (negative values included)
        let sh: Vec<i64> = b.iter().map(|x| x - 2).collect();
        let n = if cx.rng.chance(1, 2) { sh.len() } else { cx.rng.below(32) };
        one_size(cx, &sh, n);
        let x = cx.rng.range(-3, dom);
        one_contains_typed(cx, ty, &sh, x);
        let p = match cx.rng.below(8) {
            0 => Pred::True, 1 => Pred::False, 2 => Pred::Even, 3 => Pred::Odd, 4 => Pred::Neg,
            5 => Pred::Lt(cx.rng.range(-3, dom)), 6 => Pred::Eq(cx.rng.range(-3, dom)), _ => Pred::Ne(cx.rng.range(-3, dom)),
        };
        for which in ["all", "any", "none"] { one_pred(cx, which, p, &sh); }
        // groups of a repeated key in a different relative order, then one value changed in one group
        if cx.rng.chance(1, 3) {
            let mut ga2 = group(&a);
            split_group(cx, &mut ga2);
            split_group(cx, &mut ga2);
            let mut gb2 = ga2.clone();
            for i in (1..gb2.len()).rev() { let j = cx.rng.below(i + 1); gb2.swap(i, j); }
            for g in gb2.iter_mut() { if cx.rng.chance(1, 2) { g.1.reverse(); } }
            one_grp_typed(cx, ty, &ga2, &gb2);
            if !gb2.is_empty() {
                let i = cx.rng.below(gb2.len());
                if cx.rng.chance(1, 2) { gb2[i].1.push(cx.rng.range(0, 2)); }
                else if let Some(j) = (0..gb2.len()).find(|&j| j != i && gb2[j].0 == gb2[i].0) {
                    // move one value between two groups of the same key: flattened rows stay equal
                    if let Some(v) = gb2[i].1.pop() { gb2[j].1.push(v); }
                }
                one_grp::<i64>(cx, &ga2, &gb2);
            }
        }
    }
}

fn shuffle<T>(cx: &mut Ctx, v: &mut [T]) {
    for i in (1..v.len()).rev() { let j = cx.rng.below(i + 1); v.swap(i, j); }
}

/// Runs of 100..=300 rows / groups that share ONE key, and collections of 100..=300 elements over a small
/// domain: `b` = `a` shuffled (must pass), then one value changed (must panic), then one row dropped and
/// another duplicated (same length, same set). A position-wise fallback for long runs, a comparison keyed by
/// `Debug` output or by hash value, or a counter that saturates would show here.
fn long_runs(cx: &mut Ctx) {
    let rounds = cx.budget(8, 80);
    for round in 0..rounds {
        let ty = round % 3;
        let n = 100 + cx.rng.below(201);
        let dom = *cx.rng.pick(&[2i64, 5, 1000]);
        cx.count("long-run:rounds");
        // unordered: n elements
        let a: Vec<i64> = (0..n).map(|_| cx.rng.range(0, dom - 1)).collect();
        let mut b = a.clone();
        shuffle(cx, &mut b);
        one_unord_typed(cx, ty, &a, &b);
        one_eq_typed(cx, ty, &a, &b);
        let at = cx.rng.below(n);
        let mut c = b.clone();
        c[at] = (c[at] + 1 + cx.rng.range(0, dom - 2)) % dom; // a different value of the domain
        one_unord_typed(cx, ty, &a, &c);
        one_eq_typed(cx, ty, &b, &c);
        // key/value: a run of n rows with key `k`, a few rows with other keys around it
        let k = cx.rng.range(0, 3);
        let mut ka: Vec<(i64, i64)> = a.iter().map(|v| (k, *v)).collect();
        for _ in 0..cx.rng.below(4) { let kk = cx.rng.range(0, 3); let v = cx.rng.range(0, dom - 1); ka.push((kk, v)); }
        shuffle(cx, &mut ka);
        let mut kb = ka.clone();
        shuffle(cx, &mut kb);
        one_kv_typed(cx, ty, &ka, &kb);
        let mut kc = kb.clone();
        let at = cx.rng.below(kc.len());
        kc[at].1 = (kc[at].1 + 1 + cx.rng.range(0, dom - 2)) % dom;
        one_kv_typed(cx, ty, &ka, &kc);
        // same length, same set of rows, different multiplicities (when some row of the run differs from another)
        let mut kd = kb.clone();
        let (i, j) = (cx.rng.below(kd.len()), cx.rng.below(kd.len()));
        kd[i] = kd[j];
        one_kv_typed(cx, ty, &ka, &kd);
        // a second run of >= 100 rows with another key, so that two long runs follow each other
        if round % 2 == 0 {
            let m = 100 + cx.rng.below(60);
            let mut k2a = ka.clone();
            for _ in 0..m { let v = cx.rng.range(0, dom - 1); k2a.push((k + 1, v)); }
            let mut k2b = k2a.clone();
            shuffle(cx, &mut k2b);
            one_kv_typed(cx, ty, &k2a, &k2b);
            let at = cx.rng.below(k2b.len());
            k2b[at].1 = (k2b[at].1 + 1 + cx.rng.range(0, dom - 2)) % dom;
            one_kv_typed(cx, ty, &k2a, &k2b);
        }
        // grouped DATA (oracle applies): ONE group of n values for key k, one or two small groups for other keys
        let mut ga: Vec<(i64, Vec<i64>)> = vec![(k, a.clone())];
        if cx.rng.chance(1, 2) { ga.push((k + 1, vec![0, 1, 1])); }
        if cx.rng.chance(1, 2) { ga.insert(0, (k + 2, vec![])); }
        let mut gb: Vec<(i64, Vec<i64>)> = ga.iter().map(|(kk, vs)| { let mut w = vs.clone(); shuffle(cx, &mut w); (*kk, w) }).collect();
        gb.reverse();
        one_grp_typed(cx, ty, &ga, &gb);
        let mut gc = gb.clone();
        let gi = gc.iter().position(|g| g.0 == k).unwrap_or(0);
        let at = cx.rng.below(n);
        gc[gi].1[at] = (gc[gi].1[at] + 1 + cx.rng.range(0, dom - 2)) % dom;
        one_grp_typed(cx, ty, &ga, &gc);
        // not grouped data (no oracle, model correspondence): a run of n small groups that share key k
        let ra: Vec<(i64, Vec<i64>)> = (0..n).map(|_| { let l = cx.rng.below(3); (k, (0..l).map(|_| cx.rng.range(0, 2)).collect()) }).collect();
        let mut rb = ra.clone();
        shuffle(cx, &mut rb);
        for g in rb.iter_mut() { g.1.reverse(); }
        one_grp_typed(cx, ty, &ra, &rb);
        let at = cx.rng.below(n);
        rb[at].1.push(cx.rng.range(0, 2));
        one_grp_typed(cx, ty, &ra, &rb);
    }
    cx.notes.push(format!("long runs: {rounds} rounds of 100..=300 rows/groups/elements with one key, shuffled / one value changed / one row duplicated over another, types i64, P, String in turn"));
}

fn group(a: &[i64]) -> Vec<(i64, Vec<i64>)> {
    let mut m: std::collections::BTreeMap<i64, Vec<i64>> = Default::default();
    for x in a { m.entry(x % 3).or_default().push(x / 3); }
    m.into_iter().collect()
}

fn split_group(cx: &mut Ctx, g: &mut Vec<(i64, Vec<i64>)>) {
    if g.is_empty() { return; }
    let i = cx.rng.below(g.len());
    let at = cx.rng.below(g[i].1.len() + 1);
    let tail = g[i].1.split_off(at);
    let k = g[i].0;
    let pos = cx.rng.below(g.len() + 1);
    g.insert(pos, (k, tail));
    cx.count("grp:split-group(repeated key)");
}

fn perturb(cx: &mut Ctx, b: &mut Vec<i64>, dom: i64) {
    match cx.rng.below(6) {
        0 => {}
        1 => { // shuffle
            for i in (1..b.len()).rev() { let j = cx.rng.below(i + 1); b.swap(i, j); }
            cx.count("perturb:shuffle");
        }
        2 => { // change multiplicities, keep the set and the length: copy one element over another
            if b.len() >= 2 { let i = cx.rng.below(b.len()); let j = cx.rng.below(b.len()); b[i] = b[j]; }
            for i in (1..b.len()).rev() { let j = cx.rng.below(i + 1); b.swap(i, j); }
            cx.count("perturb:multiplicity");
        }
        3 => { if !b.is_empty() { let i = cx.rng.below(b.len()); b[i] = cx.rng.range(0, dom); } cx.count("perturb:replace"); }
        4 => { if !b.is_empty() { let i = cx.rng.below(b.len()); b.remove(i); } cx.count("perturb:drop"); }
        _ => { b.reverse(); cx.count("perturb:reverse"); }
    }
}
