//! C20 — the shipped test assertions accept exactly equal collections.
//!
//! Request:  `ASSERT <eq|unord|kv|grp|maps> <A> | <B>`   answer: `PASS` | `PANIC`
//!   eq/unord : A = comma-separated ints (empty list = `-`)
//!   kv       : rows `k:v`
//!   grp      : rows `k:v.v.v` (empty group = `k:`)
//!   maps     : rows `k:v` = the sequence of `HashMap::insert` calls that builds each map (a repeated key
//!              overwrites), compared with `assert_maps_equal`
//! Request:  `ASSERT size <A> <n>` | `ASSERT contains <A> <x>` | `ASSERT <all|any|none> <pred> <A>`
//!   pred     : `true` `false` `even` `odd` `neg` `lt:<n>` `eq:<n>` `ne:<n>` (a closed library of closures)
//! Real side: the real assertion under catch_unwind. Oracle: reference multiset / sequence
//! equality computed by sorting and counting, independent of model and implementation.
//!   kv  : passes <=> the two row collections are equal as multisets, for EVERY input (repeated keys
//!         included; `kv-rejects-equal-multisets-with-repeated-key` was a known finding until the
//!         `fix:` commit that compares runs of equal keys as multisets, it must not occur any more).
//!   grp : passes <=> the two collections are equal as multisets of groups, a group being a key with a
//!         multiset of values, for EVERY input (repeated keys included): reference = equality of the
//!         normal forms (every group's values sorted, then the rows sorted). For grouped data (keys
//!         pairwise distinct on a side) this is the property's literal right-hand side (same multiset of
//!         keys and, for every key, multiset-equal groups); the two references are cross-checked there.
//!         `grp-rejects-equal-multisets-with-repeated-key` was the defect repaired by the second grouped
//!         `fix:` commit ([(0,[1]),(0,[2])] vs [(0,[2]),(0,[1])] panicked); it must not occur any more.
//!   maps: passes <=> the two maps have the same entries (reference: last value per key, sorted).
//!   size / contains / all / any / none: passes <=> len == n / occurrences > 0 / number of satisfying
//!         elements == len / > 0 / == 0.

use crate::ctx::{Ctx, guarded};
use ironbeam::testing::{
    assert_all, assert_any, assert_collection_size, assert_collections_equal,
    assert_collections_unordered_equal, assert_contains, assert_grouped_kv_equal,
    assert_kv_collections_equal, assert_maps_equal, assert_none,
};
use std::collections::HashMap;

fn enc_ints(a: &[i64]) -> String {
    if a.is_empty() { "-".into() } else { a.iter().map(|x| x.to_string()).collect::<Vec<_>>().join(",") }
}
fn enc_kv(a: &[(i64, i64)]) -> String {
    if a.is_empty() { "-".into() } else { a.iter().map(|(k, v)| format!("{k}:{v}")).collect::<Vec<_>>().join(",") }
}
fn enc_grp(a: &[(i64, Vec<i64>)]) -> String {
    if a.is_empty() {
        "-".into()
    } else {
        a.iter()
            .map(|(k, vs)| format!("{k}:{}", vs.iter().map(|x| x.to_string()).collect::<Vec<_>>().join(".")))
            .collect::<Vec<_>>()
            .join(",")
    }
}
fn verdict(r: Result<(), String>) -> (&'static str, bool) {
    match r { Ok(()) => ("PASS", true), Err(_) => ("PANIC", false) }
}
fn sorted<T: Ord + Clone>(a: &[T]) -> Vec<T> { let mut v = a.to_vec(); v.sort(); v }

fn one_eq(cx: &mut Ctx, a: &[i64], b: &[i64]) {
    let (s, pass) = verdict(guarded(|| assert_collections_equal(a, b)));
    let nt = !a.is_empty() && !b.is_empty();
    let i = cx.case(format!("ASSERT eq {} | {}", enc_ints(a), enc_ints(b)), s.into(), nt);
    cx.count(if pass { "eq:pass" } else { "eq:panic" });
    if pass != (a == b) {
        cx.oracle_fail(i, "eq-iff-sequence-equal", format!("passes={pass} but a==b is {}", a == b));
    }
}
fn one_unord(cx: &mut Ctx, a: &[i64], b: &[i64]) {
    let (s, pass) = verdict(guarded(|| assert_collections_unordered_equal(a, b)));
    let want = sorted(a) == sorted(b);
    let nt = a.len() >= 2 && b.len() >= 2;
    let i = cx.case(format!("ASSERT unord {} | {}", enc_ints(a), enc_ints(b)), s.into(), nt);
    cx.count(if pass { "unord:pass" } else { "unord:panic" });
    if pass != want {
        let sig = if pass { "unord-accepts-different-multiplicity" } else { "unord-rejects-equal-multisets" };
        cx.oracle_fail(i, sig, format!("passes={pass}, multiset-equal={want}"));
    }
}
fn keys_nodup<T>(a: &[(i64, T)]) -> bool {
    let mut ks: Vec<i64> = a.iter().map(|x| x.0).collect();
    ks.sort();
    ks.windows(2).all(|w| w[0] != w[1])
}
fn one_kv(cx: &mut Ctx, a: &[(i64, i64)], b: &[(i64, i64)]) {
    let (s, pass) = verdict(guarded(|| assert_kv_collections_equal(a.to_vec(), b.to_vec())));
    let want = sorted(a) == sorted(b);
    let nt = a.len() >= 2 && b.len() >= 2;
    let i = cx.case(format!("ASSERT kv {} | {}", enc_kv(a), enc_kv(b)), s.into(), nt);
    cx.count(if pass { "kv:pass" } else { "kv:panic" });
    if pass {
        // the path repaired by the fix: rows of a repeated key in a different relative order
        let by_key = |x: &[(i64, i64)]| { let mut v = x.to_vec(); v.sort_by_key(|r| r.0); v };
        if by_key(a) != by_key(b) { cx.count("kv:pass(equal-key rows in different relative order)"); }
    }
    if pass != want {
        let sig = if pass {
            "kv-accepts-unequal"
        } else if !keys_nodup(a) {
            // multiset-equal, repeated key, rows of that key in a different relative order
            "kv-rejects-equal-multisets-with-repeated-key"
        } else {
            "kv-rejects-equal-multisets"
        };
        cx.oracle_fail(i, sig, format!("passes={pass}, multiset-equal={want}"));
    }
}
fn one_grp(cx: &mut Ctx, a: &[(i64, Vec<i64>)], b: &[(i64, Vec<i64>)]) {
    let (s, pass) = verdict(guarded(|| assert_grouped_kv_equal(a.to_vec(), b.to_vec())));
    let nt = !a.is_empty() && !b.is_empty();
    let i = cx.case(format!("ASSERT grp {} | {}", enc_grp(a), enc_grp(b)), s.into(), nt);
    cx.count(if pass { "grp:pass" } else { "grp:panic" });
    let keys = |x: &[(i64, Vec<i64>)]| sorted(&x.iter().map(|r| r.0).collect::<Vec<_>>());
    let flat = |x: &[(i64, Vec<i64>)]| {
        sorted(&x.iter().flat_map(|(k, vs)| vs.iter().map(move |v| (*k, *v))).collect::<Vec<_>>())
    };
    // reference for EVERY input: equal as multisets of groups (key, multiset of values)
    let norm = |x: &[(i64, Vec<i64>)]| {
        let mut v: Vec<(i64, Vec<i64>)> = x.iter().map(|(k, vs)| (*k, sorted(vs))).collect();
        v.sort();
        v
    };
    let want = norm(a) == norm(b);
    let nodup = keys_nodup(a) || keys_nodup(b);
    if nodup {
        // cross-check of the oracle itself on grouped data: the property's right-hand side, literally
        // (same multiset of keys and, for every key, every group of that key on one side is
        // multiset-equal to every group of that key on the other side)
        let rhs = keys(a) == keys(b)
            && a.iter().all(|(k, vs)| b.iter().filter(|(k2, _)| k2 == k).all(|(_, ws)| sorted(vs) == sorted(ws)));
        if rhs != want {
            cx.oracle_fail(i, "grp-oracle-inconsistent", "rhs and normal-form equality differ".into());
        }
    } else {
        cx.count("grp:repeated-key-on-both-sides");
        if pass { cx.count("grp:pass(repeated key on both sides)"); }
        if pass && a.len() == b.len() {
            // the path repaired by the fix: groups of a repeated key listed in a different relative order
            let by_key = |x: &[(i64, Vec<i64>)]| {
                let mut v: Vec<(i64, Vec<i64>)> = x.iter().map(|(k, vs)| (*k, sorted(vs))).collect();
                v.sort_by_key(|r| r.0);
                v
            };
            if by_key(a) != by_key(b) { cx.count("grp:pass(equal-key groups in different relative order)"); }
        }
    }
    if pass != want {
        let sig = if pass {
            "grp-accepts-different-multiplicity"
        } else if !keys_nodup(a) {
            "grp-rejects-equal-multisets-with-repeated-key"
        } else {
            "grp-rejects-equal"
        };
        cx.oracle_fail(i, sig, format!("passes={pass}, equal as multisets of groups={want}"));
    }
    // weaker consequences, kept as independent second references (theorems assertGrouped_sound_keys / _flatten)
    if pass && (keys(a) != keys(b) || flat(a) != flat(b)) {
        cx.oracle_fail(i, "grp-accepts-different-rows", format!("passes although keys-equal={} flattened-rows-equal={}", keys(a) == keys(b), flat(a) == flat(b)));
    }
}

fn build_map(rows: &[(i64, i64)]) -> HashMap<i64, i64> {
    let mut m = HashMap::new();
    for (k, v) in rows { m.insert(*k, *v); }
    m
}
/// reference for a map built by inserts: the LAST value of every key, sorted by key (no hash map)
fn last_wins(rows: &[(i64, i64)]) -> Vec<(i64, i64)> {
    let mut out: Vec<(i64, i64)> = vec![];
    for (k, v) in rows.iter().rev() {
        if !out.iter().any(|(k2, _)| k2 == k) { out.push((*k, *v)); }
    }
    out.sort();
    out
}
fn one_maps(cx: &mut Ctx, a: &[(i64, i64)], b: &[(i64, i64)]) {
    let (ma, mb) = (build_map(a), build_map(b));
    let (s, pass) = verdict(guarded(|| assert_maps_equal(&ma, &mb)));
    let (ra, rb) = (last_wins(a), last_wins(b));
    let want = ra == rb;
    let nt = ra.len() >= 2 && rb.len() >= 2;
    let i = cx.case(format!("ASSERT maps {} | {}", enc_kv(a), enc_kv(b)), s.into(), nt);
    cx.count(if pass { "maps:pass" } else { "maps:panic" });
    if ma.len() != ra.len() || mb.len() != rb.len() {
        cx.oracle_fail(i, "maps-oracle-inconsistent", "reference map size differs from HashMap size".into());
    }
    if pass != want {
        let sig = if pass { "maps-accepts-unequal" } else { "maps-rejects-equal" };
        cx.oracle_fail(i, sig, format!("passes={pass}, same entries={want}"));
    }
}
fn one_size(cx: &mut Ctx, a: &[i64], n: usize) {
    let (s, pass) = verdict(guarded(|| assert_collection_size(a, n)));
    let i = cx.case(format!("ASSERT size {} {n}", enc_ints(a)), s.into(), !a.is_empty());
    cx.count(if pass { "size:pass" } else { "size:panic" });
    if pass != (a.iter().count() == n) {
        cx.oracle_fail(i, "size-iff-length", format!("passes={pass}, len={} n={n}", a.len()));
    }
}
fn one_contains(cx: &mut Ctx, a: &[i64], x: i64) {
    let (s, pass) = verdict(guarded(|| assert_contains(a, &x)));
    let i = cx.case(format!("ASSERT contains {} {x}", enc_ints(a)), s.into(), a.len() >= 2);
    cx.count(if pass { "contains:pass" } else { "contains:panic" });
    let occ = a.iter().filter(|y| **y == x).count();
    if pass != (occ > 0) {
        cx.oracle_fail(i, "contains-iff-member", format!("passes={pass}, occurrences={occ}"));
    }
}

/// the closed library of predicates for `assert_all` / `assert_any` / `assert_none`
#[derive(Clone, Copy, Debug)]
enum Pred { True, False, Even, Odd, Neg, Lt(i64), Eq(i64), Ne(i64) }
impl Pred {
    fn enc(self) -> String {
        match self {
            Pred::True => "true".into(), Pred::False => "false".into(), Pred::Even => "even".into(),
            Pred::Odd => "odd".into(), Pred::Neg => "neg".into(), Pred::Lt(n) => format!("lt:{n}"),
            Pred::Eq(n) => format!("eq:{n}"), Pred::Ne(n) => format!("ne:{n}"),
        }
    }
    fn eval(self, x: i64) -> bool {
        match self {
            Pred::True => true, Pred::False => false, Pred::Even => x % 2 == 0, Pred::Odd => x % 2 != 0,
            Pred::Neg => x < 0, Pred::Lt(n) => x < n, Pred::Eq(n) => x == n, Pred::Ne(n) => x != n,
        }
    }
}
fn one_pred(cx: &mut Ctx, which: &str, p: Pred, a: &[i64]) {
    let r = match which {
        "all" => guarded(|| assert_all(a, |x| p.eval(*x))),
        "any" => guarded(|| assert_any(a, |x| p.eval(*x))),
        _ => guarded(|| assert_none(a, |x| p.eval(*x))),
    };
    let (s, pass) = verdict(r);
    let i = cx.case(format!("ASSERT {which} {} {}", p.enc(), enc_ints(a)), s.into(), a.len() >= 2);
    cx.count(&format!("{which}:{}", if pass { "pass" } else { "panic" }));
    // reference: the number of satisfying elements, computed on a sorted copy
    let sat = sorted(a).into_iter().filter(|x| p.eval(*x)).count();
    let want = match which { "all" => sat == a.len(), "any" => sat > 0, _ => sat == 0 };
    if pass != want {
        cx.oracle_fail(i, &format!("{which}-iff-count"), format!("passes={pass}, satisfying={sat} of {}", a.len()));
    }
}

fn all_seqs<T: Clone>(alpha: &[T], max_len: usize) -> Vec<Vec<T>> {
    let mut out: Vec<Vec<T>> = vec![vec![]];
    let mut frontier: Vec<Vec<T>> = vec![vec![]];
    for _ in 0..max_len {
        let mut next = vec![];
        for s in &frontier {
            for x in alpha {
                let mut t = s.clone();
                t.push(x.clone());
                next.push(t);
            }
        }
        out.extend(next.iter().cloned());
        frontier = next;
    }
    out
}

pub fn run(cx: &mut Ctx) {
    // corpus: minimised past failures first
    one_unord(cx, &[1, 1, 2], &[1, 2, 2]);
    one_grp(cx, &[(0, vec![1, 1])], &[(0, vec![1])]);
    one_grp(cx, &[(0, vec![1, 1, 2])], &[(0, vec![1, 2, 2])]);
    one_kv(cx, &[(1, 0), (1, 1)], &[(1, 1), (1, 0)]); // rejected before the kv fix
    one_kv(cx, &[(1, 0), (1, 0), (1, 1)], &[(1, 0), (1, 1), (1, 1)]); // greedy match must consume partners
    one_kv(cx, &[(0, 0), (1, 1)], &[(0, 0), (0, 1)]); // partner must have the same key
    one_kv(cx, &[(2, 5), (1, 7), (1, 8)], &[(1, 8), (1, 7), (2, 5)]);
    one_grp(cx, &[(0, vec![1, 2])], &[(0, vec![1, 2, 2])]); // actual group is a proper sub-multiset, same set
    one_grp(cx, &[(0, vec![1]), (0, vec![2])], &[(0, vec![2]), (0, vec![1])]); // repeated key, same groups: rejected before the second grouped fix
    one_grp(cx, &[(0, vec![1]), (0, vec![2])], &[(0, vec![1]), (0, vec![2])]);
    one_grp(cx, &[(0, vec![1, 2]), (0, vec![])], &[(0, vec![1]), (0, vec![2])]); // same keys, same flattened rows, different groups
    one_grp(cx, &[(0, vec![1]), (0, vec![1]), (0, vec![2])], &[(0, vec![1]), (0, vec![2]), (0, vec![2])]); // partners are consumed
    one_grp(cx, &[(0, vec![1, 2]), (0, vec![2, 1]), (1, vec![3])], &[(1, vec![3]), (0, vec![2, 1]), (0, vec![2, 1])]);
    one_grp(cx, &[(0, vec![1]), (1, vec![2])], &[(0, vec![1]), (0, vec![2])]); // partner must have the same key
    one_maps(cx, &[(1, 1), (2, 2)], &[(2, 2), (1, 1)]);
    one_maps(cx, &[(1, 1), (2, 2)], &[(1, 1), (3, 2)]); // same size, expected key missing from actual
    one_maps(cx, &[(1, 1), (2, 2)], &[(1, 1), (2, 3)]); // same keys, one value differs
    one_maps(cx, &[(1, 1), (2, 2)], &[(1, 1)]);         // actual has an extra key
    one_maps(cx, &[(1, 1)], &[(1, 1), (2, 2)]);
    one_maps(cx, &[(1, 0), (1, 1)], &[(1, 1)]);         // overwritten entry
    one_size(cx, &[], 0);
    one_size(cx, &[1, 2, 3], 2);
    one_contains(cx, &[], 0);
    one_contains(cx, &[1, 2, 3], 3);
    one_pred(cx, "all", Pred::Even, &[]);
    one_pred(cx, "any", Pred::Even, &[]);
    one_pred(cx, "none", Pred::Even, &[]);
    one_pred(cx, "all", Pred::Even, &[2, 4, 5]);
    one_pred(cx, "any", Pred::Even, &[1, 3, 4]);
    one_pred(cx, "none", Pred::Even, &[1, 3, 4]);

    // exhaustive small scope
    let n = cx.budget(4, 5);
    let seqs = all_seqs(&[0i64, 1, 2], n);
    for a in &seqs {
        for b in &seqs {
            one_eq(cx, a, b);
            one_unord(cx, a, b);
        }
    }
    cx.exhaustive_blocks.push(format!("eq,unord: all pairs of sequences of length <= {n} over 3 symbols ({} pairs)", seqs.len() * seqs.len()));
    let kv_alpha: Vec<(i64, i64)> = vec![(0, 0), (0, 1), (1, 0), (1, 1)];
    let kn = cx.budget(4, 5);
    let kvs = all_seqs(&kv_alpha, kn);
    for a in &kvs {
        for b in &kvs {
            one_kv(cx, a, b);
        }
    }
    cx.exhaustive_blocks.push(format!("kv: all pairs of row sequences of length <= {kn} over keys {{0,1}} x values {{0,1}} ({} pairs)", kvs.len() * kvs.len()));
    // groups up to length 3 ([0,0,1] vs [0,1,1] sized), one or two rows, unique and repeated keys
    let groups = all_seqs(&[0i64, 1], 3);
    let mut grp_alpha: Vec<(i64, Vec<i64>)> = vec![];
    for k in 0..2 {
        for g in &groups {
            grp_alpha.push((k, g.clone()));
        }
    }
    let gs = all_seqs(&grp_alpha, 2);
    for a in &gs {
        for b in &gs {
            one_grp(cx, a, b);
        }
    }
    cx.exhaustive_blocks.push(format!("grp: all pairs of grouped sequences of length <= 2 over keys {{0,1}} x groups of length <= 3 over {{0,1}} ({} pairs)", gs.len() * gs.len()));
    // three rows of one repeated key
    let rk_alpha: Vec<(i64, Vec<i64>)> = vec![(0, vec![]), (0, vec![1]), (0, vec![2]), (0, vec![1, 2]), (0, vec![2, 1]), (1, vec![1])];
    let rk = all_seqs(&rk_alpha, 3);
    for a in &rk {
        for b in &rk {
            one_grp(cx, a, b);
        }
    }
    cx.exhaustive_blocks.push(format!("grp: all pairs of grouped sequences of length <= 3 over the rows 0:[] 0:[1] 0:[2] 0:[1,2] 0:[2,1] 1:[1] (repeated keys; {} pairs)", rk.len() * rk.len()));
    // maps: all pairs of insert sequences of length <= 3 over keys {0,1} x values {0,1}
    let ms = all_seqs(&kv_alpha, 3);
    for a in &ms {
        for b in &ms {
            one_maps(cx, a, b);
        }
    }
    cx.exhaustive_blocks.push(format!("maps: all pairs of insert sequences of length <= 3 over keys {{0,1}} x values {{0,1}} ({} pairs)", ms.len() * ms.len()));
    // size / contains / all / any / none: all sequences of length <= 4 over 3 symbols
    let preds = [Pred::True, Pred::False, Pred::Even, Pred::Odd, Pred::Neg, Pred::Lt(1), Pred::Lt(2), Pred::Eq(0), Pred::Eq(2), Pred::Ne(1), Pred::Eq(7)];
    let small = all_seqs(&[0i64, 1, 2], 4);
    for a in &small {
        for n in 0..=5 { one_size(cx, a, n); }
        for x in 0..=3 { one_contains(cx, a, x); }
        for p in preds {
            for which in ["all", "any", "none"] { one_pred(cx, which, p, a); }
        }
    }
    cx.exhaustive_blocks.push(format!("size (n <= 5), contains (x <= 3), all/any/none ({} predicates): all sequences of length <= 4 over 3 symbols ({} sequences)", preds.len(), small.len()));

    // random longer pairs: b is a perturbation of a (shuffle / duplicate-swap / replace / drop)
    let rounds = cx.budget(1500, 30000);
    for _ in 0..rounds {
        let len = cx.rng.below(30);
        let dom = 1 + cx.rng.below(6) as i64;
        let a: Vec<i64> = (0..len).map(|_| cx.rng.range(0, dom)).collect();
        let mut b = a.clone();
        perturb(cx, &mut b, dom);
        one_eq(cx, &a, &b);
        one_unord(cx, &a, &b);
        let ka: Vec<(i64, i64)> = a.iter().map(|x| (x % 3, x / 3)).collect();
        let kb: Vec<(i64, i64)> = b.iter().map(|x| (x % 3, x / 3)).collect();
        one_kv(cx, &ka, &kb);
        let mut ga = group(&a);
        let mut gb = group(&b);
        if cx.rng.chance(1, 2) { gb.reverse(); }
        one_grp(cx, &ga, &gb);
        // not grouped data: split one group into two rows with the same key, on one or both sides
        if cx.rng.chance(1, 4) {
            split_group(cx, &mut gb);
            if cx.rng.chance(1, 2) { split_group(cx, &mut ga); }
            one_grp(cx, &ga, &gb);
        }
        // a second key/value stream with more keys and values: rows k*4+v, 4 keys x 4 values
        let len2 = cx.rng.below(14);
        let a2: Vec<i64> = (0..len2).map(|_| cx.rng.range(0, 16)).collect();
        let mut b2 = a2.clone();
        perturb(cx, &mut b2, 16);
        let ka2: Vec<(i64, i64)> = a2.iter().map(|x| (x % 4, x / 4)).collect();
        let kb2: Vec<(i64, i64)> = b2.iter().map(|x| (x % 4, x / 4)).collect();
        one_kv(cx, &ka2, &kb2);
        // maps from the same two row streams (a repeated key overwrites)
        one_maps(cx, &ka2, &kb2);
        one_maps(cx, &ka, &kb);
        // size / contains / predicates on the perturbed sequence (negative values included)
        let sh: Vec<i64> = b.iter().map(|x| x - 2).collect();
        let n = if cx.rng.chance(1, 2) { sh.len() } else { cx.rng.below(32) };
        one_size(cx, &sh, n);
        let x = cx.rng.range(-3, dom);
        one_contains(cx, &sh, x);
        let p = match cx.rng.below(8) {
            0 => Pred::True, 1 => Pred::False, 2 => Pred::Even, 3 => Pred::Odd, 4 => Pred::Neg,
            5 => Pred::Lt(cx.rng.range(-3, dom)), 6 => Pred::Eq(cx.rng.range(-3, dom)), _ => Pred::Ne(cx.rng.range(-3, dom)),
        };
        for which in ["all", "any", "none"] { one_pred(cx, which, p, &sh); }
        // groups of a repeated key in a different relative order, then one value changed in one group
        if cx.rng.chance(1, 3) {
            let mut ga2 = group(&a);
            split_group(cx, &mut ga2);
            split_group(cx, &mut ga2);
            let mut gb2 = ga2.clone();
            for i in (1..gb2.len()).rev() { let j = cx.rng.below(i + 1); gb2.swap(i, j); }
            for g in gb2.iter_mut() { if cx.rng.chance(1, 2) { g.1.reverse(); } }
            one_grp(cx, &ga2, &gb2);
            if !gb2.is_empty() {
                let i = cx.rng.below(gb2.len());
                if cx.rng.chance(1, 2) { gb2[i].1.push(cx.rng.range(0, 2)); }
                else if let Some(j) = (0..gb2.len()).find(|&j| j != i && gb2[j].0 == gb2[i].0) {
                    // move one value between two groups of the same key: flattened rows stay equal
                    if let Some(v) = gb2[i].1.pop() { gb2[j].1.push(v); }
                }
                one_grp(cx, &ga2, &gb2);
            }
        }
    }
}

fn group(a: &[i64]) -> Vec<(i64, Vec<i64>)> {
    let mut m: std::collections::BTreeMap<i64, Vec<i64>> = Default::default();
    for x in a { m.entry(x % 3).or_default().push(x / 3); }
    m.into_iter().collect()
}

fn split_group(cx: &mut Ctx, g: &mut Vec<(i64, Vec<i64>)>) {
    if g.is_empty() { return; }
    let i = cx.rng.below(g.len());
    let at = cx.rng.below(g[i].1.len() + 1);
    let tail = g[i].1.split_off(at);
    let k = g[i].0;
    let pos = cx.rng.below(g.len() + 1);
    g.insert(pos, (k, tail));
    cx.count("grp:split-group(repeated key)");
}

fn perturb(cx: &mut Ctx, b: &mut Vec<i64>, dom: i64) {
    match cx.rng.below(6) {
        0 => {}
        1 => { // shuffle
            for i in (1..b.len()).rev() { let j = cx.rng.below(i + 1); b.swap(i, j); }
            cx.count("perturb:shuffle");
        }
        2 => { // change multiplicities, keep the set and the length: copy one element over another
            if b.len() >= 2 { let i = cx.rng.below(b.len()); let j = cx.rng.below(b.len()); b[i] = b[j]; }
            for i in (1..b.len()).rev() { let j = cx.rng.below(i + 1); b.swap(i, j); }
            cx.count("perturb:multiplicity");
        }
        3 => { if !b.is_empty() { let i = cx.rng.below(b.len()); b[i] = cx.rng.range(0, dom); } cx.count("perturb:replace"); }
        4 => { if !b.is_empty() { let i = cx.rng.below(b.len()); b.remove(i); } cx.count("perturb:drop"); }
        _ => { b.reverse(); cx.count("perturb:reverse"); }
    }
}
