//! Round 3 (PIPE3b) — a SECOND element type for C02's clause "a pipeline that type-checks never ends in an internal
//! type-mismatch panic": `W` is a newtype over `V`, a different Rust type for the type-erased engine. Typed steps
//! change the element type (`map_values::<V, W>`, `map::<V, W>`, …) or stay on it (`filter_values` on `(V, W)` rows).
//! The planner's value-only reorder moves a `filter_values` on the NEW type in front of the type-changing
//! `map_values`, and the real `FilterValuesOp` then panics in its downcast (`expected Vec<(K,V)>`): the listed
//! reorder finding. Request kind `PIPEW mode=<seq|par:N> ty=<t0> src <rows> ; steps`; the driver runs the
//! tag-carrying model of `Proofs/ElementwiseTyped.lean` (`typedOp`, `typedSource`) through the same planner and
//! engines (`lean/IbModel/Driver/PipeW.lean`).
//!
//! Element-type tags: 0 = `V`, 1 = `W`, 2 = `(V, V)`, 3 = `(V, W)`.

use super::*;

#[derive(Clone, Debug, PartialEq, Eq, Hash, PartialOrd, Ord, serde::Serialize, serde::Deserialize)]
pub struct W(pub V);

#[derive(Clone, Debug)]
pub enum TS {
    // on V (tag 0)
    Map(Fn_), Filter(Pred), KeyBy(KeyFn), MapVW(Fn_),
    // on W (tag 1)
    FilterW(Pred), MapWV(Fn_), MapWW(Fn_), KeyByW(KeyFn),
    // on (V, V) (tag 2)
    MapValues(Fn_), FilterValues(Pred), MapValuesBatches(usize, Fn_), MapValuesVW(Fn_), Values,
    // on (V, W) (tag 3)
    FilterValuesW(Pred), MapValuesWW(Fn_), MapValuesWV(Fn_), MapValuesBatchesW(usize, Fn_), ValuesW,
}

impl TS {
    /// (input tag, output tag) the Rust type checker assigns
    pub fn ty(&self) -> (u8, u8) {
        match self {
            TS::Map(_) | TS::Filter(_) => (0, 0), TS::KeyBy(_) => (0, 2), TS::MapVW(_) => (0, 1),
            TS::FilterW(_) | TS::MapWW(_) => (1, 1), TS::MapWV(_) => (1, 0), TS::KeyByW(_) => (1, 3),
            TS::MapValues(_) | TS::FilterValues(_) | TS::MapValuesBatches(..) => (2, 2), TS::MapValuesVW(_) => (2, 3), TS::Values => (2, 0),
            TS::FilterValuesW(_) | TS::MapValuesWW(_) | TS::MapValuesBatchesW(..) => (3, 3), TS::MapValuesWV(_) => (3, 2), TS::ValuesW => (3, 1),
        }
    }
    pub fn enc(&self) -> String {
        match self {
            TS::Map(f) => format!("map {}", f.enc()), TS::Filter(p) => format!("filter {}", p.enc()), TS::KeyBy(k) => format!("key_by {}", k.enc()),
            TS::MapVW(f) => format!("map_vw {}", f.enc()), TS::FilterW(p) => format!("filter_w {}", p.enc()), TS::MapWV(f) => format!("map_wv {}", f.enc()),
            TS::MapWW(f) => format!("map_ww {}", f.enc()), TS::KeyByW(k) => format!("key_by_w {}", k.enc()),
            TS::MapValues(f) => format!("map_values {}", f.enc()), TS::FilterValues(p) => format!("filter_values {}", p.enc()),
            TS::MapValuesBatches(n, f) => format!("map_values_batches {n} each {}", f.enc()), TS::MapValuesVW(f) => format!("map_values_vw {}", f.enc()),
            TS::Values => "values".into(), TS::FilterValuesW(p) => format!("filter_values_w {}", p.enc()), TS::MapValuesWW(f) => format!("map_values_ww {}", f.enc()),
            TS::MapValuesWV(f) => format!("map_values_wv {}", f.enc()), TS::MapValuesBatchesW(n, f) => format!("map_values_batches_w {n} each {}", f.enc()),
            TS::ValuesW => "values_w".into(),
        }
    }
    /// sort key of the planner's reorder pass for the value-only steps
    pub fn movable_key(&self) -> Option<(u8, u8)> {
        match self {
            TS::FilterValues(_) | TS::FilterValuesW(_) => Some((0, 1)),
            TS::MapValuesBatches(..) | TS::MapValuesBatchesW(..) => Some((1, 2)),
            TS::MapValues(_) | TS::MapValuesVW(_) | TS::MapValuesWW(_) | TS::MapValuesWV(_) => Some((1, 3)),
            _ => None,
        }
    }
}

#[derive(Clone, Debug)]
pub struct TProg { pub t0: u8, pub src: Vec<V>, pub steps: Vec<TS> }

impl TProg {
    pub fn final_ty(&self) -> u8 { self.steps.last().map_or(self.t0, |s| s.ty().1) }
    pub fn well_typed(&self) -> bool {
        let mut t = self.t0;
        for s in &self.steps { if s.ty().0 != t { return false; } t = s.ty().1; }
        true
    }
    /// would the reorder pass change the order of the single fused block?
    pub fn reorder_active(&self) -> bool {
        let keys: Option<Vec<(u8, u8)>> = self.steps.iter().map(TS::movable_key).collect();
        match keys { Some(k) if k.len() > 1 => k.windows(2).any(|w| w[0] > w[1]), _ => false }
    }
    pub fn request(&self, mode: &str) -> String {
        format!("PIPEW mode={mode} ty={} src {}{}", self.t0, V::L(self.src.clone()).enc(), self.steps.iter().map(|s| format!(" ; {}", s.enc())).collect::<String>())
    }
}

pub enum CollW { T(PCollection<V>), TW(PCollection<W>), KV(PCollection<(V, V)>), KW(PCollection<(V, W)>) }

fn source_w(p: &Pipeline, t0: u8, rows: &[V]) -> CollW {
    match t0 {
        0 => CollW::T(from_vec(p, rows.to_vec())),
        1 => CollW::TW(from_vec(p, rows.iter().cloned().map(W).collect::<Vec<_>>())),
        2 => CollW::KV(from_vec(p, rows.iter().map(kv_of).collect::<Vec<_>>())),
        _ => CollW::KW(from_vec(p, rows.iter().map(|r| { let (k, v) = kv_of(r); (k, W(v)) }).collect::<Vec<_>>())),
    }
}

fn apply_ts(c: CollW, s: &TS) -> CollW {
    match (s.clone(), c) {
        (TS::Map(f), CollW::T(x)) => CollW::T(x.map(move |v: &V| f.eval(v))),
        (TS::Filter(p), CollW::T(x)) => CollW::T(x.filter(move |v: &V| p.eval(v))),
        (TS::KeyBy(k), CollW::T(x)) => CollW::KV(x.key_by(move |v: &V| k.eval(v))),
        (TS::MapVW(f), CollW::T(x)) => CollW::TW(x.map::<W, _>(move |v: &V| W(f.eval(v)))),
        (TS::FilterW(p), CollW::TW(x)) => CollW::TW(x.filter(move |w: &W| p.eval(&w.0))),
        (TS::MapWV(f), CollW::TW(x)) => CollW::T(x.map::<V, _>(move |w: &W| f.eval(&w.0))),
        (TS::MapWW(f), CollW::TW(x)) => CollW::TW(x.map::<W, _>(move |w: &W| W(f.eval(&w.0)))),
        (TS::KeyByW(k), CollW::TW(x)) => CollW::KW(x.key_by(move |w: &W| k.eval(&w.0))),
        (TS::MapValues(f), CollW::KV(x)) => CollW::KV(x.map_values::<V, _>(move |v: &V| f.eval(v))),
        (TS::FilterValues(p), CollW::KV(x)) => CollW::KV(x.filter_values(move |v: &V| p.eval(v))),
        (TS::MapValuesBatches(n, f), CollW::KV(x)) => CollW::KV(x.map_values_batches::<V, _>(n, move |c: &[V]| c.iter().map(|v| f.eval(v)).collect())),
        (TS::MapValuesVW(f), CollW::KV(x)) => CollW::KW(x.map_values::<W, _>(move |v: &V| W(f.eval(v)))),
        (TS::Values, CollW::KV(x)) => CollW::T(x.map(|r: &(V, V)| r.1.clone())),
        (TS::FilterValuesW(p), CollW::KW(x)) => CollW::KW(x.filter_values(move |w: &W| p.eval(&w.0))),
        (TS::MapValuesWW(f), CollW::KW(x)) => CollW::KW(x.map_values::<W, _>(move |w: &W| W(f.eval(&w.0)))),
        (TS::MapValuesWV(f), CollW::KW(x)) => CollW::KV(x.map_values::<V, _>(move |w: &W| f.eval(&w.0))),
        (TS::MapValuesBatchesW(n, f), CollW::KW(x)) => CollW::KW(x.map_values_batches::<W, _>(n, move |c: &[W]| c.iter().map(|w| W(f.eval(&w.0))).collect())),
        (TS::ValuesW, CollW::KW(x)) => CollW::TW(x.map(|r: &(V, W)| r.1.clone())),
        _ => panic!("harness: typed step does not type-check"),
    }
}

fn collect_w(c: CollW, mode: Mode) -> anyhow::Result<Vec<V>> {
    Ok(match (c, mode) {
        (CollW::T(x), Mode::Seq) => x.collect_seq()?,
        (CollW::T(x), Mode::Par(n)) => x.collect_par(None, Some(n))?,
        (CollW::TW(x), Mode::Seq) => x.collect_seq()?.into_iter().map(|w| w.0).collect(),
        (CollW::TW(x), Mode::Par(n)) => x.collect_par(None, Some(n))?.into_iter().map(|w| w.0).collect(),
        (CollW::KV(x), Mode::Seq) => x.collect_seq()?.iter().map(row_v_kv).collect(),
        (CollW::KV(x), Mode::Par(n)) => x.collect_par(None, Some(n))?.iter().map(row_v_kv).collect(),
        (CollW::KW(x), Mode::Seq) => x.collect_seq()?.into_iter().map(|(k, w)| V::pair(k, w.0)).collect(),
        (CollW::KW(x), Mode::Par(n)) => x.collect_par(None, Some(n))?.into_iter().map(|(k, w)| V::pair(k, w.0)).collect(),
    })
}

pub fn run_real_w(prog: &TProg, mode: Mode) -> Outcome {
    let prog = prog.clone();
    let run = move || {
        let p = Pipeline::default();
        let mut c = source_w(&p, prog.t0, &prog.src);
        for s in &prog.steps { c = apply_ts(c, s); }
        collect_w(c, mode)
    };
    for secs in [20u64, 60, 120] {
        let g = run.clone();
        match with_watchdog(secs, move || g()) {
            None => continue,
            Some(Err(msg)) => return Outcome::Panic(msg),
            Some(Ok(Err(e))) => return Outcome::Err(format!("{e}")),
            Some(Ok(Ok(rows))) => return Outcome::Rows(rows),
        }
    }
    Outcome::Hang
}

fn answer_w(o: &Outcome, ty: u8) -> String {
    match o {
        Outcome::Rows(rows) => format!("OK ty={ty} {}", V::L(rows.clone()).enc()),
        Outcome::Err(e) if e.contains("terminal type mismatch") => "ERR terminal-type-mismatch".into(),
        other => outcome_answer(other, "seq"),
    }
}

/// the steps as written on plain vectors; `W` is transparent (a newtype)
pub fn reference_w(prog: &TProg) -> Vec<V> {
    let mut rows = prog.src.clone();
    for s in &prog.steps {
        match s {
            TS::Map(f) | TS::MapVW(f) | TS::MapWV(f) | TS::MapWW(f) => rows = rows.iter().map(|x| f.eval(x)).collect(),
            TS::Filter(p) | TS::FilterW(p) => rows.retain(|x| p.eval(x)),
            TS::KeyBy(k) | TS::KeyByW(k) => rows = rows.iter().map(|x| V::pair(k.eval(x), x.clone())).collect(),
            TS::MapValues(f) | TS::MapValuesVW(f) | TS::MapValuesWW(f) | TS::MapValuesWV(f) | TS::MapValuesBatches(_, f) | TS::MapValuesBatchesW(_, f) =>
                rows = rows.iter().map(|r| V::pair(key_of(r), f.eval(&val_of(r)))).collect(),
            TS::FilterValues(p) | TS::FilterValuesW(p) => rows.retain(|r| p.eval(&val_of(r))),
            TS::Values | TS::ValuesW => rows = rows.iter().map(val_of).collect(),
        }
    }
    rows
}

/// Run a type-checked program in every mode; oracle: the steps as written, never a type-mismatch panic / error.
/// A difference is attributed to the listed reorder finding ONLY IF it vanishes with the one pass skipped (and, in
/// `bin/ibcheck`, the model predicts the real answer); any other panic or `terminal type mismatch` is a violation.
pub fn check_typed(cx: &mut Ctx, prog: &TProg, modes: &[Mode]) {
    assert!(prog.well_typed(), "harness: generated typed program does not type-check");
    let want = format!("OK ty={} {}", prog.final_ty(), V::L(reference_w(prog)).enc());
    let nontrivial = prog.src.len() >= 2 && !prog.steps.is_empty();
    cx.count(if prog.reorder_active() { "typed:reorder-pass-active" } else { "typed:reorder-pass-inert" });
    if prog.steps.iter().any(|s| s.ty().0 != s.ty().1) { cx.count("typed:has-type-changing-step"); }
    for s in &prog.steps { cx.count(&format!("typed-step:{}", s.enc().split(' ').next().unwrap_or(""))); }
    for m in modes {
        let out = run_real_w(prog, *m);
        let ans = answer_w(&out, prog.final_ty());
        let idx = cx.case(prog.request(&m.enc()), ans.clone(), nontrivial);
        cx.count(&format!("typed-outcome:{}", ans.split(' ').next().unwrap_or("")));
        if matches!(out, Outcome::Hang) { cx.oracle_fail(idx, "run-does-not-terminate", format!("typed program, mode {}", m.enc())); continue; }
        if ans != want {
            ironbeam::verif_hooks::set_skip_reorder(true);
            let out2 = run_real_w(prog, *m);
            ironbeam::verif_hooks::set_skip_reorder(false);
            let ans2 = answer_w(&out2, prog.final_ty());
            let sig = if ans2 == want { if ans == "PANIC" { cx.count("typed:downcast-panic-through-reorder-pass"); } "planned-differs-from-literal-only-through-reorder-pass" }
                else if ans == "PANIC" { "type-checked-pipeline-panics(not through the reorder pass)" }
                else if ans.starts_with("ERR terminal-type-mismatch") { "type-checked-pipeline-ends-in-terminal-type-mismatch" }
                else { "differs-from-reference" };
            cx.oracle_fail(idx, sig, format!("mode={} real={ans} reference={want} real-without-reorder-pass={ans2}", m.enc()));
        }
    }
}

fn gen_fn1(rng: &mut Rng) -> Fn_ { rng.pick(&[Fn_::Add(1), Fn_::Add(-2), Fn_::Mul(2), Fn_::Neg, Fn_::Modn(3), Fn_::Dup, Fn_::Tostr, Fn_::Len]).clone() }
fn gen_pred1(rng: &mut Rng) -> Pred { rng.pick(&[Pred::Even, Pred::Even, Pred::Lt(3), Pred::Ge(0), Pred::Ne(1), Pred::Tt, Pred::Ff]).clone() }

/// one random step legal on element type `t`; `value_only` restricts to the movable (value-only) steps
pub fn gen_ts(rng: &mut Rng, t: u8, value_only: bool) -> TS {
    loop {
        let s = match rng.below(18) {
            0 => TS::Map(gen_fn1(rng)), 1 => TS::Filter(gen_pred1(rng)), 2 => TS::KeyBy(KeyFn::Kmod(rng.range(1, 3))), 3 => TS::MapVW(gen_fn1(rng)),
            4 => TS::FilterW(gen_pred1(rng)), 5 => TS::MapWV(gen_fn1(rng)), 6 => TS::MapWW(gen_fn1(rng)), 7 => TS::KeyByW(KeyFn::Kmod(rng.range(1, 3))),
            8 => TS::MapValues(gen_fn1(rng)), 9 => TS::FilterValues(gen_pred1(rng)), 10 => TS::MapValuesBatches(rng.below(4), gen_fn1(rng)), 11 => TS::MapValuesVW(gen_fn1(rng)),
            12 => TS::Values, 13 => TS::FilterValuesW(gen_pred1(rng)), 14 => TS::MapValuesWW(gen_fn1(rng)), 15 => TS::MapValuesWV(gen_fn1(rng)),
            16 => TS::MapValuesBatchesW(rng.below(4), gen_fn1(rng)), _ => TS::ValuesW,
        };
        if s.ty().0 == t && (!value_only || s.movable_key().is_some()) { return s; }
    }
}

pub fn gen_tprog(rng: &mut Rng, max_steps: usize, max_rows: usize, value_only: bool) -> TProg {
    let t0 = if value_only { *rng.pick(&[2u8, 2, 3]) } else { *rng.pick(&[0u8, 1, 2, 2, 3]) };
    let shape = if t0 >= 2 { Shape::KV } else { Shape::T };
    let src = gen_rows(rng, shape, max_rows);
    let n = rng.below(max_steps + 1);
    let mut t = t0;
    let mut steps = vec![];
    for _ in 0..n { let s = gen_ts(rng, t, value_only); t = s.ty().1; steps.push(s); }
    TProg { t0, src, steps }
}
