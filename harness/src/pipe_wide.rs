//! Engine / generator breadth for the pipeline family (C01, C04, C05, C07):
//! * the FAN-OUT DOMAIN beyond 64: {65 (in-process), 2^20, u32::MAX, usize::MAX-1, usize::MAX} on every global-combine
//!   entry point, at top level and inside either join side, both modes — fan-outs above 4096 run in a child process
//!   under an address-space limit (`pipe_x::check_block_in_children`);
//! * WIDE PLANS in the quick tier: 130..400 rows x {65, 66, 100, 127, 128, 129, 200, 256} partitions x every barrier kind;
//! * built-in Min/Max on the global and lifted entry points with partitions emptied by an upstream filter;
//! * the sample of programs for `collect_par(Some(t), Some(n))` (run in a child per `t`).

use crate::ctx::{Ctx, Rng, Tier};
use crate::pipe::*;
use crate::pipe_x::*;

fn kv(k: i64, v: i64) -> V { V::pair(V::I(k), V::I(v)) }

/* ---------------------------------------------------------------- fan-out domain */

pub const HUGE_FANOUTS: [usize; 4] = [1 << 20, u32::MAX as usize, usize::MAX - 1, usize::MAX];

fn global_step(c: &Comb, fo: Option<usize>, lifted: bool) -> Step {
    if lifted { Step::CombineGloballyLifted(c.clone(), fo) } else { Step::CombineGlobally(c.clone(), fo) }
}

/// (program, modes) with a global combine of fan-out `fo` at top level / inside the left / inside the right join side
fn fanout_progs(fo: usize, rows_choices: &[usize], big: usize) -> Vec<(Prog, Vec<XMode>)> {
    let mut v = vec![];
    let t_src = |n: usize| -> Vec<V> { (0..n as i64).map(|i| V::I((i * 7 + 3) % 11 - 2)).collect() };
    let modes_for = |n: usize| -> Vec<XMode> {
        let mut m = vec![XMode::Seq, XMode::Par(1), XMode::Par(2), XMode::Par(3)];
        if n >= 5 { m.push(XMode::Par(n)); }
        if n >= big { m.push(XMode::Par(70)); m.push(XMode::Par(131)); }
        m
    };
    for &n in rows_choices {
        for lifted in [false, true] {
            for c in [Comb::Sum, Comb::Topk(2)] {
                v.push((Prog { shape: Shape::T, src: t_src(n), steps: vec![global_step(&c, Some(fo), lifted)] }, modes_for(n)));
            }
        }
    }
    let other = Prog { shape: Shape::KV, src: vec![kv(0, 7), kv(13, 8), kv(0, 9)], steps: vec![] };
    for &n in &[0usize, 3, big] {
        for lifted in [false, true] {
            let side = Prog { shape: Shape::T, src: t_src(n), steps: vec![global_step(&Comb::Sum, Some(fo), lifted), Step::Map(Fn_::Modn(14)), Step::Topair] };
            // inside the LEFT side (the outer program's own lineage) …
            let mut a = side.clone();
            a.steps.push(Step::Join(if lifted { JoinKind::Left } else { JoinKind::Full }, Box::new(other.clone())));
            v.push((a, modes_for(n)));
            // … and inside the RIGHT side
            let mut b = other.clone();
            b.steps.push(Step::Join(if lifted { JoinKind::Right } else { JoinKind::Inner }, Box::new(side)));
            v.push((b, modes_for(n)));
        }
    }
    v
}

/// jobs of the child block `fanout`: every fan-out above 4096
pub fn fanout_jobs(tier: Tier) -> Vec<Job> {
    let big = 150;
    let rows: &[usize] = if tier == Tier::Quick { &[0, 1, 3, 9, 150] } else { &[0, 1, 2, 3, 5, 9, 33, 150] };
    let mut jobs = vec![];
    for fo in HUGE_FANOUTS {
        for (p, modes) in fanout_progs(fo, rows, big) { for m in modes { jobs.push((p.clone(), m)); } }
    }
    jobs
}

/// fan-out domain block: 65 in-process (with more than 65 partitions, so that it takes two rounds), the rest in children
pub fn fanout_block(cx: &mut Ctx, o: &XOpts) {
    let _t = crate::pipe_x::BlockTimer::new("fanout_block");
    let mut n = 0;
    for (p, modes) in fanout_progs(65, &[0, 1, 9, 150], 150) {
        check_prog_x(cx, &p, &modes, o);
        n += 1;
    }
    check_block_in_children(cx, "fanout", o, "fanout>4096:in-child-process");
    let njobs = fanout_jobs(cx.tier).len();
    cx.exhaustive_blocks.push(format!("fan-out domain: fan-out 65 in-process ({n} programs) and {{2^20, u32::MAX, usize::MAX-1, usize::MAX}} in child processes under a 2 GiB address-space limit ({njobs} runs): combine_globally / combine_globally_lifted x {{Sum, TopK(2)}} at top level, Sum inside the left and inside the right join side; rows {{0,1,3,9,150}}; seq + par 1,2,3,n,70,131"));
}

/* ---------------------------------------------------------------- collect_par(Some(t), Some(n)) */

/// jobs of the child block `threads:<t>`: a seeded sample of programs, each sequentially and with `collect_par(Some(t), Some(n))`
pub fn threads_jobs(t: usize, seed: u64, tier: Tier) -> Vec<Job> {
    let mut rng = Rng(seed ^ 0x7A3E_55C1_9B0D_1234 ^ (t as u64) << 40);
    let opts = GenOpts { max_steps: 8, max_rows: 24, barriers: true, joins: true, globals: true, nonlocal_batches: false };
    let count = if tier == Tier::Quick { 14 } else { 120 };
    let mut jobs = vec![];
    let mut tries = 0;
    while jobs.len() < count * 3 && tries < count * 20 {
        tries += 1;
        let p = gen_prog(&mut rng, &opts);
        if !hazard_free(&p) { continue; }
        let n = p.src.len();
        jobs.push((p.clone(), XMode::Seq));
        jobs.push((p.clone(), XMode::ParT(t, *rng.pick(&partition_choices(n)))));
        jobs.push((p, XMode::ParT(t, 1 + rng.below(6))));
    }
    jobs
}

pub fn threads_block(cx: &mut Ctx, o: &XOpts) {
    let _t = crate::pipe_x::BlockTimer::new("threads_block");
    for t in [1usize, 2, 3] {
        check_block_in_children(cx, &format!("threads:{t}"), o, "collect_par(Some(t),Some(n)):in-child-process");
    }
}

/* ---------------------------------------------------------------- wide plans */

pub const WIDE_PARTS: [usize; 8] = [65, 66, 100, 127, 128, 129, 200, 256];

#[derive(Clone, Copy, PartialEq, Debug)]
pub enum WideKind { Gbk, CvSum, CvCount, CvTopk, CvUser, Lifted, LiftedRaw, Global, GlobalLifted, Distinct, DistinctPerKey, JoinSides, JoinGbkSides }

pub const WIDE_ALL: [WideKind; 13] = [WideKind::Gbk, WideKind::CvSum, WideKind::CvCount, WideKind::CvTopk, WideKind::CvUser, WideKind::Lifted, WideKind::LiftedRaw,
    WideKind::Global, WideKind::GlobalLifted, WideKind::Distinct, WideKind::DistinctPerKey, WideKind::JoinSides, WideKind::JoinGbkSides];

fn wide_kv_rows(rng: &mut Rng, n: usize, nkeys: i64) -> Vec<V> {
    (0..n).map(|i| kv(if rng.chance(1, 6) { 0 } else { rng.range(0, nkeys - 1) }, (i as i64 * 13 + rng.range(0, 5)) % 37 - 9)).collect()
}

fn wide_prog(rng: &mut Rng, kind: WideKind, i: usize) -> Prog {
    let n = 130 + rng.below(271);
    let nkeys = *rng.pick(&[3i64, 11, 40, 150]);
    let src = wide_kv_rows(rng, n, nkeys);
    let fo = [None, Some(2), Some(3), Some(64), Some(65)][i % 5];
    let user = [Comb::USumMod(7), Comb::UUnion, Comb::UMaxAbs, Comb::MinT][i % 4].clone();
    let steps = match kind {
        WideKind::Gbk => if i % 3 == 0 { vec![Step::Gbk, Step::Gsum] } else { vec![Step::Gbk] },
        WideKind::CvSum => vec![Step::CombineValues(Comb::Sum)],
        WideKind::CvCount => vec![Step::CombineValues(Comb::Count)],
        WideKind::CvTopk => vec![Step::CombineValues(Comb::Topk(1 + i % 4))],
        WideKind::CvUser => vec![Step::CombineValues(user)],
        WideKind::Lifted => vec![Step::Gbk, Step::CombineValuesLifted([Comb::Sum, Comb::Count, Comb::Topk(2), Comb::MaxT, Comb::USumMod(5)][i % 5].clone())],
        WideKind::LiftedRaw => vec![Step::CombineValuesLifted([Comb::Sum, Comb::Count, Comb::MinT, Comb::UUnion][i % 4].clone())],
        WideKind::Global => vec![Step::Values, Step::CombineGlobally([Comb::Sum, Comb::Count, Comb::Topk(3), Comb::MaxT, Comb::UMaxAbs, Comb::USumMod(11)][i % 6].clone(), fo)],
        WideKind::GlobalLifted => vec![Step::Values, Step::CombineGloballyLifted([Comb::Sum, Comb::Topk(3), Comb::MinT, Comb::UUnion][i % 4].clone(), fo)],
        WideKind::Distinct => vec![Step::Values, Step::Distinct],
        WideKind::DistinctPerKey => vec![Step::MapValues(Fn_::Modn(5)), Step::DistinctPerKey],
        WideKind::JoinSides | WideKind::JoinGbkSides => {
            let m = 130 + rng.below(120);
            let rkeys = (nkeys * 2).max(60);
            let rsrc = wide_kv_rows(rng, m, rkeys);
            let kindj = [JoinKind::Inner, JoinKind::Left, JoinKind::Right, JoinKind::Full][i % 4];
            if kind == WideKind::JoinSides {
                vec![Step::Join(kindj, Box::new(Prog { shape: Shape::KV, src: rsrc, steps: vec![Step::MapValues(Fn_::Add(100))] })), Step::CombineValues(Comb::Count)]
            } else {
                // barriers inside both sides: the GBK / CombineValues / CombineGlobal arms of `run_subplan_par` see the wide split
                let rsteps = match i % 3 { 0 => vec![Step::Gbk, Step::Glen], 1 => vec![Step::CombineValues(Comb::Sum)], _ => vec![Step::Gbk, Step::CombineValuesLifted(Comb::Count)] };
                let mut s = match (i / 3) % 3 { 0 => vec![Step::CombineValues(Comb::Sum)], 1 => vec![Step::Gbk, Step::Gsum], _ => vec![Step::Values, Step::CombineGlobally(Comb::Sum, fo), Step::Map(Fn_::Modn(7)), Step::Topair] };
                s.push(Step::Join(kindj, Box::new(Prog { shape: Shape::KV, src: rsrc, steps: rsteps })));
                s
            }
        }
    };
    let shape = if kind == WideKind::LiftedRaw { Shape::KG } else { Shape::KV };
    let src = if kind == WideKind::LiftedRaw {
        // raw grouped input: a key repeats across many partitions, some groups empty
        (0..n).map(|i| V::pair(V::I(rng.range(0, nkeys - 1)), V::L((0..rng.below(3)).map(|j| V::I((i as i64 + j as i64) % 9)).collect()))).collect()
    } else { src };
    Prog { shape, src, steps }
}

/// WIDE PLANS: `per_kind` programs for each kind, each sequentially and with three of the wide partition counts
pub fn wide_block(cx: &mut Ctx, kinds: &[WideKind], per_kind: usize, o: &XOpts) {
    let _t = crate::pipe_x::BlockTimer::new("wide_block");
    let mut n = 0;
    for kind in kinds {
        for i in 0..per_kind {
            let p = wide_prog(&mut cx.rng, *kind, i);
            let a = WIDE_PARTS[(i * 3) % 8];
            let b = WIDE_PARTS[(i * 3 + 1) % 8];
            let c = WIDE_PARTS[(i * 3 + 2) % 8];
            cx.count(&format!("wide-plan:{kind:?}"));
            check_prog_x(cx, &p, &[XMode::Seq, XMode::Par(a), XMode::Par(b), XMode::Par(c)], o);
            n += 1;
        }
    }
    cx.count_n("wide-plan:programs", n);
    cx.notes.push(format!("wide plans: {n} programs of 130..400 rows over 3/11/40/150 keys x partitions from {{65,66,100,127,128,129,200,256}} x {kinds:?}"));
}

/// one 12000-row x 5000-key case (oracle only: the request would be ~150 KB per mode); with 2..3 partitions every
/// partition holds > 4096 groups and most keys span partitions (round-4 seeded change C04-5: a large-merge path gated at 4096 groups)
pub fn many_keys_case(cx: &mut Ctx, steps: Vec<Step>, modes: &[Mode]) {
    check_prog_oracle_only(cx, &many_keys_prog(steps), "rows=12000 keys=5000", modes);
}
pub fn many_keys_prog(steps: Vec<Step>) -> Prog {
    let src: Vec<V> = (0..12000i64).map(|i| kv((i * 7919) % 5000, i % 97)).collect();
    Prog { shape: Shape::KV, src, steps }
}

/* ---------------------------------------------------------------- built-in Min / Max on global and lifted entry points */

/// Built-in `Min` / `Max` whenever the reference is not a panic — with partitions EMPTIED by an upstream filter
/// (first / middle / last / several), more partitions than rows — and "reference PANIC => PANIC in both modes" when
/// every row is filtered away (then the combine is the last step: panics are not sticky in the model).
pub fn minmax_block(cx: &mut Ctx, o: &XOpts) {
    let _t = crate::pipe_x::BlockTimer::new("minmax_block");
    let mut n = 0;
    // three blocks of three rows; a block of zeros is removed by `filter ne 0`
    let blocks: [[i64; 3]; 3] = [[5, -2, 7], [4, 9, -6], [3, 8, 1]];
    for mask in 0u8..8 {
        let src: Vec<V> = (0..3).flat_map(|b| (0..3).map(move |j| if mask & (1 << b) != 0 { 0 } else { blocks[b][j] })).map(V::I).collect();
        for c in [Comb::Min, Comb::Max] {
            for (lifted, fo) in [(false, None), (false, Some(2)), (false, Some(3)), (true, None), (true, Some(2))] {
                let mut steps = vec![Step::Filter(Pred::Ne(0)), global_step(&c, fo, lifted)];
                if mask != 7 && n % 2 == 0 { steps.push(Step::Map(Fn_::Add(1))); }
                let p = Prog { shape: Shape::T, src: src.clone(), steps };
                check_prog_x(cx, &p, &[XMode::Seq, XMode::Par(3), XMode::Par(2), XMode::Par(9), XMode::Par(64)], o);
                n += 1;
            }
        }
    }
    // more partitions than rows, single rows, ties
    for src in [vec![4i64], vec![4, 4], vec![-1, 0], vec![2, -2, 2]] {
        for c in [Comb::Min, Comb::Max] {
            for lifted in [false, true] {
                let p = Prog { shape: Shape::T, src: src.iter().map(|x| V::I(*x)).collect(), steps: vec![global_step(&c, Some(2), lifted)] };
                check_prog_x(cx, &p, &[XMode::Seq, XMode::Par(2), XMode::Par(5), XMode::Par(7)], o);
                n += 1;
            }
        }
    }
    // lifted per-key entry point on RAW grouped input: a key with an empty group next to a non-empty one (any order,
    // same / different partitions) has a value; a key all of whose groups are empty has none (PANIC in both modes)
    let g = |k: i64, vs: &[i64]| V::pair(V::I(k), V::L(vs.iter().map(|x| V::I(*x)).collect()));
    let kg_inputs: Vec<Vec<V>> = vec![
        vec![g(1, &[3]), g(1, &[])], vec![g(1, &[]), g(1, &[3])], vec![g(1, &[3, 1]), g(2, &[5]), g(1, &[]), g(2, &[])],
        vec![g(1, &[]), g(2, &[4]), g(1, &[2]), g(1, &[]), g(2, &[])], vec![g(1, &[2]), g(2, &[7]), g(3, &[1]), g(3, &[]), g(2, &[]), g(1, &[])],
        vec![g(1, &[])], vec![g(1, &[2]), g(2, &[])], vec![],
    ];
    for src in &kg_inputs {
        for c in [Comb::Min, Comb::Max] {
            let p = Prog { shape: Shape::KG, src: src.clone(), steps: vec![Step::CombineValuesLifted(c.clone())] };
            check_prog_x(cx, &p, &[XMode::Seq, XMode::Par(2), XMode::Par(3), XMode::Par(6)], o);
            n += 1;
        }
    }
    // gbk then a value filter cannot empty a group, but a lifted combine after gbk over filtered rows must still agree
    for src in [vec![kv(1, 0), kv(1, 3), kv(2, 0), kv(2, 0), kv(1, 2)], vec![kv(1, 0), kv(2, 4)]] {
        for c in [Comb::Min, Comb::Max] {
            let p = Prog { shape: Shape::KV, src: src.clone(), steps: vec![Step::FilterValues(Pred::Ne(0)), Step::Gbk, Step::CombineValuesLifted(c.clone())] };
            check_prog_x(cx, &p, &[XMode::Seq, XMode::Par(2), XMode::Par(5)], o);
            n += 1;
        }
    }
    cx.exhaustive_blocks.push(format!("built-in Min/Max on combine_globally / combine_globally_lifted (fan-out none/2/3) behind `filter ne 0` over 3 blocks of 3 rows with every subset of blocks emptied (all emptied = reference PANIC => PANIC in both modes) x seq + par 3,2,9,64; more partitions than rows; combine_values_lifted(Min/Max) on raw grouped input with empty groups ({n} programs)"));
}
