//! C20, file assertions: `assert_jsonl_equals` / `assert_csv_equals` (`src/testing/mock_io.rs`, re-exported by
//! `ironbeam::testing::*`) — "the ordered assertion" on the records of a file.
//!
//! Request:  `ASSERT jsonl <F> | <E>`   `ASSERT csv <F> | <E>`      answer: `PASS` | `PANIC`
//!   F : `missing` (no such file) | `-` (a file of 0 bytes) | comma-separated LINE CLASSES
//!       jsonl: `k:v` a line holding the JSON object of `Row { k, v }`; `_` a blank line; `!` a bad line
//!       csv  : `h` the header `k,v`; `hs` the header `v,k`; `a:b` the line `a,b`; `_` an empty line; `!` a bad line
//!   E : the expected records `k:v` (`-` = none)
//! The harness RENDERS every class into text in several ways (field order, inner whitespace, an unknown extra
//! field, `\n` / `\r\n`, final newline or not, quoted CSV fields; nine kinds of bad JSONL lines, among them a line
//! that is not UTF-8; six kinds of bad CSV lines) chosen by the seeded PRNG, or lets the shipped
//! `mock_jsonl_file` / `mock_csv_file` write the file when it consists of records only. The rendering is not on
//! the wire: the answer may not depend on it. The record type has a LOSSY `Debug` (prints `k` only).
//! Oracle (independent of the model):
//!   jsonl: passes <=> the file exists, holds no bad line and its record lines, in order, are exactly E.
//!   csv  : judged when the file is missing, has no non-empty line, or starts (after empty lines) with a header:
//!          passes <=> it exists, every further non-empty line is a row, and the rows — read against the header BY
//!          NAME — are exactly E in order (no non-empty line: E empty). Files whose first non-empty line is not a
//!          header (the csv crate consumes it as the header row) are executed for model correspondence only.

use crate::c20::{enc_kv, verdict};
use crate::ctx::{Ctx, guarded};
use ironbeam::testing::{assert_csv_equals, assert_jsonl_equals, mock_csv_file, mock_jsonl_file};
use serde::{Deserialize, Serialize};
use std::path::{Path, PathBuf};

#[derive(Clone, PartialEq, Serialize, Deserialize)]
pub struct Row { k: i64, v: i64 }
impl std::fmt::Debug for Row {
    fn fmt(&self, f: &mut std::fmt::Formatter<'_>) -> std::fmt::Result { write!(f, "Row({})", self.k) }
}
fn rows(e: &[(i64, i64)]) -> Vec<Row> { e.iter().map(|(k, v)| Row { k: *k, v: *v }).collect() }

#[derive(Clone, Copy, PartialEq, Debug)]
pub enum JTok { Rec(i64, i64), Blank, Bad }
#[derive(Clone, Copy, PartialEq, Debug)]
pub enum CTok { Hdr, HdrS, Row(i64, i64), Empty, Bad }

fn enc_j(f: &Option<Vec<JTok>>) -> String {
    match f {
        None => "missing".into(),
        Some(v) if v.is_empty() => "-".into(),
        Some(v) => v.iter().map(|t| match t { JTok::Rec(k, v) => format!("{k}:{v}"), JTok::Blank => "_".into(), JTok::Bad => "!".into() }).collect::<Vec<_>>().join(","),
    }
}
fn enc_c(f: &Option<Vec<CTok>>) -> String {
    match f {
        None => "missing".into(),
        Some(v) if v.is_empty() => "-".into(),
        Some(v) => v.iter().map(|t| match t {
            CTok::Hdr => "h".into(), CTok::HdrS => "hs".into(), CTok::Row(a, b) => format!("{a}:{b}"),
            CTok::Empty => "_".into(), CTok::Bad => "!".into() }).collect::<Vec<_>>().join(","),
    }
}

fn render_j(cx: &mut Ctx, toks: &[JTok]) -> Vec<u8> {
    let crlf = cx.rng.chance(1, 4);
    let final_nl = cx.rng.chance(3, 4);
    let mut out: Vec<u8> = vec![];
    for (i, t) in toks.iter().enumerate() {
        let line: Vec<u8> = match t {
            JTok::Rec(k, v) => match cx.rng.below(5) {
                0 | 1 => format!("{{\"k\":{k},\"v\":{v}}}"),
                2 => format!("{{\"v\":{v},\"k\":{k}}}"),
                3 => format!("  {{ \"k\" : {k} , \"v\" : {v} }}\t"),
                _ => format!("{{\"k\":{k},\"zz\":null,\"v\":{v}}}"),
            }.into_bytes(),
            JTok::Blank => (*cx.rng.pick(&["", " ", "\t", "  \t "])).as_bytes().to_vec(),
            JTok::Bad => match cx.rng.below(9) {
                0 => b"{".to_vec(),
                1 => b"nope".to_vec(),
                2 => b"{\"k\":1}".to_vec(),
                3 => b"{\"k\":1,\"v\":\"x\"}".to_vec(),
                4 => b"{\"k\":1,\"v\":2} x".to_vec(),
                5 => b"{\"k\":1.5,\"v\":2}".to_vec(),
                6 => b"null".to_vec(),
                7 => vec![0xff, 0xfe, b'{', b'}'],
                _ => b"{\"k\":1,\"k\":1,\"v\":2}".to_vec(),
            },
        };
        out.extend_from_slice(&line);
        if i + 1 < toks.len() || final_nl {
            out.extend_from_slice(if crlf { b"\r\n" } else { b"\n" });
        }
    }
    out
}

fn render_c(cx: &mut Ctx, toks: &[CTok]) -> Vec<u8> {
    let crlf = cx.rng.chance(1, 4);
    let final_nl = cx.rng.chance(3, 4);
    let mut out: Vec<u8> = vec![];
    for (i, t) in toks.iter().enumerate() {
        let quoted = cx.rng.chance(1, 4);
        let line: String = match t {
            CTok::Hdr => if quoted { "\"k\",\"v\"".into() } else { "k,v".into() },
            CTok::HdrS => if quoted { "\"v\",\"k\"".into() } else { "v,k".into() },
            CTok::Row(a, b) => if quoted { format!("\"{a}\",\"{b}\"") } else { format!("{a},{b}") },
            CTok::Empty => String::new(),
            CTok::Bad => (*cx.rng.pick(&["x,2", "1", "1,2,3", "1,", "1,2x", "1.5,2"])).to_string(),
        };
        out.extend_from_slice(line.as_bytes());
        if i + 1 < toks.len() || final_nl {
            out.extend_from_slice(if crlf { b"\r\n" } else { b"\n" });
        }
    }
    out
}

pub struct Files { dir: tempfile::TempDir, n: u64 }
impl Files {
    /// a private directory, in memory when the machine has `/dev/shm` (no dependence on a busy disk)
    fn new() -> Option<Files> {
        let shm = Path::new("/dev/shm");
        let dir = if shm.is_dir() { tempfile::tempdir_in(shm).or_else(|_| tempfile::tempdir()) } else { tempfile::tempdir() };
        dir.ok().map(|dir| Files { dir, n: 0 })
    }
    /// a fresh name every time (an existing file is never truncated and rewritten); the previous file is removed
    fn path(&mut self, ext: &str) -> PathBuf {
        if self.n > 0 { let _ = std::fs::remove_file(self.dir.path().join(format!("f{}.{ext}", self.n))); let _ = std::fs::remove_file(self.dir.path().join(format!("f{}.{}", self.n, if ext == "csv" { "jsonl" } else { "csv" }))); }
        self.n += 1;
        self.dir.path().join(format!("f{}.{ext}", self.n))
    }
    fn missing(&self) -> PathBuf { self.dir.path().join("no-such-dir").join("no-such-file") }
}

/// one JSONL file against several expectations
fn jsonl_file(cx: &mut Ctx, fs: &mut Files, file: &Option<Vec<JTok>>, expected: &[Vec<(i64, i64)>]) {
    let mut keep = None; // a `TempFilePath` of the shipped writer, alive while the assertions run
    let path: PathBuf = match file {
        None => fs.missing(),
        Some(toks) => {
            let only_recs: Vec<(i64, i64)> = toks.iter().filter_map(|t| if let JTok::Rec(k, v) = t { Some((*k, *v)) } else { None }).collect();
            if only_recs.len() == toks.len() && cx.rng.chance(1, 3) {
                // the shipped writer: one line per record
                match mock_jsonl_file(&rows(&only_recs)) {
                    Ok(t) => { cx.count("jsonl:file-written-by-mock_jsonl_file"); let p = t.path().to_path_buf(); keep = Some(t); p }
                    Err(_) => { cx.count("jsonl:skipped(temporary file could not be written)"); return; }
                }
            } else {
                let p = fs.path("jsonl");
                let bytes = render_j(cx, toks);
                if std::fs::write(&p, bytes).is_err() { cx.count("jsonl:skipped(temporary file could not be written)"); return; }
                p
            }
        }
    };
    for e in expected { one_jsonl(cx, &path, file, e); }
    drop(keep);
}
fn one_jsonl(cx: &mut Ctx, path: &Path, file: &Option<Vec<JTok>>, e: &[(i64, i64)]) {
    let exp = rows(e);
    let (s, pass) = verdict(guarded(|| assert_jsonl_equals(path, &exp)));
    let recs: Option<Vec<(i64, i64)>> = file.as_ref().map(|t| t.iter().filter_map(|x| if let JTok::Rec(k, v) = x { Some((*k, *v)) } else { None }).collect());
    let bad = file.as_ref().is_some_and(|t| t.contains(&JTok::Bad));
    let want = !bad && recs.as_deref() == Some(e);
    let nt = recs.as_ref().is_some_and(|r| !r.is_empty()) && !e.is_empty();
    let i = cx.case(format!("ASSERT jsonl {} | {}", enc_j(file), enc_kv(e)), s.into(), nt);
    cx.count(if pass { "jsonl:pass" } else { "jsonl:panic" });
    if file.is_none() { cx.count("jsonl:file-missing"); }
    if bad { cx.count("jsonl:bad-line"); }
    if let Some(r) = &recs {
        if !bad && r.len() < e.len() && e.starts_with(r) { cx.count("jsonl:file-is-proper-prefix-of-expected"); }
        if !bad && r.len() > e.len() && r.starts_with(e) { cx.count("jsonl:file-extends-expected"); }
    }
    if pass != want {
        let sig = if pass { "jsonl-accepts-different-file" } else { "jsonl-rejects-equal-file" };
        cx.oracle_fail(i, sig, format!("passes={pass}; file exists={}, bad line={bad}, records of the file == expected: {}", file.is_some(), recs.as_deref() == Some(e)));
    }
}

/// one CSV file against several expectations
fn csv_file(cx: &mut Ctx, fs: &mut Files, file: &Option<Vec<CTok>>, expected: &[Vec<(i64, i64)>]) {
    let mut keep = None;
    let path: PathBuf = match file {
        None => fs.missing(),
        Some(toks) => {
            let body_rows: Vec<(i64, i64)> = toks.iter().skip(1).filter_map(|t| if let CTok::Row(a, b) = t { Some((*a, *b)) } else { None }).collect();
            if toks.first() == Some(&CTok::Hdr) && body_rows.len() + 1 == toks.len() && !body_rows.is_empty() && cx.rng.chance(1, 3) {
                // the shipped writer (it writes the header row for either value of `with_header`)
                let with_header = cx.rng.chance(1, 2);
                match mock_csv_file(&rows(&body_rows), with_header) {
                    Ok(t) => { cx.count("csv:file-written-by-mock_csv_file"); let p = t.path().to_path_buf(); keep = Some(t); p }
                    Err(_) => { cx.count("csv:skipped(temporary file could not be written)"); return; }
                }
            } else {
                let p = fs.path("csv");
                let bytes = render_c(cx, toks);
                if std::fs::write(&p, bytes).is_err() { cx.count("csv:skipped(temporary file could not be written)"); return; }
                p
            }
        }
    };
    for e in expected { one_csv(cx, &path, file, e); }
    drop(keep);
}
fn one_csv(cx: &mut Ctx, path: &Path, file: &Option<Vec<CTok>>, e: &[(i64, i64)]) {
    let exp = rows(e);
    let (s, pass) = verdict(guarded(|| assert_csv_equals(path, &exp)));
    // reference, from the line classes only
    let lines: Option<Vec<CTok>> = file.as_ref().map(|t| t.iter().copied().filter(|x| *x != CTok::Empty).collect());
    // Some(want) = the oracle judges this file; None = first non-empty line is not a header: correspondence only
    let want: Option<bool> = match &lines {
        None => Some(false),
        Some(l) if l.is_empty() => Some(e.is_empty()),
        Some(l) => match l[0] {
            CTok::Hdr | CTok::HdrS => {
                let swapped = l[0] == CTok::HdrS;
                let mut recs = vec![];
                let mut ok = true;
                for t in &l[1..] {
                    match t { CTok::Row(a, b) => recs.push(if swapped { (*b, *a) } else { (*a, *b) }), _ => ok = false }
                }
                Some(ok && recs == e)
            }
            _ => None,
        },
    };
    let nt = lines.as_ref().is_some_and(|l| l.len() >= 2) && !e.is_empty();
    let i = cx.case(format!("ASSERT csv {} | {}", enc_c(file), enc_kv(e)), s.into(), nt);
    cx.count(if pass { "csv:pass" } else { "csv:panic" });
    if file.is_none() { cx.count("csv:file-missing"); }
    match want {
        None => cx.count("csv:first-line-is-not-a-header(no oracle; model correspondence only)"),
        Some(w) => {
            if let Some(l) = &lines {
                let body: Vec<(i64, i64)> = l.iter().skip(1).filter_map(|t| if let CTok::Row(a, b) = t { Some((*a, *b)) } else { None }).collect();
                if l.first() == Some(&CTok::Hdr) && body.len() + 1 == l.len() {
                    if body.len() < e.len() && e.starts_with(&body) { cx.count("csv:file-is-proper-prefix-of-expected"); }
                    if body.len() > e.len() && body.starts_with(e) { cx.count("csv:file-extends-expected"); }
                }
            }
            if pass != w {
                let sig = if pass { "csv-accepts-different-file" } else { "csv-rejects-equal-file" };
                cx.oracle_fail(i, sig, format!("passes={pass}, the file's records (read against its header) == expected: {w}"));
            }
        }
    }
}

fn seqs<T: Clone>(alpha: &[T], max_len: usize) -> Vec<Vec<T>> {
    let mut out: Vec<Vec<T>> = vec![vec![]];
    let mut frontier: Vec<Vec<T>> = vec![vec![]];
    for _ in 0..max_len {
        let mut next = vec![];
        for s in &frontier { for x in alpha { let mut t = s.clone(); t.push(x.clone()); next.push(t); } }
        out.extend(next.iter().cloned());
        frontier = next;
    }
    out
}

/// design witnesses: equal, proper prefix, extension, one record changed, empty file, missing file, blank / bad lines
pub fn corpus(cx: &mut Ctx) {
    let Some(mut fs) = Files::new() else { cx.notes.push("C20 files: no temporary directory; file assertions not exercised".into()); return; };
    let e2 = vec![(1, 2), (3, 4)];
    let exps = vec![e2.clone()];
    use JTok::*;
    for f in [
        Some(vec![Rec(1, 2), Rec(3, 4)]), Some(vec![Rec(1, 2)]), Some(vec![Rec(1, 2), Rec(3, 4), Rec(5, 6)]),
        Some(vec![Rec(1, 2), Rec(3, 5)]), Some(vec![Rec(3, 4), Rec(1, 2)]), Some(vec![]), None,
        Some(vec![Blank, Rec(1, 2), Blank, Blank, Rec(3, 4), Blank]), Some(vec![Rec(1, 2), Bad, Rec(3, 4)]),
        Some(vec![Rec(1, 2), Rec(3, 4), Bad]),
    ] {
        jsonl_file(cx, &mut fs, &f, &exps);
    }
    jsonl_file(cx, &mut fs, &Some(vec![]), &[vec![]]);
    jsonl_file(cx, &mut fs, &Some(vec![Blank]), &[vec![]]);
    jsonl_file(cx, &mut fs, &None, &[vec![]]);
    jsonl_file(cx, &mut fs, &Some(vec![Bad]), &[vec![]]);
    for f in [
        Some(vec![CTok::Hdr, CTok::Row(1, 2), CTok::Row(3, 4)]), Some(vec![CTok::Hdr, CTok::Row(1, 2)]),
        Some(vec![CTok::Hdr, CTok::Row(1, 2), CTok::Row(3, 4), CTok::Row(5, 6)]), Some(vec![CTok::Hdr, CTok::Row(1, 2), CTok::Row(3, 5)]),
        Some(vec![CTok::HdrS, CTok::Row(2, 1), CTok::Row(4, 3)]), Some(vec![CTok::HdrS, CTok::Row(1, 2), CTok::Row(3, 4)]),
        Some(vec![CTok::Hdr, CTok::Row(1, 2), CTok::Empty, CTok::Row(3, 4), CTok::Empty]), Some(vec![CTok::Hdr, CTok::Row(1, 2), CTok::Bad]),
        Some(vec![CTok::Hdr, CTok::Row(1, 2), CTok::Row(3, 4), CTok::Hdr]), Some(vec![CTok::Hdr]), Some(vec![]), None,
        Some(vec![CTok::Row(1, 2), CTok::Row(3, 4)]), Some(vec![CTok::Row(0, 0), CTok::Row(1, 2), CTok::Row(3, 4)]),
    ] {
        csv_file(cx, &mut fs, &f, &exps);
    }
    csv_file(cx, &mut fs, &Some(vec![]), &[vec![]]);
    csv_file(cx, &mut fs, &Some(vec![CTok::Hdr]), &[vec![]]);
    csv_file(cx, &mut fs, &Some(vec![CTok::Row(1, 2)]), &[vec![]]);
    csv_file(cx, &mut fs, &Some(vec![CTok::Bad]), &[vec![]]);
    csv_file(cx, &mut fs, &None, &[vec![]]);
}

pub fn exhaustive(cx: &mut Ctx) {
    let Some(mut fs) = Files::new() else { return; };
    let n = crate::c20::scope(cx, 3, 4);
    let exps = seqs(&[(0i64, 0i64), (0, 1), (1, 0)], 3);
    let jfiles = seqs(&[JTok::Rec(0, 0), JTok::Rec(0, 1), JTok::Rec(1, 0), JTok::Blank, JTok::Bad], n);
    for f in &jfiles { jsonl_file(cx, &mut fs, &Some(f.clone()), &exps); }
    jsonl_file(cx, &mut fs, &None, &exps);
    cx.exhaustive_blocks.push(format!("jsonl: all files of <= {n} lines over the line classes 0:0 0:1 1:0 blank bad (+ the missing file) x all expectations of <= 3 records over 0:0 0:1 1:0 ({} pairs); 0:0 and 0:1 print alike under the record's Debug", (jfiles.len() + 1) * exps.len()));
    let bodies = seqs(&[CTok::Row(0, 0), CTok::Row(0, 1), CTok::Row(1, 0), CTok::Empty, CTok::Bad], n);
    let mut cnt = 0;
    for h in [CTok::Hdr, CTok::HdrS] {
        for b in &bodies {
            let mut f = vec![h];
            f.extend_from_slice(b);
            csv_file(cx, &mut fs, &Some(f), &exps);
            cnt += exps.len();
        }
    }
    // every line class in every position, header or not: files of <= 2 lines (3 in the thorough tier)
    let any = seqs(&[CTok::Hdr, CTok::HdrS, CTok::Row(0, 1), CTok::Row(1, 0), CTok::Empty, CTok::Bad], n - 1);
    let exps2 = seqs(&[(0i64, 1i64), (1, 0)], 2);
    for f in &any { csv_file(cx, &mut fs, &Some(f.clone()), &exps2); cnt += exps2.len(); }
    csv_file(cx, &mut fs, &None, &exps2);
    cx.exhaustive_blocks.push(format!("csv: header k,v or v,k followed by all bodies of <= {n} lines over the line classes 0:0 0:1 1:0 empty bad x all expectations of <= 3 records; all files of <= {} lines over h hs 0:1 1:0 empty bad (+ the missing file) x expectations of <= 2 records ({} pairs)", n - 1, cnt + exps2.len()));
}

pub fn random(cx: &mut Ctx) {
    let Some(mut fs) = Files::new() else { return; };
    let rounds = cx.budget(300, 6000);
    for round in 0..rounds {
        // the records the file is meant to hold; one long file (BufReader / csv buffer boundaries) per 100 rounds
        let len = if round % 100 == 7 { 1500 + cx.rng.below(1500) } else { cx.rng.below(40) };
        let dom = 1 + cx.rng.below(4) as i64;
        let data: Vec<(i64, i64)> = (0..len).map(|_| (cx.rng.range(-dom, dom), cx.rng.range(0, dom))).collect();
        // the expectation: equal / proper prefix / extension / one record changed / one dropped / two swapped
        let mut e = data.clone();
        match cx.rng.below(7) {
            0 | 1 => {}
            2 => { let cut = cx.rng.below(e.len() + 1); e.truncate(cut); cx.count("files:expected=prefix-of-file"); }
            3 => { for _ in 0..1 + cx.rng.below(3) { e.push((cx.rng.range(-dom, dom), cx.rng.range(0, dom))); } cx.count("files:expected=file+more"); }
            4 => { if !e.is_empty() { let i = cx.rng.below(e.len()); e[i].1 += 1; } cx.count("files:expected=one-value-changed"); }
            5 => { if !e.is_empty() { let i = cx.rng.below(e.len()); e.remove(i); } cx.count("files:expected=one-record-dropped"); }
            _ => { if e.len() >= 2 { let i = cx.rng.below(e.len() - 1); e.swap(i, i + 1); } cx.count("files:expected=neighbours-swapped"); }
        }
        // blank / empty lines sprinkled in; a bad line in one file out of six
        let mut j: Vec<JTok> = vec![];
        let mut c: Vec<CTok> = vec![if cx.rng.chance(1, 5) { CTok::HdrS } else { CTok::Hdr }];
        let swapped = c[0] == CTok::HdrS;
        let sprinkle = cx.rng.chance(1, 2);
        for (k, v) in &data {
            if sprinkle && cx.rng.chance(1, 6) { j.push(JTok::Blank); c.push(CTok::Empty); }
            j.push(JTok::Rec(*k, *v));
            c.push(if swapped { CTok::Row(*v, *k) } else { CTok::Row(*k, *v) });
        }
        if cx.rng.chance(1, 6) {
            let at = cx.rng.below(j.len() + 1);
            j.insert(at, JTok::Bad);
            let at = 1 + cx.rng.below(c.len());
            c.insert(at, CTok::Bad);
        }
        jsonl_file(cx, &mut fs, &Some(j), std::slice::from_ref(&e));
        csv_file(cx, &mut fs, &Some(c), std::slice::from_ref(&e));
    }
}
