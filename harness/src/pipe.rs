//! The pipeline family (C01, C02, C04, C05, C07): dynamic element type `V`, the named function
//! library (mirrors `lean/IbModel/Model/Program.lean`), program generation, the interpreter that
//! turns a program into REAL ironbeam builder calls, request encoding, and an independent
//! reference interpreter over plain vectors (the oracle).

use crate::ctx::{Ctx, Rng};
use ironbeam::combiners::{DistinctSet, Max, Min, Sum, TopK};
use ironbeam::{Count, PCollection, Pipeline, from_vec};
use std::collections::BTreeMap;
use std::sync::mpsc;
use std::time::Duration;

/* ---------------------------------------------------------------- values */

#[derive(Clone, Debug, PartialEq, Eq, serde::Serialize, serde::Deserialize)]
pub enum V {
    I(i64),
    S(String),
    U,
    N,
    O(Box<V>),
    P(Box<V>, Box<V>),
    L(Vec<V>),
}

/// round 5: while set, `V: Hash` feeds only three bits of `to_int()` to the hasher — a LEGAL `Hash` (equal values hash
/// equally) that is much coarser than `Eq`: many distinct keys share every hash. Code that identifies keys by their
/// hash (a merge keyed on a carried `u64`, a dedup on hashes) then fuses distinct keys; `HashMap`/`HashSet` proper are
/// unaffected. Toggled only between runs (`coarse_hash_cases`); requests made under it carry the kind `PIPEH`.
pub static COARSE_HASH: std::sync::atomic::AtomicBool = std::sync::atomic::AtomicBool::new(false);
impl std::hash::Hash for V {
    fn hash<H: std::hash::Hasher>(&self, state: &mut H) {
        if COARSE_HASH.load(std::sync::atomic::Ordering::Relaxed) { state.write_u8((self.to_int() & 7) as u8); return; }
        match self {
            V::I(i) => { state.write_u8(0); state.write_i64(*i); }
            V::S(s) => { state.write_u8(1); s.hash(state); }
            V::U => state.write_u8(2),
            V::N => state.write_u8(3),
            V::O(v) => { state.write_u8(4); v.hash(state); }
            V::P(a, b) => { state.write_u8(5); a.hash(state); b.hash(state); }
            V::L(vs) => { state.write_u8(6); state.write_usize(vs.len()); for v in vs { v.hash(state); } }
        }
    }
}

impl V {
    pub fn to_int(&self) -> i64 {
        match self {
            V::I(i) => *i,
            V::S(s) => s.len() as i64,
            V::U | V::N => 0,
            V::O(v) => v.to_int(),
            V::P(a, b) => a.to_int().wrapping_add(b.to_int()),
            V::L(vs) => vs.len() as i64,
        }
    }
    pub fn enc_into(&self, out: &mut String) {
        match self {
            V::I(i) => out.push_str(&format!("I{i}")),
            V::S(s) => {
                out.push('S');
                out.push_str(&crate::ctx::hex(s.as_bytes()));
            }
            V::U => out.push('U'),
            V::N => out.push('N'),
            V::O(v) => {
                out.push_str("O ");
                v.enc_into(out);
            }
            V::P(a, b) => {
                out.push_str("P ");
                a.enc_into(out);
                out.push(' ');
                b.enc_into(out);
            }
            V::L(vs) => {
                out.push_str(&format!("L{}", vs.len()));
                for v in vs {
                    out.push(' ');
                    v.enc_into(out);
                }
            }
        }
    }
    pub fn enc(&self) -> String {
        let mut s = String::new();
        self.enc_into(&mut s);
        s
    }
    /// canonical form: every nested list sorted by encoded text
    pub fn deep_canon(&self) -> V {
        match self {
            V::O(v) => V::O(Box::new(v.deep_canon())),
            V::P(a, b) => V::P(Box::new(a.deep_canon()), Box::new(b.deep_canon())),
            V::L(vs) => {
                let mut c: Vec<(String, V)> = vs.iter().map(|v| { let d = v.deep_canon(); (d.enc(), d) }).collect();
                c.sort_by(|a, b| a.0.cmp(&b.0));
                V::L(c.into_iter().map(|x| x.1).collect())
            }
            v => v.clone(),
        }
    }
    pub fn pair(a: V, b: V) -> V {
        V::P(Box::new(a), Box::new(b))
    }
}

impl PartialOrd for V {
    fn partial_cmp(&self, other: &Self) -> Option<std::cmp::Ordering> {
        Some(self.cmp(other))
    }
}
impl V {
    /// variant rank of the structural order: `I < S < U < N < O < P < L` (Lean `Val.rank`; there `nil` = 6,
    /// `cons` = 7 — both are `L` here, the empty list first by the prefix rule below)
    fn rank(&self) -> u8 {
        match self {
            V::I(_) => 0,
            V::S(_) => 1,
            V::U => 2,
            V::N => 3,
            V::O(_) => 4,
            V::P(..) => 5,
            V::L(_) => 6,
        }
    }
    /// the structural order (Lean `Val.cmp`): variant rank, then the components — ints numerically, strings
    /// bytewise (= by code point), `O` / `P` component-wise, lists lexicographically (head, then tail; a
    /// proper prefix is smaller). `Equal` only for equal values, so `Ord` agrees with the derived `Eq`.
    pub fn struct_cmp(&self, other: &V) -> std::cmp::Ordering {
        use std::cmp::Ordering;
        match (self, other) {
            (V::I(a), V::I(b)) => a.cmp(b),
            (V::S(a), V::S(b)) => a.as_bytes().cmp(b.as_bytes()),
            (V::O(a), V::O(b)) => a.struct_cmp(b),
            (V::P(a1, a2), V::P(b1, b2)) => a1.struct_cmp(b1).then_with(|| a2.struct_cmp(b2)),
            (V::L(a), V::L(b)) => {
                let mut i = 0;
                loop {
                    match (a.get(i), b.get(i)) {
                        (None, None) => return Ordering::Equal,
                        (None, Some(_)) => return Ordering::Less,    // `nil < cons`
                        (Some(_), None) => return Ordering::Greater,
                        (Some(x), Some(y)) => match x.struct_cmp(y) {
                            Ordering::Equal => i += 1,
                            o => return o,
                        },
                    }
                }
            }
            (a, b) => a.rank().cmp(&b.rank()),
        }
    }
}
/// total order shared with the Lean model (`Val.le`): by `to_int`, ties by the structural order
/// (`Val.cmp`) — NOT by the encoded text, which is kept for the wire format and `deep_canon` only
impl Ord for V {
    fn cmp(&self, other: &Self) -> std::cmp::Ordering {
        self.to_int().cmp(&other.to_int()).then_with(|| self.struct_cmp(other))
    }
}
impl Default for V {
    fn default() -> Self {
        V::I(0)
    }
}
impl std::ops::Add for V {
    type Output = V;
    fn add(self, rhs: V) -> V {
        V::I(self.to_int().wrapping_add(rhs.to_int()))
    }
}

/* ---------------------------------------------------------------- function library */

#[derive(Clone, Debug)]
pub enum Fn_ { Add(i64), Mul(i64), Modn(i64), Neg, Dup, Fst, Snd, Wrap, Len, Tostr, Ident }
#[derive(Clone, Debug)]
pub enum Pred { Even, Lt(i64), Ge(i64), Ne(i64), Tt, Ff }
#[derive(Clone, Debug)]
pub enum FlatFn { Rep(usize), Upto, Ifeven, Twice }
#[derive(Clone, Debug)]
pub enum KeyFn { Kmod(i64), Kself, Kconst(i64), Kstr }
#[derive(Clone, Debug)]
pub enum BatchFn { Each(Fn_), Rev, Sumall, /* round 3: length-CHANGING chunk functions */ Droplast, Dupfirst,
    /// one row per chunk holding the chunk length: non-empty on the EMPTY slice (the real chunk loop never calls the
    /// function on an empty partition; an operator that does becomes visible)
    Countrow }
#[derive(Clone, Debug, PartialEq)]
pub enum Comb { Count, Sum, Min, Max, MinT, MaxT, Dset, Topk(usize),
    /// USER combiners with non-`Option` accumulators (`pipe_ucomb.rs`): (sum mod m, count) pair; sorted-`Vec` union; max by (|x|, x)
    USumMod(i64), UUnion, UMaxAbs,
    /// round 5: a LAWFUL but NON-commutative user combiner — "last value seen" (`pipe_ucomb::Last`). `merge` is
    /// associative with unit `create` and `merge(fold xs, fold ys) = fold(xs ++ ys)` (`Props/C05.lean::lawful_uLast`),
    /// so the engine, which merges in partition order, must give the fold over the SOURCE order in both modes and with
    /// or without the GBK lift. Only generated where the arrival order at the combine is determined (`gen_ordered_prog`).
    ULast }
#[derive(Clone, Copy, Debug, PartialEq)]
pub enum JoinKind { Inner, Left, Right, Full }

impl Fn_ {
    pub fn eval(&self, x: &V) -> V {
        match self {
            Fn_::Add(n) => V::I(x.to_int().wrapping_add(*n)),
            Fn_::Mul(n) => V::I(x.to_int().wrapping_mul(*n)),
            Fn_::Modn(m) => V::I(x.to_int().rem_euclid(*m)),
            Fn_::Neg => V::I(x.to_int().wrapping_neg()),
            Fn_::Dup => V::pair(x.clone(), x.clone()),
            Fn_::Fst => match x { V::P(a, _) => (**a).clone(), v => v.clone() },
            Fn_::Snd => match x { V::P(_, b) => (**b).clone(), v => v.clone() },
            Fn_::Wrap => V::L(vec![x.clone()]),
            Fn_::Len => match x { V::L(vs) => V::I(vs.len() as i64), V::S(s) => V::I(s.len() as i64), _ => V::I(1) },
            Fn_::Tostr => V::S(x.to_int().to_string()),
            Fn_::Ident => x.clone(),
        }
    }
    pub fn enc(&self) -> String {
        match self {
            Fn_::Add(n) => format!("add {n}"), Fn_::Mul(n) => format!("mul {n}"), Fn_::Modn(n) => format!("modn {n}"),
            Fn_::Neg => "neg".into(), Fn_::Dup => "dup".into(), Fn_::Fst => "fst".into(), Fn_::Snd => "snd".into(),
            Fn_::Wrap => "wrap".into(), Fn_::Len => "len".into(), Fn_::Tostr => "tostr".into(), Fn_::Ident => "ident".into(),
        }
    }
}
impl Pred {
    pub fn eval(&self, x: &V) -> bool {
        match self {
            Pred::Even => x.to_int().rem_euclid(2) == 0,
            Pred::Lt(n) => x.to_int() < *n,
            Pred::Ge(n) => x.to_int() >= *n,
            Pred::Ne(n) => x.to_int() != *n,
            Pred::Tt => true,
            Pred::Ff => false,
        }
    }
    pub fn enc(&self) -> String {
        match self {
            Pred::Even => "even".into(), Pred::Lt(n) => format!("lt {n}"), Pred::Ge(n) => format!("ge {n}"),
            Pred::Ne(n) => format!("ne {n}"), Pred::Tt => "tt".into(), Pred::Ff => "ff".into(),
        }
    }
}
impl FlatFn {
    pub fn eval(&self, x: &V) -> Vec<V> {
        match self {
            FlatFn::Rep(n) => vec![x.clone(); *n],
            FlatFn::Upto => (0..(x.to_int().unsigned_abs().min(3) as i64)).map(V::I).collect(),
            FlatFn::Ifeven => if x.to_int().rem_euclid(2) == 0 { vec![x.clone()] } else { vec![] },
            FlatFn::Twice => vec![x.clone(), V::I(x.to_int().wrapping_add(1))],
        }
    }
    pub fn enc(&self) -> String {
        match self { FlatFn::Rep(n) => format!("rep {n}"), FlatFn::Upto => "upto".into(), FlatFn::Ifeven => "ifeven".into(), FlatFn::Twice => "twice".into() }
    }
}
impl KeyFn {
    pub fn eval(&self, x: &V) -> V {
        match self {
            KeyFn::Kmod(m) => V::I(x.to_int().rem_euclid(*m)),
            KeyFn::Kself => x.clone(),
            KeyFn::Kconst(c) => V::I(*c),
            KeyFn::Kstr => V::S(x.to_int().rem_euclid(3).to_string()),
        }
    }
    pub fn enc(&self) -> String {
        match self { KeyFn::Kmod(m) => format!("kmod {m}"), KeyFn::Kself => "kself".into(), KeyFn::Kconst(c) => format!("kconst {c}"), KeyFn::Kstr => "kstr".into() }
    }
}
impl BatchFn {
    pub fn eval(&self, c: &[V]) -> Vec<V> {
        match self {
            BatchFn::Each(f) => c.iter().map(|x| f.eval(x)).collect(),
            BatchFn::Rev => c.iter().rev().cloned().collect(),
            BatchFn::Sumall => { let s = c.iter().fold(0i64, |a, x| a.wrapping_add(x.to_int())); c.iter().map(|_| V::I(s)).collect() }
            BatchFn::Droplast => c[..c.len().saturating_sub(1)].to_vec(),
            BatchFn::Dupfirst => match c.first() { Some(x) => std::iter::once(x.clone()).chain(c.iter().cloned()).collect(), None => vec![] },
            BatchFn::Countrow => vec![V::I(c.len() as i64)],
        }
    }
    pub fn enc(&self) -> String {
        match self { BatchFn::Each(f) => format!("each {}", f.enc()), BatchFn::Rev => "rev".into(), BatchFn::Sumall => "sumall".into(), BatchFn::Droplast => "droplast".into(), BatchFn::Dupfirst => "dupfirst".into(), BatchFn::Countrow => "countrow".into() }
    }
    pub fn elementwise(&self) -> bool { matches!(self, BatchFn::Each(_)) }
}
impl Comb {
    pub fn enc(&self) -> String {
        match self { Comb::Count => "count".into(), Comb::Sum => "sum".into(), Comb::Min => "min".into(), Comb::Max => "max".into(), Comb::MinT => "mint".into(), Comb::MaxT => "maxt".into(), Comb::Dset => "dset".into(), Comb::Topk(k) => format!("topk {k}"),
            Comb::USumMod(m) => format!("usummod {m}"), Comb::UUnion => "uunion".into(), Comb::UMaxAbs => "umaxabs".into(),
            Comb::ULast => "ulast".into() }
    }
    /// reference fold over plain values (independent of ironbeam and of the Lean model)
    pub fn reference(&self, vals: &[V]) -> Result<V, ()> {
        Ok(match self {
            Comb::Count => V::I(vals.len() as i64),
            Comb::Sum => V::I(vals.iter().fold(0i64, |a, x| a.wrapping_add(x.to_int()))),
            Comb::Min => vals.iter().min().cloned().ok_or(())?,
            Comb::Max => vals.iter().max().cloned().ok_or(())?,
            Comb::MinT => vals.iter().min().cloned().unwrap_or(V::N),
            Comb::MaxT => vals.iter().max().cloned().unwrap_or(V::N),
            Comb::Dset => { let mut s: Vec<V> = vals.to_vec(); s.sort(); s.dedup(); V::L(s) }
            Comb::Topk(k) => { let mut s: Vec<V> = vals.to_vec(); s.sort(); s.reverse(); s.truncate(*k); V::L(s) }
            Comb::USumMod(m) => V::pair(V::I((vals.iter().map(|x| x.to_int() as i128).sum::<i128>().rem_euclid(*m as i128)) as i64), V::I(vals.len() as i64)),
            Comb::UUnion => { let mut s: Vec<V> = vals.to_vec(); s.sort(); s.dedup(); V::L(s) }
            Comb::UMaxAbs => vals.iter().max_by(|a, b| a.to_int().unsigned_abs().cmp(&b.to_int().unsigned_abs()).then_with(|| a.cmp(b))).cloned().unwrap_or(V::N),
            Comb::ULast => vals.last().cloned().unwrap_or(V::N),
        })
    }
}
impl JoinKind {
    pub fn enc(&self) -> &'static str { match self { JoinKind::Inner => "inner", JoinKind::Left => "left", JoinKind::Right => "right", JoinKind::Full => "full" } }
}

/// user combiners (total versions of min / max: an empty fold yields `N`); they use the trait's
/// DEFAULT `build_from_group`
#[derive(Clone)]
pub struct MinT;
#[derive(Clone)]
pub struct MaxT;
impl ironbeam::CombineFn<V, Option<V>, V> for MinT {
    fn create(&self) -> Option<V> { None }
    fn add_input(&self, acc: &mut Option<V>, v: V) { match acc { Some(c) => { if v < *c { *c = v; } } None => *acc = Some(v) } }
    fn merge(&self, acc: &mut Option<V>, other: Option<V>) { if let Some(b) = other { self.add_input(acc, b); } }
    fn finish(&self, acc: Option<V>) -> V { acc.unwrap_or(V::N) }
}
impl ironbeam::collection::LiftableCombiner<V, Option<V>, V> for MinT {}
impl ironbeam::CombineFn<V, Option<V>, V> for MaxT {
    fn create(&self) -> Option<V> { None }
    fn add_input(&self, acc: &mut Option<V>, v: V) { match acc { Some(c) => { if v > *c { *c = v; } } None => *acc = Some(v) } }
    fn merge(&self, acc: &mut Option<V>, other: Option<V>) { if let Some(b) = other { self.add_input(acc, b); } }
    fn finish(&self, acc: Option<V>) -> V { acc.unwrap_or(V::N) }
}
impl ironbeam::collection::LiftableCombiner<V, Option<V>, V> for MaxT {}

/* ---------------------------------------------------------------- steps and programs */

#[derive(Clone, Debug)]
pub enum Step {
    Map(Fn_), Filter(Pred), FlatMap(FlatFn), KeyBy(KeyFn), MapBatches(usize, BatchFn),
    MapValues(Fn_), FilterValues(Pred), MapValuesBatches(usize, BatchFn),
    Unkey, Swapkv, Values, Keys, Topair,
    Gbk, Ungroup, Glen, Gsum,
    CombineValues(Comb), CombineValuesLifted(Comb),
    CombineGlobally(Comb, Option<usize>), CombineGloballyLifted(Comb, Option<usize>),
    Distinct, DistinctPerKey, TopKPerKey(usize),
    /// `map_with_side` / `filter_with_side` over a side vector of ints
    MapSide(Vec<i64>), FilterSide(Vec<i64>),
    /// `try_map` to `Result<V, String>` and the map back to a plain value
    TryMap, Unresult,
    /// debug taps (identity)
    DebugInspect, DebugCount, DebugSample(usize),
    /// `apply_transform` with a user-written `DynOp` that overrides no capability flag
    CustomOp(i64),
    /// `map_with_side_map` over the side map {0: 10, 1: 20}
    MapSideMap,
    Join(JoinKind, Box<Prog>),
    /// round 3 (PIPE3b): `try_map` with a named predicate (`Ok(x)` when it holds, else `Err("bad:<to_int>")`),
    /// `try_flat_map` (then a plain `map` turning the `Vec` into a list value), `Result`-preserving map / filter
    TryMapP(Pred), TryFlatMap(FlatFn, Pred), ResMap(Fn_), ResFilter(Pred),
    /// `map_with_side_map` over `side_hashmap(pairs)` (duplicate keys: the last pair wins; may be empty)
    MapSideMapP(Vec<(i64, i64)>),
    /// `apply_transform` with a user op on `(K, V)` rows that CLAIMS all three capability flags; adds `n`; cost hint
    CustomValueOp(i64, u8),
    /// `apply_composite(&Packed(steps))` — transparent: the request lists the inner steps (never empty)
    Composite(Vec<Step>),
    /// a join whose right side is NOT a fresh `from_vec` on the same pipeline (`pipe_joinx.rs`; request kind `PIPEX`)
    JoinX(JoinKind, RightRef),
}

/// the user operator behind `Step::CustomValueOp`
pub struct UserValueOp(pub i64, pub u8);
impl ironbeam::DynOp for UserValueOp {
    fn apply(&self, input: ironbeam::Partition) -> ironbeam::Partition {
        let v = *input.downcast::<Vec<(V, V)>>().expect("UserValueOp: Vec<(V, V)>");
        Box::new(v.into_iter().map(|(k, x)| (k, V::I(x.to_int().wrapping_add(self.0)))).collect::<Vec<(V, V)>>())
    }
    fn key_preserving(&self) -> bool { true }
    fn value_only(&self) -> bool { true }
    fn reorder_safe_with_value_only(&self) -> bool { true }
    fn cost_hint(&self) -> u8 { self.1 }
}
pub fn bad_msg(x: &V) -> String { format!("bad:{}", x.to_int()) }
pub fn try_p(p: &Pred, x: &V) -> Result<V, String> { if p.eval(x) { Ok(x.clone()) } else { Err(bad_msg(x)) } }
pub fn try_flat_p(f: &FlatFn, p: &Pred, x: &V) -> Result<Vec<V>, String> { if p.eval(x) { Ok(f.eval(x)) } else { Err(bad_msg(x)) } }
pub fn is_err_row(r: &V) -> bool { matches!(r, V::P(t, _) if **t == V::S("err".into())) }
/// `HashMap::from_iter` semantics written out: the LAST pair with the key wins, absent = 0
pub fn side_pairs_lookup(pairs: &[(i64, i64)], k: i64) -> i64 { pairs.iter().rev().find(|kv| kv.0 == k).map_or(0, |kv| kv.1) }
fn pairs_enc(v: &[(i64, i64)]) -> String { if v.is_empty() { "-".into() } else { v.iter().map(|(k, x)| format!("{k}:{x}")).collect::<Vec<_>>().join(",") } }
/// a program with every `Composite` replaced by its inner steps (what the request, the reference and the canon rule see)
pub fn flatten_steps(steps: &[Step]) -> Vec<Step> {
    let mut out = vec![];
    for s in steps {
        match s {
            Step::Composite(inner) => out.extend(flatten_steps(inner)),
            Step::Join(k, r) => out.push(Step::Join(*k, Box::new(Prog { shape: r.shape, src: r.src.clone(), steps: flatten_steps(&r.steps) }))),
            other => out.push(other.clone()),
        }
    }
    out
}

/// where the right side of a `Step::JoinX` comes from
#[derive(Clone, Debug)]
pub enum RightRef {
    /// built on ANOTHER `Pipeline`
    Other(Box<Prog>),
    /// the collection built so far is BRANCHED: left = it + the first step list, right = it + the second
    /// (both empty = a self-join; shared-prefix sides otherwise)
    Shared(Vec<Step>, Vec<Step>),
    /// a fresh right side (first program); a SIBLING join of the same left collection with the second program is
    /// built before and after it on the same pipeline (and is not part of the result)
    Sibling(Box<Prog>, Box<Prog>),
}

/// the user operator behind `Step::CustomOp`: adds `n`; trait-default flags and cost
pub struct UserAddOp(pub i64);
impl ironbeam::DynOp for UserAddOp {
    fn apply(&self, input: ironbeam::Partition) -> ironbeam::Partition {
        let v = *input.downcast::<Vec<V>>().expect("UserAddOp: Vec<V>");
        Box::new(v.into_iter().map(|x| V::I(x.to_int().wrapping_add(self.0))).collect::<Vec<V>>())
    }
}
pub fn side_map_f(x: &V, m: &std::collections::HashMap<i64, i64>) -> V {
    V::I(x.to_int().wrapping_add(*m.get(&x.to_int().rem_euclid(3)).unwrap_or(&0)))
}

#[derive(Clone, Copy, Debug, PartialEq, Eq)]
pub enum Shape { T, KV, KG, R }

#[derive(Clone, Debug)]
pub struct Prog {
    pub shape: Shape, // shape of the source rows
    pub src: Vec<V>,  // T: any values; KV: `P k v`; KG: `P k L(vs)`
    pub steps: Vec<Step>,
}

fn ints_enc(v: &[i64]) -> String { if v.is_empty() { "-".into() } else { v.iter().map(|x| x.to_string()).collect::<Vec<_>>().join(",") } }
pub fn try_f(x: &V) -> Result<V, String> { if x.to_int().rem_euclid(2) == 0 { Ok(x.clone()) } else { Err("odd".to_string()) } }
pub fn result_v(r: &Result<V, String>) -> V { match r { Ok(v) => V::pair(V::S("ok".into()), v.clone()), Err(e) => V::pair(V::S("err".into()), V::S(e.clone())) } }
fn fo_enc(fo: &Option<usize>) -> String { fo.map_or("none".into(), |n| n.to_string()) }

impl Step {
    pub fn enc(&self) -> String {
        match self {
            Step::Map(f) => format!("map {}", f.enc()),
            Step::Filter(p) => format!("filter {}", p.enc()),
            Step::FlatMap(f) => format!("flat_map {}", f.enc()),
            Step::KeyBy(k) => format!("key_by {}", k.enc()),
            Step::MapBatches(n, f) => format!("map_batches {n} {}", f.enc()),
            Step::MapValues(f) => format!("map_values {}", f.enc()),
            Step::FilterValues(p) => format!("filter_values {}", p.enc()),
            Step::MapValuesBatches(n, f) => format!("map_values_batches {n} {}", f.enc()),
            Step::Unkey => "unkey".into(), Step::Swapkv => "swapkv".into(), Step::Values => "values".into(),
            Step::Keys => "keys".into(), Step::Topair => "topair".into(), Step::Gbk => "gbk".into(),
            Step::Ungroup => "ungroup".into(), Step::Glen => "glen".into(), Step::Gsum => "gsum".into(),
            Step::CombineValues(c) => format!("combine_values {}", c.enc()),
            Step::CombineValuesLifted(c) => format!("combine_values_lifted {}", c.enc()),
            Step::CombineGlobally(c, fo) => format!("combine_globally {} {}", c.enc(), fo_enc(fo)),
            Step::CombineGloballyLifted(c, fo) => format!("combine_globally_lifted {} {}", c.enc(), fo_enc(fo)),
            Step::Distinct => "distinct".into(), Step::DistinctPerKey => "distinct_per_key".into(),
            Step::TopKPerKey(k) => format!("top_k_per_key {k}"),
            Step::MapSide(side) => format!("map_side {}", ints_enc(side)),
            Step::FilterSide(side) => format!("filter_side {}", ints_enc(side)),
            Step::TryMap => "try_map".into(), Step::Unresult => "unresult".into(),
            Step::DebugInspect => "debug_inspect".into(), Step::DebugCount => "debug_count".into(),
            Step::DebugSample(n) => format!("debug_sample {n}"),
            Step::CustomOp(n) => format!("custom_op {n}"), Step::MapSideMap => "map_side_map".into(),
            Step::Join(k, right) => format!("join {} [ {}{} ]", k.enc(), V::L(right.src.clone()).enc(), steps_enc(&right.steps)),
            Step::TryMapP(p) => format!("try_map_p {}", p.enc()),
            Step::TryFlatMap(f, p) => format!("try_flat_map {} {}", f.enc(), p.enc()),
            Step::ResMap(f) => format!("res_map {}", f.enc()),
            Step::ResFilter(p) => format!("res_filter {}", p.enc()),
            Step::MapSideMapP(pairs) => format!("map_side_map_p {}", pairs_enc(pairs)),
            Step::CustomValueOp(n, c) => format!("custom_value_op {n} {c}"),
            Step::Composite(inner) => { assert!(!inner.is_empty(), "harness: empty composite"); inner.iter().map(Step::enc).collect::<Vec<_>>().join(" ; ") }
            Step::JoinX(k, r) => crate::pipe_joinx::enc(*k, r),
        }
    }
    pub fn is_barrier(&self) -> bool {
        matches!(self, Step::Gbk | Step::CombineValues(_) | Step::CombineValuesLifted(_) | Step::CombineGlobally(..)
            | Step::CombineGloballyLifted(..) | Step::Distinct | Step::DistinctPerKey | Step::TopKPerKey(_) | Step::Join(..) | Step::JoinX(..))
    }
    pub fn kind(&self) -> &'static str {
        match self {
            Step::Map(_) => "map", Step::Filter(_) => "filter", Step::FlatMap(_) => "flat_map", Step::KeyBy(_) => "key_by",
            Step::MapBatches(..) => "map_batches", Step::MapValues(_) => "map_values", Step::FilterValues(_) => "filter_values",
            Step::MapValuesBatches(..) => "map_values_batches", Step::Unkey => "unkey", Step::Swapkv => "swapkv",
            Step::Values => "values", Step::Keys => "keys", Step::Topair => "topair", Step::Gbk => "gbk", Step::Ungroup => "ungroup",
            Step::Glen => "glen", Step::Gsum => "gsum", Step::CombineValues(_) => "combine_values",
            Step::CombineValuesLifted(_) => "combine_values_lifted", Step::CombineGlobally(..) => "combine_globally",
            Step::CombineGloballyLifted(..) => "combine_globally_lifted", Step::Distinct => "distinct",
            Step::DistinctPerKey => "distinct_per_key", Step::TopKPerKey(_) => "top_k_per_key", Step::Join(..) => "join",
            Step::MapSide(_) => "map_with_side", Step::FilterSide(_) => "filter_with_side", Step::TryMap => "try_map", Step::Unresult => "unresult",
            Step::DebugInspect => "debug_inspect", Step::DebugCount => "debug_count", Step::DebugSample(_) => "debug_sample",
            Step::CustomOp(_) => "apply_transform(custom op)", Step::MapSideMap => "map_with_side_map",
            Step::TryMapP(_) => "try_map(named predicate)", Step::TryFlatMap(..) => "try_flat_map", Step::ResMap(_) => "map over Result", Step::ResFilter(_) => "filter over Result",
            Step::MapSideMapP(_) => "map_with_side_map(generated map)", Step::CustomValueOp(..) => "apply_transform(flag-claiming op)", Step::Composite(_) => "apply_composite",
            Step::JoinX(_, r) => crate::pipe_joinx::kind(r),
        }
    }
}
pub fn steps_enc(steps: &[Step]) -> String {
    steps.iter().map(|s| format!(" ; {}", s.enc())).collect()
}
impl Prog {
    pub fn has_barrier(&self) -> bool { self.steps.iter().any(Step::is_barrier) }
    pub fn has_join(&self) -> bool { self.steps.iter().any(|s| matches!(s, Step::Join(..) | Step::JoinX(..))) }
    /// how answers are canonicalised before they are compared:
    /// * `seq`  — no barrier: the exact sequence;
    /// * `top`  — exactly ONE hash-ordered step (a grouping / per-key combine / distinct / top-k), no `HashSet`-valued
    ///   accumulator anywhere and no join: only the order of the top-level rows depends on the hash map; the order
    ///   INSIDE every group is defined by the code (a key's values arrive in source order in sequential mode and in
    ///   partition order = source order in parallel mode), so only the top level is sorted and nested lists are
    ///   compared as sequences;
    /// * `deep` — otherwise: every nested list sorted.
    pub fn canon(&self) -> &'static str {
        if !self.has_barrier() { return "seq"; }
        fn uses_dset(s: &Step) -> bool {
            matches!(s, Step::CombineValues(Comb::Dset) | Step::CombineValuesLifted(Comb::Dset) | Step::CombineGlobally(Comb::Dset, _) | Step::CombineGloballyLifted(Comb::Dset, _))
        }
        let hash_ordered = self.steps.iter().filter(|s| matches!(s, Step::Gbk | Step::CombineValues(_) | Step::CombineValuesLifted(_)
            | Step::Distinct | Step::DistinctPerKey | Step::TopKPerKey(_) | Step::Join(..) | Step::JoinX(..))).count();
        if hash_ordered == 1 && !self.has_join() && !self.steps.iter().any(uses_dset) { "top" } else { "deep" }
    }
    /// request text for a given mode (`seq`, `par:N`, `lit`, `noreorder`)
    pub fn request(&self, mode: &str) -> String {
        let kind = if self.steps.iter().any(|s| matches!(s, Step::JoinX(..))) { "PIPEJ" }
            else if COARSE_HASH.load(std::sync::atomic::Ordering::Relaxed) { "PIPEH" } else { "PIPE" };
        format!("{kind} mode={mode} canon={} src {}{}", self.canon(), V::L(self.src.clone()).enc(), steps_enc(&self.steps))
    }
}

/* ---------------------------------------------------------------- the real pipeline */

pub enum Coll {
    R(PCollection<Result<V, String>>),
    T(PCollection<V>),
    KV(PCollection<(V, V)>),
    KG(PCollection<(V, Vec<V>)>),
}

fn kv_of(v: &V) -> (V, V) {
    match v { V::P(a, b) => ((**a).clone(), (**b).clone()), other => (other.clone(), other.clone()) }
}
fn kg_of(v: &V) -> (V, Vec<V>) {
    match v { V::P(a, b) => ((**a).clone(), match &**b { V::L(vs) => vs.clone(), o => vec![o.clone()] }), other => (other.clone(), vec![]) }
}

pub fn source(p: &Pipeline, shape: Shape, rows: &[V]) -> Coll {
    match shape {
        Shape::T => Coll::T(from_vec(p, rows.to_vec())),
        Shape::KV => Coll::KV(from_vec(p, rows.iter().map(kv_of).collect::<Vec<_>>())),
        Shape::KG => Coll::KG(from_vec(p, rows.iter().map(kg_of).collect::<Vec<_>>())),
        Shape::R => panic!("harness: no source of shape R"),
    }
}

fn as_t(c: Coll) -> PCollection<V> { match c { Coll::T(x) => x, _ => panic!("harness: step needs shape T") } }
pub(crate) fn as_kv(c: Coll) -> PCollection<(V, V)> { match c { Coll::KV(x) => x, _ => panic!("harness: step needs shape KV") } }
fn as_kg(c: Coll) -> PCollection<(V, Vec<V>)> { match c { Coll::KG(x) => x, _ => panic!("harness: step needs shape KG") } }

/// shape after a step (None = step not applicable to this shape)
pub fn shape_after(sh: Shape, s: &Step) -> Option<Shape> {
    use Shape::*;
    Some(match (s, sh) {
        (Step::Map(_), sh) | (Step::FlatMap(_), sh) if sh != R => T,
        (Step::Filter(_), sh) if sh != R => sh,
        (Step::KeyBy(_), T) => KV,
        (Step::MapBatches(..), T) => T,
        (Step::MapValues(_), KV) | (Step::FilterValues(_), KV) | (Step::MapValuesBatches(..), KV) => KV,
        (Step::Unkey, KV) | (Step::Values, KV) | (Step::Keys, KV) => T,
        (Step::Swapkv, KV) => KV,
        (Step::Topair, T) => KV,
        (Step::Gbk, KV) => KG,
        (Step::Ungroup, KG) | (Step::Glen, KG) | (Step::Gsum, KG) => KV,
        (Step::CombineValues(c), KV) => if matches!(c, Comb::Dset | Comb::Topk(_)) { KG } else { KV },
        (Step::CombineValuesLifted(c), KG) => if matches!(c, Comb::Dset | Comb::Topk(_)) { KG } else { KV },
        (Step::CombineGlobally(..), T) | (Step::CombineGloballyLifted(..), T) | (Step::Distinct, T) => T,
        (Step::DistinctPerKey, KV) => KV,
        (Step::TopKPerKey(_), KV) => KG,
        (Step::Join(..), KV) => KV,
        (Step::MapSide(_), T) | (Step::FilterSide(_), T) | (Step::CustomOp(_), T) | (Step::MapSideMap, T) => T,
        (Step::TryMap, T) => R,
        (Step::Unresult, R) => T,
        (Step::DebugInspect, sh) | (Step::DebugCount, sh) | (Step::DebugSample(_), sh) if sh != R => sh,
        (Step::TryMapP(_), T) | (Step::TryFlatMap(..), T) => R,
        (Step::ResMap(_), R) | (Step::ResFilter(_), R) => R,
        (Step::MapSideMapP(_), T) => T,
        (Step::CustomValueOp(..), KV) => KV,
        (Step::Composite(inner), sh) => return inner.iter().fold(Some(sh), |s, st| s.and_then(|s| shape_after(s, st))),
        (Step::JoinX(_, r), sh) => return crate::pipe_joinx::shape_after(sh, r),
        _ => return None,
    })
}

fn row_v_kv(r: &(V, V)) -> V { V::pair(r.0.clone(), r.1.clone()) }
fn row_v_kg(r: &(V, Vec<V>)) -> V { V::pair(r.0.clone(), V::L(r.1.clone())) }

pub fn apply_step(c: Coll, s: &Step) -> Coll {
    match s.clone() {
        Step::Map(f) => Coll::T(match c {
            Coll::T(x) => x.map(move |v| f.eval(v)),
            Coll::KV(x) => x.map(move |r| f.eval(&row_v_kv(r))),
            Coll::KG(x) => x.map(move |r| f.eval(&row_v_kg(r))),
            Coll::R(_) => panic!("harness: map on R"),
        }),
        Step::Filter(p) => match c {
            Coll::T(x) => Coll::T(x.filter(move |v| p.eval(v))),
            Coll::KV(x) => Coll::KV(x.filter(move |r| p.eval(&row_v_kv(r)))),
            Coll::KG(x) => Coll::KG(x.filter(move |r| p.eval(&row_v_kg(r)))),
            Coll::R(_) => panic!("harness: filter on R"),
        },
        Step::FlatMap(f) => Coll::T(match c {
            Coll::T(x) => x.flat_map(move |v| f.eval(v)),
            Coll::KV(x) => x.flat_map(move |r| f.eval(&row_v_kv(r))),
            Coll::KG(x) => x.flat_map(move |r| f.eval(&row_v_kg(r))),
            Coll::R(_) => panic!("harness: flat_map on R"),
        }),
        Step::KeyBy(k) => Coll::KV(as_t(c).key_by(move |v| k.eval(v))),
        Step::MapBatches(n, f) => Coll::T(as_t(c).map_batches(n, move |ch| f.eval(ch))),
        Step::MapValues(f) => Coll::KV(as_kv(c).map_values(move |v| f.eval(v))),
        Step::FilterValues(p) => Coll::KV(as_kv(c).filter_values(move |v| p.eval(v))),
        Step::MapValuesBatches(n, f) => Coll::KV(as_kv(c).map_values_batches(n, move |ch| f.eval(ch))),
        Step::Unkey => Coll::T(as_kv(c).map(|r| row_v_kv(r))),
        Step::Swapkv => Coll::KV(as_kv(c).map(|r| (r.1.clone(), r.0.clone()))),
        Step::Values => Coll::T(as_kv(c).map(|r| r.1.clone())),
        Step::Keys => Coll::T(as_kv(c).map(|r| r.0.clone())),
        Step::Topair => Coll::KV(as_t(c).map(|v| kv_of(v))),
        Step::Gbk => Coll::KG(as_kv(c).group_by_key()),
        Step::Ungroup => Coll::KV(as_kg(c).flat_map(|r| r.1.iter().map(|v| (r.0.clone(), v.clone())).collect::<Vec<_>>())),
        Step::Glen => Coll::KV(as_kg(c).map(|r| (r.0.clone(), V::I(r.1.len() as i64)))),
        Step::Gsum => Coll::KV(as_kg(c).map(|r| (r.0.clone(), V::I(r.1.iter().fold(0i64, |a, x| a.wrapping_add(x.to_int())))))),
        Step::CombineValues(cb) => {
            let x = as_kv(c);
            match cb {
                Comb::Count => Coll::KV(x.combine_values(Count).map(|r: &(V, u64)| (r.0.clone(), V::I(r.1 as i64)))),
                Comb::Sum => Coll::KV(x.combine_values(Sum::<V>::new())),
                Comb::Min => Coll::KV(x.combine_values(Min::<V>::new())),
                Comb::Max => Coll::KV(x.combine_values(Max::<V>::new())),
                Comb::MinT => Coll::KV(x.combine_values(MinT)),
                Comb::MaxT => Coll::KV(x.combine_values(MaxT)),
                Comb::Dset => Coll::KG(x.combine_values(DistinctSet::<V>::new())),
                Comb::Topk(k) => Coll::KG(x.combine_values(TopK::<V>::new(k))),
                Comb::USumMod(m) => Coll::KV(x.combine_values(crate::pipe_ucomb::SumModCount(m))),
                Comb::UUnion => Coll::KV(x.combine_values(crate::pipe_ucomb::SortedUnion)),
                Comb::UMaxAbs => Coll::KV(x.combine_values(crate::pipe_ucomb::MaxAbs)),
                Comb::ULast => Coll::KV(x.combine_values(crate::pipe_ucomb::Last)),
            }
        }
        Step::CombineValuesLifted(cb) => {
            let x = as_kg(c);
            match cb {
                Comb::Count => Coll::KV(x.combine_values_lifted(Count).map(|r: &(V, u64)| (r.0.clone(), V::I(r.1 as i64)))),
                Comb::Sum => Coll::KV(x.combine_values_lifted(Sum::<V>::new())),
                Comb::Min => Coll::KV(x.combine_values_lifted(Min::<V>::new())),
                Comb::Max => Coll::KV(x.combine_values_lifted(Max::<V>::new())),
                Comb::MinT => Coll::KV(x.combine_values_lifted(MinT)),
                Comb::MaxT => Coll::KV(x.combine_values_lifted(MaxT)),
                Comb::Dset => Coll::KG(x.combine_values_lifted(DistinctSet::<V>::new())),
                Comb::Topk(k) => Coll::KG(x.combine_values_lifted(TopK::<V>::new(k))),
                Comb::USumMod(m) => Coll::KV(x.combine_values_lifted(crate::pipe_ucomb::SumModCount(m))),
                Comb::UUnion => Coll::KV(x.combine_values_lifted(crate::pipe_ucomb::SortedUnion)),
                Comb::UMaxAbs => Coll::KV(x.combine_values_lifted(crate::pipe_ucomb::MaxAbs)),
                Comb::ULast => Coll::KV(x.combine_values_lifted(crate::pipe_ucomb::Last)),
            }
        }
        Step::CombineGlobally(cb, fo) => {
            let x = as_t(c);
            Coll::T(match cb {
                Comb::Count => x.combine_globally(Count, fo).map(|n: &u64| V::I(*n as i64)),
                Comb::Sum => x.combine_globally(Sum::<V>::new(), fo),
                Comb::Min => x.combine_globally(Min::<V>::new(), fo),
                Comb::Max => x.combine_globally(Max::<V>::new(), fo),
                Comb::MinT => x.combine_globally(MinT, fo),
                Comb::MaxT => x.combine_globally(MaxT, fo),
                Comb::Dset => x.combine_globally(DistinctSet::<V>::new(), fo).map(|vs: &Vec<V>| V::L(vs.clone())),
                Comb::Topk(k) => x.combine_globally(TopK::<V>::new(k), fo).map(|vs: &Vec<V>| V::L(vs.clone())),
                Comb::USumMod(m) => x.combine_globally(crate::pipe_ucomb::SumModCount(m), fo),
                Comb::UUnion => x.combine_globally(crate::pipe_ucomb::SortedUnion, fo),
                Comb::UMaxAbs => x.combine_globally(crate::pipe_ucomb::MaxAbs, fo),
                Comb::ULast => x.combine_globally(crate::pipe_ucomb::Last, fo),
            })
        }
        Step::CombineGloballyLifted(cb, fo) => {
            let x = as_t(c);
            Coll::T(match cb {
                Comb::Count => x.combine_globally_lifted(Count, fo).map(|n: &u64| V::I(*n as i64)),
                Comb::Sum => x.combine_globally_lifted(Sum::<V>::new(), fo),
                Comb::Min => x.combine_globally_lifted(Min::<V>::new(), fo),
                Comb::Max => x.combine_globally_lifted(Max::<V>::new(), fo),
                Comb::MinT => x.combine_globally_lifted(MinT, fo),
                Comb::MaxT => x.combine_globally_lifted(MaxT, fo),
                Comb::Dset => x.combine_globally_lifted(DistinctSet::<V>::new(), fo).map(|vs: &Vec<V>| V::L(vs.clone())),
                Comb::Topk(k) => x.combine_globally_lifted(TopK::<V>::new(k), fo).map(|vs: &Vec<V>| V::L(vs.clone())),
                Comb::USumMod(m) => x.combine_globally_lifted(crate::pipe_ucomb::SumModCount(m), fo),
                Comb::UUnion => x.combine_globally_lifted(crate::pipe_ucomb::SortedUnion, fo),
                Comb::UMaxAbs => x.combine_globally_lifted(crate::pipe_ucomb::MaxAbs, fo),
                Comb::ULast => x.combine_globally_lifted(crate::pipe_ucomb::Last, fo),
            })
        }
        Step::Distinct => Coll::T(as_t(c).distinct()),
        Step::DistinctPerKey => Coll::KV(as_kv(c).distinct_per_key()),
        Step::TopKPerKey(k) => Coll::KG(as_kv(c).top_k_per_key(k)),
        Step::MapSide(side) => {
            let sv = ironbeam::side_vec(side);
            Coll::T(as_t(c).map_with_side(&sv, |x: &V, s: &[i64]| V::I(x.to_int().wrapping_add(s.iter().fold(0i64, |a, b| a.wrapping_add(*b))))))
        }
        Step::FilterSide(side) => {
            let sv = ironbeam::side_vec(side);
            Coll::T(as_t(c).filter_with_side(&sv, |x: &V, s: &[i64]| s.contains(&x.to_int().rem_euclid(5))))
        }
        Step::CustomOp(n) => Coll::T(as_t(c).apply_transform::<V>(std::sync::Arc::new(UserAddOp(n)))),
        Step::MapSideMap => {
            let sm = ironbeam::side_hashmap(vec![(0i64, 10i64), (1, 20)]);
            Coll::T(as_t(c).map_with_side_map(&sm, |x: &V, m: &std::collections::HashMap<i64, i64>| side_map_f(x, m)))
        }
        Step::TryMap => Coll::R(as_t(c).try_map(|x: &V| try_f(x))),
        Step::Unresult => match c { Coll::R(x) => Coll::T(x.map(|r: &Result<V, String>| result_v(r))), _ => panic!("harness: unresult needs shape R") },
        Step::DebugInspect => { use ironbeam::testing::PCollectionDebugExt; match c {
            Coll::T(x) => Coll::T(x.debug_inspect_with("tap", |_| {})), Coll::KV(x) => Coll::KV(x.debug_inspect_with("tap", |_| {})),
            Coll::KG(x) => Coll::KG(x.debug_inspect_with("tap", |_| {})), Coll::R(_) => panic!("harness: debug on R") } }
        Step::DebugCount => { use ironbeam::testing::PCollectionDebugExt; match c {
            Coll::T(x) => Coll::T(x.debug_count("tap")), Coll::KV(x) => Coll::KV(x.debug_count("tap")),
            Coll::KG(x) => Coll::KG(x.debug_count("tap")), Coll::R(_) => panic!("harness: debug on R") } }
        Step::DebugSample(n) => { use ironbeam::testing::PCollectionDebugExt; match c {
            Coll::T(x) => Coll::T(x.debug_sample(n, "tap")), Coll::KV(x) => Coll::KV(x.debug_sample(n, "tap")),
            Coll::KG(x) => Coll::KG(x.debug_sample(n, "tap")), Coll::R(_) => panic!("harness: debug on R") } }
        Step::Join(kind, right) => {
            let left = as_kv(c);
            let p = pipeline_of(&left);
            let r = as_kv(build(&p, &right));
            Coll::KV(match kind {
                JoinKind::Inner => left.join_inner(&r).map(|x: &(V, (V, V))| (x.0.clone(), V::pair(x.1.0.clone(), x.1.1.clone()))),
                JoinKind::Left => left.join_left(&r).map(|x: &(V, (V, Option<V>))| (x.0.clone(), V::pair(x.1.0.clone(), opt(&x.1.1)))),
                JoinKind::Right => left.join_right(&r).map(|x: &(V, (Option<V>, V))| (x.0.clone(), V::pair(opt(&x.1.0), x.1.1.clone()))),
                JoinKind::Full => left.join_full(&r).map(|x: &(V, (Option<V>, Option<V>))| (x.0.clone(), V::pair(opt(&x.1.0), opt(&x.1.1)))),
            })
        }
        Step::TryMapP(p) => Coll::R(as_t(c).try_map(move |x: &V| try_p(&p, x))),
        Step::TryFlatMap(f, p) => Coll::R(as_t(c).try_flat_map(move |x: &V| try_flat_p(&f, &p, x)).map(|r: &Result<Vec<V>, String>| r.clone().map(V::L))),
        Step::ResMap(f) => match c { Coll::R(x) => Coll::R(x.map(move |r: &Result<V, String>| r.clone().map(|v| f.eval(&v)))), _ => panic!("harness: res_map needs shape R") },
        Step::ResFilter(p) => match c { Coll::R(x) => Coll::R(x.filter(move |r: &Result<V, String>| match r { Ok(v) => p.eval(v), Err(_) => true })), _ => panic!("harness: res_filter needs shape R") },
        Step::MapSideMapP(pairs) => {
            let sm = ironbeam::side_hashmap(pairs);
            Coll::T(as_t(c).map_with_side_map(&sm, |x: &V, m: &std::collections::HashMap<i64, i64>| side_map_f(x, m)))
        }
        Step::CustomValueOp(n, cost) => Coll::KV(as_kv(c).apply_transform::<(V, V)>(std::sync::Arc::new(UserValueOp(n, cost)))),
        Step::Composite(inner) => ext::apply_composite_step(c, inner),
        Step::JoinX(kind, r) => crate::pipe_joinx::apply(c, kind, &r),
    }
}
pub(crate) fn opt(o: &Option<V>) -> V { match o { Some(v) => V::O(Box::new(v.clone())), None => V::N } }

thread_local! { static CUR_PIPELINE: std::cell::RefCell<Option<Pipeline>> = const { std::cell::RefCell::new(None) }; }
pub(crate) fn pipeline_of<T>(_c: &PCollection<T>) -> Pipeline {
    CUR_PIPELINE.with(|p| p.borrow().clone().expect("pipeline set"))
}

pub fn build(p: &Pipeline, prog: &Prog) -> Coll {
    CUR_PIPELINE.with(|c| *c.borrow_mut() = Some(p.clone()));
    let mut c = source(p, prog.shape, &prog.src);
    for s in &prog.steps {
        c = apply_step(c, s);
    }
    c
}

#[derive(Clone, Copy, Debug, PartialEq)]
pub enum Mode { Seq, Par(usize) }
impl Mode { pub fn enc(&self) -> String { match self { Mode::Seq => "seq".into(), Mode::Par(n) => format!("par:{n}") } } }

#[derive(Clone, Debug, PartialEq)]
pub enum Outcome { Rows(Vec<V>), Err(String), Panic(String), Hang }

pub fn collect(c: Coll, mode: Mode) -> anyhow::Result<Vec<V>> {
    Ok(match (c, mode) {
        (Coll::T(x), Mode::Seq) => x.collect_seq()?,
        (Coll::T(x), Mode::Par(n)) => x.collect_par(None, Some(n))?,
        (Coll::KV(x), Mode::Seq) => x.collect_seq()?.iter().map(row_v_kv).collect(),
        (Coll::KV(x), Mode::Par(n)) => x.collect_par(None, Some(n))?.iter().map(row_v_kv).collect(),
        (Coll::KG(x), Mode::Seq) => x.collect_seq()?.iter().map(row_v_kg).collect(),
        (Coll::KG(x), Mode::Par(n)) => x.collect_par(None, Some(n))?.iter().map(row_v_kg).collect(),
        (Coll::R(x), Mode::Seq) => x.collect_seq()?.iter().map(result_v).collect(),
        (Coll::R(x), Mode::Par(n)) => x.collect_par(None, Some(n))?.iter().map(result_v).collect(),
    })
}

/// Number of rayon worker threads the next real runs use (0 = the process-global default pool). The
/// parallel engine's `collect_par(None, …)` runs its `par_iter`s on whatever pool is current, so installing
/// a private pool varies the REAL degree of parallelism and the schedule.
pub static PAR_THREADS: std::sync::atomic::AtomicUsize = std::sync::atomic::AtomicUsize::new(0);

fn pool_for(threads: usize) -> std::sync::Arc<rayon::ThreadPool> {
    use std::collections::HashMap;
    use std::sync::{Arc, Mutex, OnceLock};
    static POOLS: OnceLock<Mutex<HashMap<usize, Arc<rayon::ThreadPool>>>> = OnceLock::new();
    let mut m = POOLS.get_or_init(|| Mutex::new(HashMap::new())).lock().unwrap();
    m.entry(threads).or_insert_with(|| Arc::new(rayon::ThreadPoolBuilder::new().num_threads(threads).build().expect("pool"))).clone()
}

/// how often a run needed the watchdog's grace period (machine stall, not a hang); reported as a note
pub static WATCHDOG_GRACE_USED: std::sync::atomic::AtomicUsize = std::sync::atomic::AtomicUsize::new(0);

/// run `f` on its own thread; a run that does not come back is a HANG. The runs guarded here either finish in
/// milliseconds or never (a loop that cannot make progress), so after `secs` the SAME run is given a grace period of
/// another `6 * secs`: a starved machine (other builds, other checks) delays a run, it does not make it spin for
/// seven times the limit. Only a run that is still not back after `7 * secs` is reported as HANG.
pub fn with_watchdog<T: Send + 'static>(secs: u64, f: impl FnOnce() -> T + Send + 'static) -> Option<Result<T, String>> {
    let (tx, rx) = mpsc::channel();
    std::thread::Builder::new().stack_size(16 << 20).spawn(move || {
        let r = crate::ctx::guarded(f);
        let _ = tx.send(r);
    }).expect("spawn");
    match rx.recv_timeout(Duration::from_secs(secs)) {
        Ok(r) => Some(r),
        Err(_) => {
            let r = rx.recv_timeout(Duration::from_secs(secs * 6)).ok();
            if r.is_some() { WATCHDOG_GRACE_USED.fetch_add(1, std::sync::atomic::Ordering::SeqCst); }
            r
        }
    }
}

/// build the program on a fresh pipeline and collect it with the REAL engine
pub fn run_real(prog: &Prog, mode: Mode) -> Outcome {
    crate::ctx::breadcrumb(&prog.request(&mode.enc()));
    let prog = prog.clone();
    let threads = PAR_THREADS.load(std::sync::atomic::Ordering::SeqCst);
    match with_watchdog(10, move || {
        let p = Pipeline::default();
        let c = build(&p, &prog);
        if threads == 0 || mode == Mode::Seq { collect(c, mode) } else { pool_for(threads).install(|| collect(c, mode)) }
    }) {
        None => Outcome::Hang,
        Some(Err(msg)) => Outcome::Panic(msg),
        Some(Ok(Err(e))) => Outcome::Err(format!("{e}")),
        Some(Ok(Ok(rows))) => Outcome::Rows(rows),
    }
}

pub fn canon_rows(rows: &[V], canon: &str) -> V {
    let v = V::L(rows.to_vec());
    if canon == "deep" { v.deep_canon() }
    else if canon == "top" {
        let mut c: Vec<(String, V)> = rows.iter().map(|r| (r.enc(), r.clone())).collect();
        c.sort_by(|a, b| a.0.cmp(&b.0));
        V::L(c.into_iter().map(|x| x.1).collect())
    } else { v }
}

pub fn outcome_answer(o: &Outcome, canon: &str) -> String {
    match o {
        Outcome::Rows(rows) => format!("OK {}", canon_rows(rows, canon).enc()),
        Outcome::Err(e) if e.contains("nested CoGroup") => "ERR nested-cogroup".into(),
        Outcome::Err(e) if e.contains("must start with a Source") => "ERR no-source".into(),
        Outcome::Err(e) if e.contains("unexpected") => "ERR unexpected-source".into(),
        Outcome::Err(e) => format!("ERR other:{}", e.replace([' ', '\n'], "_")),
        Outcome::Panic(_) => "PANIC".into(),
        Outcome::Hang => "HANG".into(),
    }
}

/* ---------------------------------------------------------------- reference interpreter (oracle) */

#[derive(Clone, Debug, PartialEq)]
pub enum RefOut { Rows(Vec<V>), NestedJoin, Panic }

fn key_of(r: &V) -> V { match r { V::P(a, _) => (**a).clone(), o => o.clone() } }
fn val_of(r: &V) -> V { match r { V::P(_, b) => (**b).clone(), o => o.clone() } }
fn list_of(v: &V) -> Vec<V> { match v { V::L(vs) => vs.clone(), _ => vec![] } }

fn group(rows: &[V]) -> BTreeMap<V, Vec<V>> {
    let mut m: BTreeMap<V, Vec<V>> = BTreeMap::new();
    for r in rows { m.entry(key_of(r)).or_default().push(val_of(r)); }
    m
}

/// Plain-vector semantics of a program: every step applied literally, in order, to the whole input.
/// Row order after grouping steps is by key (callers compare canonical forms). `chain_has_join`
/// tracks the engine's documented limitation: a join fed by a join is rejected.
pub fn reference(prog: &Prog) -> RefOut {
    let mut rows = prog.src.clone();
    let mut has_join = false;
    for s in &prog.steps {
        match s {
            Step::Map(f) => rows = rows.iter().map(|x| f.eval(x)).collect(),
            Step::Filter(p) => rows.retain(|x| p.eval(x)),
            Step::FlatMap(f) => rows = rows.iter().flat_map(|x| f.eval(x)).collect(),
            Step::KeyBy(k) => rows = rows.iter().map(|x| V::pair(k.eval(x), x.clone())).collect(),
            Step::MapBatches(n, f) => rows = rows.chunks((*n).max(1)).flat_map(|c| f.eval(c)).collect(),
            Step::MapValues(f) => rows = rows.iter().map(|r| V::pair(key_of(r), f.eval(&val_of(r)))).collect(),
            Step::FilterValues(p) => rows.retain(|r| p.eval(&val_of(r))),
            Step::MapValuesBatches(n, f) => {
                // `BatchMapValuesOp` asserts that the chunk function keeps the chunk length
                if rows.chunks((*n).max(1)).any(|c| f.eval(&c.iter().map(val_of).collect::<Vec<_>>()).len() != c.len()) { return RefOut::Panic; }
                rows = rows.chunks((*n).max(1)).flat_map(|c| {
                    let vals: Vec<V> = c.iter().map(val_of).collect();
                    let out = f.eval(&vals);
                    c.iter().zip(out).map(|(r, o)| V::pair(key_of(r), o)).collect::<Vec<_>>()
                }).collect()
            }
            Step::Unkey => {}
            Step::Swapkv => rows = rows.iter().map(|r| V::pair(val_of(r), key_of(r))).collect(),
            Step::Values => rows = rows.iter().map(val_of).collect(),
            Step::Keys => rows = rows.iter().map(key_of).collect(),
            Step::Topair => rows = rows.iter().map(|x| { let (a, b) = kv_of(x); V::pair(a, b) }).collect(),
            Step::Gbk => rows = group(&rows).into_iter().map(|(k, vs)| V::pair(k, V::L(vs))).collect(),
            Step::Ungroup => rows = rows.iter().flat_map(|r| list_of(&val_of(r)).into_iter().map(|v| V::pair(key_of(r), v)).collect::<Vec<_>>()).collect(),
            Step::Glen => rows = rows.iter().map(|r| V::pair(key_of(r), V::I(list_of(&val_of(r)).len() as i64))).collect(),
            Step::Gsum => rows = rows.iter().map(|r| V::pair(key_of(r), V::I(list_of(&val_of(r)).iter().fold(0i64, |a, x| a.wrapping_add(x.to_int()))))).collect(),
            Step::CombineValues(c) | Step::CombineValuesLifted(c) => {
                // lifted entry point: rows are (k, group); a key may repeat — all its groups count
                let flat: Vec<V> = if matches!(s, Step::CombineValuesLifted(_)) {
                    rows.iter().flat_map(|r| list_of(&val_of(r)).into_iter().map(|v| V::pair(key_of(r), v)).collect::<Vec<_>>()).collect()
                } else { rows.clone() };
                let mut out = vec![];
                let mut keys: BTreeMap<V, ()> = BTreeMap::new();
                for r in &rows { keys.insert(key_of(r), ()); }
                let g = group(&flat);
                for (k, _) in keys {
                    let vals = g.get(&k).cloned().unwrap_or_default();
                    match c.reference(&vals) { Ok(o) => out.push(V::pair(k, o)), Err(()) => return RefOut::Panic }
                }
                rows = out;
            }
            Step::CombineGlobally(c, _) | Step::CombineGloballyLifted(c, _) => {
                match c.reference(&rows) { Ok(o) => rows = vec![o], Err(()) => return RefOut::Panic }
            }
            Step::Distinct => { rows.sort(); rows.dedup(); }
            Step::DistinctPerKey => { rows.sort(); rows.dedup(); }
            Step::MapSide(side) => { let t = side.iter().fold(0i64, |a, b| a.wrapping_add(*b)); rows = rows.iter().map(|x| V::I(x.to_int().wrapping_add(t))).collect(); }
            Step::FilterSide(side) => rows.retain(|x| side.contains(&x.to_int().rem_euclid(5))),
            Step::CustomOp(n) => rows = rows.iter().map(|x| V::I(x.to_int().wrapping_add(*n))).collect(),
            Step::MapSideMap => { let m: std::collections::HashMap<i64, i64> = [(0, 10), (1, 20)].into_iter().collect(); rows = rows.iter().map(|x| side_map_f(x, &m)).collect(); }
            Step::TryMap => rows = rows.iter().map(|x| result_v(&try_f(x))).collect(),
            Step::Unresult | Step::DebugInspect | Step::DebugCount | Step::DebugSample(_) => {}
            Step::TopKPerKey(k) => rows = group(&rows).into_iter().map(|(key, vs)| V::pair(key, Comb::Topk(*k).reference(&vs).unwrap())).collect(),
            Step::Join(kind, right) => {
                let r = match reference(right) { RefOut::Rows(r) => r, other => return other };
                if has_join || right.has_join() { return RefOut::NestedJoin; }
                has_join = true;
                rows = ref_join(*kind, &rows, &r);
            }
            Step::TryMapP(p) => rows = rows.iter().map(|x| result_v(&try_p(p, x))).collect(),
            Step::TryFlatMap(f, p) => rows = rows.iter().map(|x| result_v(&try_flat_p(f, p, x).map(V::L))).collect(),
            Step::ResMap(f) => rows = rows.iter().map(|r| if is_err_row(r) { r.clone() } else { V::pair(key_of(r), f.eval(&val_of(r))) }).collect(),
            Step::ResFilter(p) => rows.retain(|r| is_err_row(r) || p.eval(&val_of(r))),
            Step::MapSideMapP(pairs) => rows = rows.iter().map(|x| V::I(x.to_int().wrapping_add(side_pairs_lookup(pairs, x.to_int().rem_euclid(3))))).collect(),
            Step::CustomValueOp(n, _) => rows = rows.iter().map(|r| V::pair(key_of(r), V::I(val_of(r).to_int().wrapping_add(*n)))).collect(),
            Step::Composite(inner) => match reference(&Prog { shape: prog.shape, src: rows.clone(), steps: inner.clone() }) { RefOut::Rows(r) => rows = r, other => return other },
            Step::JoinX(kind, r) => {
                let (l, r, nested) = match crate::pipe_joinx::ref_sides(&rows, r) { Ok(x) => x, Err(e) => return e };
                if has_join || nested { return RefOut::NestedJoin; }
                has_join = true;
                rows = ref_join(*kind, &l, &r);
            }
        }
    }
    RefOut::Rows(rows)
}

/// nested-loop relational join
pub fn ref_join(kind: JoinKind, l: &[V], r: &[V]) -> Vec<V> {
    let mut out = vec![];
    let some = |v: V| V::O(Box::new(v));
    for a in l {
        let mut matched = false;
        for b in r {
            if key_of(a) == key_of(b) {
                matched = true;
                out.push(V::pair(key_of(a), match kind {
                    JoinKind::Inner => V::pair(val_of(a), val_of(b)),
                    JoinKind::Left => V::pair(val_of(a), some(val_of(b))),
                    JoinKind::Right => V::pair(some(val_of(a)), val_of(b)),
                    JoinKind::Full => V::pair(some(val_of(a)), some(val_of(b))),
                }));
            }
        }
        if !matched {
            match kind {
                JoinKind::Left => out.push(V::pair(key_of(a), V::pair(val_of(a), V::N))),
                JoinKind::Full => out.push(V::pair(key_of(a), V::pair(some(val_of(a)), V::N))),
                _ => {}
            }
        }
    }
    for b in r {
        if !l.iter().any(|a| key_of(a) == key_of(b)) {
            match kind {
                JoinKind::Right => out.push(V::pair(key_of(b), V::pair(V::N, val_of(b)))),
                JoinKind::Full => out.push(V::pair(key_of(b), V::pair(V::N, some(val_of(b))))),
                _ => {}
            }
        }
    }
    out
}

pub fn ref_answer(r: &RefOut, canon: &str) -> String {
    match r {
        RefOut::Rows(rows) => format!("OK {}", canon_rows(rows, canon).enc()),
        RefOut::NestedJoin => "ERR nested-cogroup".into(),
        RefOut::Panic => "PANIC".into(),
    }
}

/* ---------------------------------------------------------------- generators */

#[derive(Clone, Copy)]
pub struct GenOpts {
    pub max_steps: usize,
    pub max_rows: usize,
    pub barriers: bool,
    pub joins: bool,
    pub globals: bool,
    /// chunk functions that look across their slice (partition-dependent by design)
    pub nonlocal_batches: bool,
}

pub fn gen_value(rng: &mut Rng, depth: usize) -> V {
    match rng.below(if depth == 0 { 10 } else { 6 }) {
        0..=5 => V::I(rng.range(-6, 9)),
        6 => V::S(["", "a", "bb", "xyz"][rng.below(4)].to_string()),
        7 => V::pair(gen_value(rng, depth + 1), gen_value(rng, depth + 1)),
        8 => if rng.chance(1, 2) { V::N } else { V::O(Box::new(gen_value(rng, depth + 1))) },
        _ => V::L((0..rng.below(3)).map(|_| gen_value(rng, depth + 1)).collect()),
    }
}
pub fn gen_key(rng: &mut Rng, nkeys: usize) -> V {
    let k = rng.below(nkeys.max(1)) as i64;
    if rng.chance(1, 8) { V::S(format!("k{k}")) } else { V::I(k) }
}
pub fn gen_rows(rng: &mut Rng, shape: Shape, max_rows: usize) -> Vec<V> {
    let n = match rng.below(10) { 0 => 0, 1 => 1, 2 => 2, _ => rng.below(max_rows + 1) };
    // key skew: few keys, or one hot key
    let nkeys = 1 + rng.below(4);
    let hot = rng.chance(1, 4);
    (0..n).map(|_| match shape {
        Shape::T => gen_value(rng, 0),
        Shape::KV => { let k = if hot && rng.chance(3, 4) { V::I(0) } else { gen_key(rng, nkeys) }; V::pair(k, gen_value(rng, 1)) }
        Shape::KG => { let k = gen_key(rng, nkeys); V::pair(k, V::L((0..rng.below(4)).map(|_| gen_value(rng, 1)).collect())) }
        Shape::R => gen_value(rng, 0),
    }).collect()
}
fn gen_fn(rng: &mut Rng) -> Fn_ {
    match rng.below(12) { 0 | 1 => Fn_::Add(rng.range(-3, 3)), 2 => Fn_::Mul(rng.range(-2, 3)), 3 | 4 => Fn_::Modn(rng.range(1, 4)), 5 => Fn_::Neg,
        6 => Fn_::Dup, 7 => Fn_::Fst, 8 => Fn_::Snd, 9 => Fn_::Wrap, 10 => Fn_::Len, _ => Fn_::Tostr }
}
fn gen_pred(rng: &mut Rng) -> Pred {
    match rng.below(8) { 0 | 1 | 2 => Pred::Even, 3 => Pred::Lt(rng.range(-2, 6)), 4 => Pred::Ge(rng.range(-2, 6)), 5 => Pred::Ne(rng.range(0, 3)), 6 => Pred::Tt, _ => Pred::Ff }
}
fn gen_flat(rng: &mut Rng) -> FlatFn { match rng.below(4) { 0 => FlatFn::Rep(rng.below(3)), 1 => FlatFn::Upto, 2 => FlatFn::Ifeven, _ => FlatFn::Twice } }
fn gen_keyfn(rng: &mut Rng) -> KeyFn { match rng.below(5) { 0 | 1 => KeyFn::Kmod(rng.range(1, 4)), 2 => KeyFn::Kself, 3 => KeyFn::Kconst(7), _ => KeyFn::Kstr } }
fn gen_batch(rng: &mut Rng, nonlocal: bool) -> BatchFn {
    if nonlocal && rng.chance(1, 2) { if rng.chance(1, 2) { BatchFn::Rev } else { BatchFn::Sumall } } else { BatchFn::Each(gen_fn(rng)) }
}
/// `total`: only combiners whose `finish` is defined on an empty fold (built-in Min/Max panic there by design)
pub fn gen_comb(rng: &mut Rng, total: bool) -> Comb {
    match rng.below(9) { 0 => Comb::Count, 1 | 2 => Comb::Sum, 3 => if total { Comb::MinT } else { Comb::Min }, 4 => if total { Comb::MaxT } else { Comb::Max },
        5 => Comb::MinT, 6 => Comb::MaxT, 7 => Comb::Dset, _ => Comb::Topk(rng.below(4)) }
}
pub fn gen_fanout(rng: &mut Rng, parts: usize) -> Option<usize> {
    match rng.below(9) { 0 | 1 => None, 2 => Some(0), 3 => Some(1), 4 => Some(2), 5 => Some(3), 6 => Some(parts.max(1)), 7 => Some(parts + 1), _ => Some(64) }
}

/// one random step legal in `sh`; `after_barrier` forbids order-sensitive steps
pub fn gen_step(rng: &mut Rng, sh: Shape, o: &GenOpts, after_barrier: bool, depth: usize, parts_hint: usize) -> Step {
    loop {
        let nonlocal = o.nonlocal_batches && !after_barrier;
        let s = match rng.below(30) {
            0 | 1 => Step::Map(gen_fn(rng)),
            2 | 3 => Step::Filter(gen_pred(rng)),
            4 => Step::FlatMap(gen_flat(rng)),
            5 | 6 => Step::KeyBy(gen_keyfn(rng)),
            7 => Step::MapBatches(rng.below(4), gen_batch(rng, nonlocal)),
            8 | 9 | 10 => Step::MapValues(gen_fn(rng)),
            11 | 12 | 13 => Step::FilterValues(gen_pred(rng)),
            14 => Step::MapValuesBatches(rng.below(4), gen_batch(rng, nonlocal)),
            15 => Step::Unkey,
            16 => Step::Swapkv,
            17 => match rng.below(4) { 0 => Step::Values, 1 => Step::Keys,
                2 => match rng.below(3) { 0 => Step::DebugInspect, 1 => Step::DebugCount, _ => Step::DebugSample(rng.below(4)) },
                _ => match rng.below(6) { 4 => Step::CustomOp(rng.range(-3, 3)), 5 => Step::MapSideMap, 0 => Step::MapSide((0..rng.below(4)).map(|_| rng.range(-2, 3)).collect()), 1 => Step::FilterSide((0..rng.below(4)).map(|_| rng.range(0, 4)).collect()), 2 => Step::TryMap, _ => Step::Unresult } },
            18 => Step::Topair,
            19 | 20 if o.barriers => Step::Gbk,
            21 if o.barriers => match rng.below(3) { 0 => Step::Ungroup, 1 => Step::Glen, _ => Step::Gsum },
            22 | 23 if o.barriers => Step::CombineValues(gen_comb(rng, false)),
            24 if o.barriers => Step::CombineValuesLifted(gen_comb(rng, true)),
            25 if o.globals => if rng.chance(3, 4) { Step::CombineGlobally(gen_comb(rng, true), gen_fanout(rng, parts_hint)) } else { Step::CombineGloballyLifted(gen_comb(rng, true), gen_fanout(rng, parts_hint)) },
            26 if o.barriers => match rng.below(3) { 0 => Step::Distinct, 1 => Step::DistinctPerKey, _ => Step::TopKPerKey(rng.below(4)) },
            27 | 28 if o.joins && depth < 2 => {
                let kind = *rng.pick(&[JoinKind::Inner, JoinKind::Left, JoinKind::Right, JoinKind::Full]);
                let mut ro = *o;
                ro.max_steps = 3;
                ro.max_rows = o.max_rows.min(8);
                // the right side must end in shape KV; mostly join-free (a nested join is a separate stream)
                ro.joins = false;
                Step::Join(kind, Box::new(gen_prog_to(rng, &ro, Shape::KV, depth + 1)))
            }
            _ => continue,
        };
        if shape_after(sh, &s).is_some() {
            return s;
        }
    }
}

/// random program (any final shape)
pub fn gen_prog(rng: &mut Rng, o: &GenOpts) -> Prog {
    let shape = *rng.pick(&[Shape::T, Shape::T, Shape::KV, Shape::KV, Shape::KV, Shape::KG]);
    let shape = if !o.barriers && shape == Shape::KG { Shape::KV } else { shape };
    let src = gen_rows(rng, shape, o.max_rows);
    let n = rng.below(o.max_steps + 1);
    let parts_hint = 1 + rng.below(6);
    let mut steps = vec![];
    let mut sh = shape;
    let mut after_barrier = false;
    let mut hazard = false;
    for _ in 0..n {
        let s = if hazard { match gen_clearing_step(rng, sh) { Some(s) => s, None => break } } else { gen_step(rng, sh, o, after_barrier, 0, parts_hint) };
        sh = shape_after(sh, &s).unwrap();
        hazard = emits_unordered_lists(&s, after_barrier);
        after_barrier |= s.is_barrier();
        steps.push(s);
    }
    if hazard { if let Some(s) = gen_clearing_step(rng, sh) { steps.push(s); } }
    Prog { shape, src, steps }
}

/// random program whose final shape is `target`
pub fn gen_prog_to(rng: &mut Rng, o: &GenOpts, target: Shape, depth: usize) -> Prog {
    for _ in 0..200 {
        let shape = *rng.pick(&[Shape::T, Shape::KV, Shape::KV]);
        let src = gen_rows(rng, shape, o.max_rows);
        let n = rng.below(o.max_steps + 1);
        let mut steps = vec![];
        let mut sh = shape;
        let mut after_barrier = false;
        let mut hazard = false;
        for _ in 0..n {
            let s = if hazard { match gen_clearing_step(rng, sh) { Some(s) => s, None => break } } else { gen_step(rng, sh, o, after_barrier, depth, 3) };
            sh = shape_after(sh, &s).unwrap();
            hazard = emits_unordered_lists(&s, after_barrier);
            after_barrier |= s.is_barrier();
            steps.push(s);
        }
        if hazard {
            if let Some(s) = gen_clearing_step(rng, sh) { sh = shape_after(sh, &s).unwrap(); steps.push(s); }
        }
        if sh == target {
            return Prog { shape, src, steps };
        }
        // try to convert with one extra step
        let fix = match (sh, target) {
            (Shape::T, Shape::KV) => Some(Step::Topair),
            (Shape::KG, Shape::KV) => Some(Step::Glen),
            (Shape::KV, Shape::T) => Some(Step::Unkey),
            _ => None,
        };
        if let Some(f) = fix {
            steps.push(f);
            return Prog { shape, src, steps };
        }
    }
    Prog { shape: target, src: vec![], steps: vec![] }
}

/// round 5: programs in which the ARRIVAL ORDER at the combine is the source order (no hash-ordered step upstream, at
/// most one element-wise value step so the value-only reorder pass has nothing to sort), ending in a combine with the
/// lawful NON-commutative combiner `ULast`: classic per-key, GBK + lifted (the planner's lift), global and global-lifted
/// with every fan-out. The keys are skewed BY POSITION (head of the source: one or two keys; tail: up to eight), so
/// that in a parallel run a later partition holds more distinct keys than the first — an engine that merges partition
/// accumulators in any order other than partition order gives a different answer. Reference: the last value in source
/// order (`Comb::reference`); model: `Comb.uLast` (`lawful_uLast`).
pub fn gen_ordered_prog(rng: &mut Rng, parts_hint: usize) -> Prog {
    let n = match rng.below(8) { 0 => rng.below(3), _ => 2 + rng.below(46) };
    let head = rng.below(n + 1);
    let src: Vec<V> = (0..n).map(|i| {
        let nk = if i < head { 1 + rng.below(2) } else { 3 + rng.below(6) };
        V::pair(V::I(rng.below(nk) as i64), V::I(rng.range(-9, 40)))
    }).collect();
    let mut steps = vec![];
    match rng.below(4) { 0 => steps.push(Step::MapValues(Fn_::Add(rng.range(-3, 4)))), 1 => steps.push(Step::FilterValues(gen_pred(rng))), _ => {} }
    match rng.below(5) {
        0 => steps.push(Step::CombineValues(Comb::ULast)),
        1 | 2 => { steps.push(Step::Gbk); steps.push(Step::CombineValuesLifted(Comb::ULast)); }
        3 => { steps.push(Step::Values); steps.push(Step::CombineGlobally(Comb::ULast, gen_fanout(rng, parts_hint))); }
        _ => { steps.push(Step::Values); steps.push(Step::CombineGloballyLifted(Comb::ULast, gen_fanout(rng, parts_hint))); }
    }
    Prog { shape: Shape::KV, src, steps }
}
/// round 5: `n` generated programs (barriers, joins, global combines) run with the COARSE `V: Hash` in sequential mode
/// and two parallel modes. The model (`PIPEH` = `PIPE`) and the reference do not know about hashing at all.
pub fn coarse_hash_cases(cx: &mut Ctx, n: usize, o: &CheckOpts) {
    COARSE_HASH.store(true, std::sync::atomic::Ordering::SeqCst);
    for i in 0..n {
        let opts = GenOpts { max_steps: 5, max_rows: 40, barriers: true, joins: i % 4 == 0, globals: true, nonlocal_batches: false };
        let mut p = gen_prog(&mut cx.rng, &opts);
        if p.steps.iter().any(|s| matches!(s, Step::JoinX(..))) { continue; }
        // more keys than hash classes: rows keyed 0..23 (eight hash classes under the coarse hash)
        if p.shape == Shape::KV && i % 2 == 0 {
            let m = 6 + cx.rng.below(60);
            p.src = (0..m).map(|_| V::pair(V::I(cx.rng.below(24) as i64), V::I(cx.rng.range(-5, 9)))).collect();
        }
        // (the planner's value-only reorder pass is a recorded finding of C02/C03: keep it out of this block)
        if !reorder_inert(&p) || matches!(reference(&p), RefOut::Panic) { continue; }
        cx.count("pipe:coarse-hash");
        let parts = 2 + cx.rng.below(5);
        check_prog(cx, &p, &[Mode::Seq, Mode::Par(parts), Mode::Par(2)], o);
    }
    COARSE_HASH.store(false, std::sync::atomic::Ordering::SeqCst);
}

/// C03, "a group-then-combine pair is replaced by a direct combine only when both give the same per-key result" —
/// judged on the REAL engine against ITSELF: the planned run (lift active) and the literal run (hook
/// `verif_hooks::set_skip_lift`: the same chain, `group_by_key` followed by the lifted combine's `build_from_group`
/// path) must return the same rows, in sequential mode and in parallel mode. No reference of ours is involved, so the
/// verdict does not rest on any order the crate does not promise. Programs: `gen_ordered_prog` (the non-commutative
/// `ULast`, where the two plans differ as soon as either of them reorders what it merges) and generated GBK+lifted pairs
/// with the built-in combiners.
pub fn lift_vs_literal_cases(cx: &mut Ctx, n: usize) {
    let o = CheckOpts { par_vs_seq: false, vs_reference: false };
    for i in 0..n {
        let parts = 2 + cx.rng.below(6);
        let p = if i % 3 != 2 {
            let mut p = gen_ordered_prog(&mut cx.rng, parts);
            // only the lifted shapes
            if !p.steps.iter().any(|s| matches!(s, Step::Gbk)) { let k = p.steps.len(); p.steps.truncate(k - 1); if matches!(p.steps.last(), Some(Step::Values)) { p.steps.pop(); } p.steps.push(Step::Gbk); p.steps.push(Step::CombineValuesLifted(Comb::ULast)); }
            p
        } else {
            let mut p = gen_ordered_prog(&mut cx.rng, parts);
            let c = [Comb::Sum, Comb::Count, Comb::MinT, Comb::Topk(2), Comb::USumMod(7), Comb::UMaxAbs][cx.rng.below(6)].clone();
            p.steps.retain(|s| matches!(s, Step::MapValues(_) | Step::FilterValues(_)));
            p.steps.push(Step::Gbk); p.steps.push(Step::CombineValuesLifted(c));
            p
        };
        cx.count("pipe:lift-vs-literal");
        for m in [Mode::Seq, Mode::Par(parts)] {
            let canon = p.canon();
            let planned = run_real(&p, m);
            ironbeam::verif_hooks::set_skip_lift(true);
            let literal = run_real(&p, m);
            ironbeam::verif_hooks::set_skip_lift(false);
            let a = outcome_answer(&planned, canon);
            let b = outcome_answer(&literal, canon);
            let idx = cx.case(p.request(&m.enc()), a.clone(), p.src.len() >= 2);
            if matches!(planned, Outcome::Hang) || matches!(literal, Outcome::Hang) { cx.oracle_fail(idx, "run-does-not-terminate", format!("mode {}", m.enc())); continue; }
            if a != b { cx.oracle_fail(idx, "lifted-plan-differs-from-literal-group-then-combine", format!("mode={} planned={a} literal(lift pass skipped)={b}", m.enc())); }
        }
        let _ = &o;
    }
}

/// run `n` of them in sequential mode and two parallel modes
pub fn ordered_comb_cases(cx: &mut Ctx, n: usize, o: &CheckOpts) {
    for _ in 0..n {
        let parts = 2 + cx.rng.below(6);
        let p = gen_ordered_prog(&mut cx.rng, parts);
        cx.count("pipe:ordered-noncommutative-combine");
        let parts2 = 2 + cx.rng.below(3);
        check_prog(cx, &p, &[Mode::Seq, Mode::Par(parts), Mode::Par(parts2)], o);
    }
}

pub fn partition_choices(len: usize) -> Vec<usize> {
    let mut v = vec![1, 2, 3, len.saturating_sub(1).max(1), len.max(1), len + 1, 7, 64];
    v.sort();
    v.dedup();
    v
}

pub fn count_prog(cx: &mut Ctx, p: &Prog) {
    cx.count(&format!("rows:{}", match p.src.len() { 0 => "0", 1 => "1", 2..=4 => "2-4", 5..=15 => "5-15", _ => "16+" }));
    cx.count(&format!("steps:{}", match p.steps.len() { 0 => "0", 1..=3 => "1-3", 4..=7 => "4-7", _ => "8+" }));
    for s in &p.steps { cx.count(&format!("step:{}", s.kind())); }
}

/* ---------------------------------------------------------------- shared check driver */

pub struct CheckOpts {
    /// compare every parallel run with the sequential run (C01)
    pub par_vs_seq: bool,
    /// compare every run with the plain-vector reference interpreter (C02, C04, C05, C07)
    pub vs_reference: bool,
}

/// Run `prog` in every mode on the REAL engine, register the correspondence cases and evaluate the oracles.
pub fn check_prog(cx: &mut Ctx, prog: &Prog, modes: &[Mode], o: &CheckOpts) {
    // each hung run leaves a spinning thread behind and costs a watchdog period: three are proof enough
    if cx.stats.get("outcome:HANG").copied().unwrap_or(0) >= 3 {
        cx.count("skipped-after-3-hangs");
        let note = "RUN INCOMPLETE: three runs did not terminate (each leaves a spinning thread behind); the remaining programs of this run were skipped — see input_distribution[\"skipped-after-3-hangs\"] for how many";
        if !cx.notes.iter().any(|n| n == note) { cx.notes.push(note.to_string()); }
        return;
    }
    if !hazard_free(prog) {
        cx.count("skipped:hash-ordered-lists-reach-an-order-sensitive-step");
        return;
    }
    count_prog(cx, prog);
    let canon = prog.canon();
    let nontrivial = prog.src.len() >= 2 && !prog.steps.is_empty();
    let reference = if o.vs_reference { Some(reference(prog)) } else { None };
    // the fail-fast terminal of a `Result` collection: Ok(all values) iff no element failed, else Err
    if prog.steps.iter().fold(Some(prog.shape), |s, st| s.and_then(|s| shape_after(s, st))) == Some(Shape::R) {
        if let Some(RefOut::Rows(rows)) = &reference {
            let p2 = prog.clone();
            let got = with_watchdog(10, move || {
                let p = Pipeline::default();
                match build(&p, &p2) { Coll::R(x) => x.collect_fail_fast().map_err(|e| format!("{e}")), _ => Err("not R".into()) }
            });
            let any_err = rows.iter().any(|r| matches!(r, V::P(t, _) if **t == V::S("err".into())));
            let want_ok: Vec<V> = rows.iter().filter_map(|r| match r { V::P(_, v) => Some((**v).clone()), _ => None }).collect();
            let idx = cx.case(format!("ORACLE-ONLY collect_fail_fast {}", prog.request("seq").replace(' ', "_")), "-".into(), nontrivial);
            cx.count("terminal:collect_fail_fast");
            match got {
                // after a barrier the row order comes out of a hash map: compare canonical forms (exact sequence when barrier-free)
                Some(Ok(Ok(v))) if !any_err && canon_rows(&v, canon) == canon_rows(&want_ok, canon) => {}
                Some(Ok(Err(_))) if any_err => {}
                other => cx.oracle_fail(idx, "collect-fail-fast-wrong", format!("got {:?}, any element failed = {any_err}", other.map(|r| r.map(|x| x.map(|v| v.len()))))),
            }
        }
    }
    let mut seq_answer: Option<String> = None;
    for m in modes {
        let out = run_real(prog, *m);
        let ans = outcome_answer(&out, canon);
        let idx = cx.case(prog.request(&m.enc()), ans.clone(), nontrivial);
        cx.count(&format!("mode:{}", if *m == Mode::Seq { "seq" } else { "par" }));
        cx.count(&format!("outcome:{}", ans.split(' ').next().unwrap_or("")));
        if matches!(out, Outcome::Hang) {
            cx.oracle_fail(idx, "run-does-not-terminate", format!("no result within 10 s in mode {}", m.enc()));
            continue;
        }
        if *m == Mode::Seq {
            seq_answer = Some(ans.clone());
        } else if o.par_vs_seq {
            if let Some(sa) = &seq_answer {
                if *sa != ans {
                    cx.oracle_fail(idx, "par-differs-from-seq", format!("seq={sa} par={ans}"));
                }
            }
        }
        if let Some(r) = &reference {
            let want = ref_answer(r, canon);
            if want != ans {
                // attribute: does the difference vanish when the planner's reorder pass is skipped?
                ironbeam::verif_hooks::set_skip_reorder(true);
                let out2 = run_real(prog, *m);
                ironbeam::verif_hooks::set_skip_reorder(false);
                let ans2 = outcome_answer(&out2, canon);
                let sig = if ans2 == want { "planned-differs-from-literal-only-through-reorder-pass" } else { "differs-from-reference" };
                cx.oracle_fail(idx, sig, format!("mode={} real={ans} reference={want} real-without-reorder-pass={ans2}", m.enc()));
            }
        }
    }
}

/* ---------------------------------------------------------------- streamed file sources */

/// build `prog` over a STREAMED JSONL file source: the source rows are written with the real
/// `write_jsonl_vec` into `dir`, then read back through `read_jsonl_streaming(.., lines_per_shard)`
pub fn build_file(p: &Pipeline, prog: &Prog, per: usize, dir: &std::path::Path) -> anyhow::Result<Coll> {
    use ironbeam::io::jsonl::write_jsonl_vec;
    use ironbeam::read_jsonl_streaming;
    CUR_PIPELINE.with(|c| *c.borrow_mut() = Some(p.clone()));
    let path = dir.join("src.jsonl");
    let mut c = match prog.shape {
        Shape::T => { write_jsonl_vec(&path, &prog.src)?; Coll::T(read_jsonl_streaming::<V>(p, &path, per)?) }
        Shape::KV => { write_jsonl_vec(&path, &prog.src.iter().map(kv_of).collect::<Vec<_>>())?; Coll::KV(read_jsonl_streaming::<(V, V)>(p, &path, per)?) }
        Shape::KG => { write_jsonl_vec(&path, &prog.src.iter().map(kg_of).collect::<Vec<_>>())?; Coll::KG(read_jsonl_streaming::<(V, Vec<V>)>(p, &path, per)?) }
        Shape::R => anyhow::bail!("no file source of shape R"),
    };
    for s in &prog.steps { c = apply_step(c, s); }
    Ok(c)
}

pub fn run_real_file(prog: &Prog, per: usize, mode: Mode) -> Outcome {
    crate::ctx::breadcrumb(&format!("PIPEF per={per} {}", prog.request(&mode.enc())));
    let prog = prog.clone();
    let threads = PAR_THREADS.load(std::sync::atomic::Ordering::SeqCst);
    match with_watchdog(10, move || {
        let dir = tempfile::tempdir()?;
        let p = Pipeline::default();
        let c = build_file(&p, &prog, per, dir.path())?;
        if threads == 0 || mode == Mode::Seq { collect(c, mode) } else { pool_for(threads).install(|| collect(c, mode)) }
    }) {
        None => Outcome::Hang,
        Some(Err(msg)) => Outcome::Panic(msg),
        Some(Ok(Err(e))) => Outcome::Err(format!("{e}")),
        Some(Ok(Ok(rows))) => Outcome::Rows(rows),
    }
}

/// like `check_prog`, over a streamed file source with `per` lines per shard (request kind `PIPEF`)
pub fn check_prog_file(cx: &mut Ctx, prog: &Prog, per: usize, modes: &[Mode], o: &CheckOpts) {
    if !hazard_free(prog) { return; }
    let canon = prog.canon();
    let reference = if o.vs_reference { Some(reference(prog)) } else { None };
    let mut seq_answer: Option<String> = None;
    for m in modes {
        let out = run_real_file(prog, per, *m);
        let ans = outcome_answer(&out, canon);
        let req = prog.request(&m.enc());
        let idx = cx.case(format!("PIPEF per={per} {}", req.strip_prefix("PIPE ").unwrap_or(&req)), ans.clone(), prog.src.len() >= 2);
        cx.count("source:streamed-jsonl-file");
        cx.count(&format!("file-shards:{}", match prog.src.len().div_ceil(per.max(1)) { 0 => "0", 1 => "1", 2..=4 => "2-4", _ => "5+" }));
        if matches!(out, Outcome::Hang) { cx.oracle_fail(idx, "run-does-not-terminate", format!("file source, mode {}", m.enc())); continue; }
        if *m == Mode::Seq { seq_answer = Some(ans.clone()); }
        else if o.par_vs_seq { if let Some(sa) = &seq_answer { if *sa != ans { cx.oracle_fail(idx, "par-differs-from-seq", format!("file source per={per}: seq={sa} par={ans}")); } } }
        if let Some(r) = &reference {
            let want = ref_answer(r, canon);
            if want != ans { cx.oracle_fail(idx, "differs-from-reference", format!("file source per={per} mode={} real={ans} reference={want}", m.enc())); }
        }
    }
}

/// Large inputs: the program runs on the REAL engine and is judged by the oracles only (reference
/// interpreter, par == seq); the model is not asked (the request line would be megabytes). The case is
/// registered as `ORACLE-ONLY <description>` which the driver echoes.
pub fn check_prog_oracle_only(cx: &mut Ctx, prog: &Prog, desc: &str, modes: &[Mode]) {
    let canon = prog.canon();
    let want = ref_answer(&reference(prog), canon);
    for m in modes {
        let out = run_real(prog, *m);
        let ans = outcome_answer(&out, canon);
        let idx = cx.case(format!("ORACLE-ONLY {desc} mode={} steps={}", m.enc(), steps_enc(&prog.steps).replace(' ', "_")), "-".into(), true);
        cx.count("oracle-only:large-input");
        if ans != want {
            let short = |s: &str| if s.len() > 300 { format!("{}…({} bytes)", &s[..300], s.len()) } else { s.to_string() };
            cx.oracle_fail(idx, "large-input-differs-from-reference", format!("mode={} real={} reference={}", m.enc(), short(&ans), short(&want)));
        }
    }
}

/// a keyed source of `n` rows over `keys` keys with values 0..n (deterministic)
pub fn large_keyed_source(n: usize, keys: i64) -> Vec<V> {
    (0..n as i64).map(|i| V::pair(V::I((i * 7919) % keys), V::I(i % 1000))).collect()
}

/* ---------------------------------------------------------------- hash-order hazards */

/// Does this step emit LISTS whose element order comes out of a hash container (a `HashSet` turned into a
/// `Vec`, or group values collected from rows that themselves arrive in hash order)?
fn emits_unordered_lists(s: &Step, after_barrier: bool) -> bool {
    match s {
        Step::CombineValues(Comb::Dset) | Step::CombineValuesLifted(Comb::Dset) => true,
        Step::CombineGlobally(Comb::Dset, _) | Step::CombineGloballyLifted(Comb::Dset, _) => true,
        Step::Gbk => after_barrier,
        _ => false,
    }
}
/// steps that may consume such lists without looking at their element order, and remove them
fn clears_unordered_lists(s: &Step) -> bool {
    matches!(s, Step::Glen | Step::Gsum | Step::Ungroup | Step::Map(Fn_::Len) | Step::MapValues(Fn_::Len)
        | Step::CombineValues(Comb::Count) | Step::CombineValuesLifted(Comb::Count)
        | Step::CombineGlobally(Comb::Count, _) | Step::CombineGloballyLifted(Comb::Count, _))
}
/// A program is hazard-free when every step that follows a producer of hash-ordered lists is one that
/// consumes them order-insensitively. Otherwise equality / ordering of list-valued data (group by a list
/// key, distinct, min/max/top-k ties broken on the encoded text) could differ between two CORRECT runs,
/// and between the real run and the insertion-ordered model — a false alarm, not a finding.
pub fn hazard_free(prog: &Prog) -> bool {
    fn walk(steps: &[Step]) -> bool {
        let mut after_barrier = false;
        let mut hazard = false;
        for s in steps {
            if let Step::Join(_, r) = s { if !walk(&r.steps) || ends_in_hazard(&r.steps) { return false; } }
            if let Step::JoinX(_, r) = s { for side in crate::pipe_joinx::side_steps(r) { if !walk(&side) || ends_in_hazard(&side) { return false; } } }
            if hazard {
                if !clears_unordered_lists(s) { return false; }
                hazard = false;
            }
            if emits_unordered_lists(s, after_barrier) { hazard = true; }
            after_barrier |= s.is_barrier();
        }
        true
    }
    walk(&prog.steps)
}
pub fn ends_in_hazard(steps: &[Step]) -> bool {
    let mut after_barrier = false;
    let mut hazard = false;
    for s in steps {
        if hazard && clears_unordered_lists(s) { hazard = false; }
        if emits_unordered_lists(s, after_barrier) { hazard = true; }
        after_barrier |= s.is_barrier();
    }
    hazard
}
/// one clearing step legal in shape `sh`, if any
fn gen_clearing_step(rng: &mut Rng, sh: Shape) -> Option<Step> {
    Some(match sh {
        Shape::KG => match rng.below(4) { 0 => Step::Glen, 1 => Step::Gsum, 2 => Step::Ungroup, _ => Step::CombineValuesLifted(Comb::Count) },
        Shape::T => if rng.chance(1, 2) { Step::Map(Fn_::Len) } else { Step::CombineGlobally(Comb::Count, None) },
        Shape::KV => if rng.chance(1, 2) { Step::MapValues(Fn_::Len) } else { Step::CombineValues(Comb::Count) },
        Shape::R => return None,
    })
}

/// would appending `s` to a block whose ops so far are `block` make the reorder pass change the order?
/// (`block` = sort keys of the ops of the current all-movable run; None = block contains a non-movable op)
pub fn movable_key(s: &Step) -> Option<(u8, u8)> {
    match s {
        Step::FilterValues(_) => Some((0, 1)),
        Step::MapValuesBatches(..) => Some((1, 2)),
        Step::MapValues(_) => Some((1, 3)),
        Step::CustomValueOp(_, c) => Some((if *c != 1 { 1 } else { 0 }, *c)),
        _ => None,
    }
}

/// programs in which the value-only reorder pass is the identity (used where the known reorder finding
/// must not interfere with another property's oracle)
pub fn reorder_inert(prog: &Prog) -> bool {
    fn inert_steps(steps: &[Step]) -> bool {
        let mut block: Vec<(u8, u8)> = vec![];
        let mut all_movable = true;
        let mut ok = true;
        let flush = |block: &mut Vec<(u8, u8)>, all_movable: &mut bool, ok: &mut bool| {
            if *all_movable && block.len() > 1 && block.windows(2).any(|w| w[0] > w[1]) { *ok = false; }
            block.clear();
            *all_movable = true;
        };
        for s in steps {
            if let Step::Join(_, r) = s { if !inert_steps(&r.steps) { return false; } }
            if let Step::JoinX(_, r) = s { for side in crate::pipe_joinx::side_steps(r) { if !inert_steps(&side) { return false; } } }
            let stateless = !matches!(s, Step::Gbk | Step::CombineValues(_) | Step::CombineValuesLifted(_) | Step::CombineGlobally(..)
                | Step::CombineGloballyLifted(..) | Step::TopKPerKey(_) | Step::Join(..) | Step::Distinct | Step::DistinctPerKey | Step::JoinX(..));
            if !stateless { flush(&mut block, &mut all_movable, &mut ok); continue; }
            match movable_key(s) { Some(k) => block.push(k), None => { all_movable = false; block.push((9, 9)); } }
        }
        flush(&mut block, &mut all_movable, &mut ok);
        ok
    }
    inert_steps(&prog.steps)
}

/* ---------------------------------------------------------------- round 3 additions (PIPE3b) */

/// apply `steps` to an already built collection of `p` (sources other than `from_vec`; composites)
pub fn build_from(p: &Pipeline, mut c: Coll, steps: &[Step]) -> Coll {
    CUR_PIPELINE.with(|cur| *cur.borrow_mut() = Some(p.clone()));
    for s in steps {
        c = apply_step(c, s);
    }
    c
}

/// a SIZE parameter (rows, depth, length of an exhaustive block): the quick value in the quick tier, the thorough
/// value otherwise. `Ctx::budget` multiplies the quick value by ten in the search tier, which is meant for iteration
/// counts; applied to the depth of an exhaustive enumeration it asks for 12^20 programs / 2^30 inputs.
pub fn size_for(cx: &Ctx, quick: usize, thorough: usize) -> usize {
    if cx.tier == crate::ctx::Tier::Quick { quick } else { thorough }
}

/// child modules (they see this file's private helpers): terminals / sources / composites, the second element
/// type `W`, float aggregates
#[path = "pipe_ext.rs"]
pub mod ext;
#[path = "pipe_typed.rs"]
pub mod typed;
#[path = "pipe_float.rs"]
pub mod float;
