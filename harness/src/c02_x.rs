//! C02, round 3 (PIPE3b): `collect_fail_fast` as a first-class terminal (`try_map` / `try_flat_map` with named
//! predicates, `Result`-preserving steps, every pattern of failing positions), generated side maps (duplicate keys,
//! empty), batch sizes around the partition length, a flag-claiming user operator through `apply_transform`,
//! `apply_composite`, debug taps on 100+ element partitions, length-changing chunk functions.
//! Request kinds: `PIPE` (new step tokens) and `PIPEX … term=fail_fast` (`pipe_ext.rs`).

use crate::ctx::Ctx;
use crate::pipe::ext::*;
use crate::pipe::*;

fn ints(v: impl IntoIterator<Item = i64>) -> Vec<V> { v.into_iter().map(V::I).collect() }

fn par_modes(cx: &mut Ctx, len: usize, k: usize) -> Vec<Mode> {
    let choices = partition_choices(len);
    let mut m = vec![Mode::Seq];
    for _ in 0..k { let n = *cx.rng.pick(&choices); if !m.contains(&Mode::Par(n)) { m.push(Mode::Par(n)); } }
    m
}

pub fn corpus() -> Vec<Prog> {
    vec![
        // only the LAST element fails (the reviewer's missed mutant swallowed exactly this failure)
        Prog { shape: Shape::T, src: ints([2, 4, 6, 7]), steps: vec![Step::TryMapP(Pred::Even)] },
        // first error in sequence order: 3 fails before 5
        Prog { shape: Shape::T, src: ints([2, 3, 4, 5]), steps: vec![Step::TryMapP(Pred::Even)] },
        Prog { shape: Shape::T, src: ints([2, 4]), steps: vec![Step::TryFlatMap(FlatFn::Twice, Pred::Even), Step::ResMap(Fn_::Len)] },
        Prog { shape: Shape::T, src: vec![], steps: vec![Step::TryMapP(Pred::Ff)] },
    ]
}

pub fn run(cx: &mut Ctx) {
    let o = XOpts { par_vs_seq: true, vs_reference: true };

    /* ---- collect_fail_fast: corpus ---- */
    for p in corpus() {
        let n = p.src.len();
        check_prog_x(cx, &p, &SourceSpec::Vec, Terminal::FailFast, &[Mode::Seq, Mode::Par(2), Mode::Par(n.max(1))], &o);
    }

    /* ---- round 5: element-wise programs over LAWFUL user sources, the shardless one included ----
       `SplitPol::Chunks` on an empty payload answers `split` with ZERO partitions (what a streamed file source does
       for an empty file): the parallel engine must still return the sequential answer (no rows, no error). */
    {
        let specs = crate::c01_x::lawful_specs();
        let n = cx.budget(60, 600);
        for i in 0..n {
            let opts = GenOpts { max_steps: 4, max_rows: 9, barriers: false, joins: false, globals: false, nonlocal_batches: false };
            let mut p = gen_prog(&mut cx.rng, &opts);
            if i % 3 == 0 { p.src.clear(); }
            if !reorder_inert(&p) || matches!(reference(&p), RefOut::Panic) { continue; }
            let spec = specs[i % specs.len()].clone();
            cx.count("xsource:elementwise-over-lawful-user-source");
            check_prog_x(cx, &p, &spec, Terminal::Collect, &[Mode::Seq, Mode::Par(1), Mode::Par(3)], &o);
        }
    }

    /* ---- collect_fail_fast: EVERY set of failing positions, sources of 0..maxlen rows ---- */
    let maxlen = size_for(cx, 4, 6);
    let templates: Vec<Vec<Step>> = vec![
        vec![Step::TryMapP(Pred::Even)],
        vec![Step::Map(Fn_::Add(2)), Step::TryMapP(Pred::Even), Step::ResMap(Fn_::Add(1))],
        vec![Step::TryFlatMap(FlatFn::Twice, Pred::Even), Step::ResFilter(Pred::Tt)],
        vec![Step::MapBatches(2, BatchFn::Each(Fn_::Add(4))), Step::TryMapP(Pred::Even), Step::ResFilter(Pred::Ge(4))],
    ];
    let mut n_ex = 0;
    for len in 0..=maxlen {
        for mask in 0u32..(1 << len) {
            // distinct values; position i fails (is odd) iff bit i of `mask` is set
            let src: Vec<V> = (0..len).map(|i| V::I(2 * i as i64 + ((mask >> i) & 1) as i64)).collect();
            for t in &templates {
                let p = Prog { shape: Shape::T, src: src.clone(), steps: t.clone() };
                check_prog_x(cx, &p, &SourceSpec::Vec, Terminal::FailFast, &[Mode::Seq, Mode::Par(2), Mode::Par(len.max(1))], &o);
                n_ex += 1;
            }
        }
    }
    cx.exhaustive_blocks.push(format!("collect_fail_fast: every subset of failing positions over sources of 0..{maxlen} distinct rows x 4 program templates (try_map, try_flat_map, Result-preserving map / filter) x seq + par 2, len ({n_ex} programs)"));

    /* ---- collect_fail_fast: try_map appended to random T-shaped element-wise programs ---- */
    let rounds = cx.budget(150, 4000);
    for i in 0..rounds {
        let opts = GenOpts { max_steps: 8, max_rows: size_for(cx, 24, 60), barriers: false, joins: false, globals: false, nonlocal_batches: false };
        let mut p = gen_prog_to(&mut cx.rng, &opts, Shape::T, 0);
        let rows = match reference(&p) { RefOut::Rows(r) => r, _ => continue };
        let m = rows.len();
        let at = |i: usize| rows.get(i).map_or(0, V::to_int);
        let pred = match i % 7 {
            0 => Pred::Tt,
            1 => Pred::Ff,
            2 => Pred::Ne(at(0)),
            3 => Pred::Ne(at(m.saturating_sub(1))),
            4 => Pred::Ne(at(m / 2)),
            5 => Pred::Even,
            _ => Pred::Lt(at(cx.rng.below(m.max(1)))),
        };
        if cx.rng.chance(1, 4) { p.steps.push(Step::TryFlatMap(cx.rng.pick(&[FlatFn::Twice, FlatFn::Rep(2), FlatFn::Upto, FlatFn::Ifeven]).clone(), pred)); }
        else { p.steps.push(Step::TryMapP(pred)); }
        for _ in 0..cx.rng.below(3) {
            if cx.rng.chance(1, 2) { p.steps.push(Step::ResMap(cx.rng.pick(&[Fn_::Add(1), Fn_::Neg, Fn_::Dup, Fn_::Len, Fn_::Tostr]).clone())); }
            else { p.steps.push(Step::ResFilter(cx.rng.pick(&[Pred::Tt, Pred::Even, Pred::Ge(0), Pred::Ff]).clone())); }
        }
        let modes = par_modes(cx, p.src.len(), 2);
        // `from_iter` delegates to `from_vec`
        let spec = if i % 3 == 0 { SourceSpec::Iter } else { SourceSpec::Vec };
        check_prog_x(cx, &p, &spec, Terminal::FailFast, &modes, &o);
        // the same program with the plain collect (the `Result`s as rows)
        if i % 4 == 0 { check_prog_x(cx, &p, &SourceSpec::Vec, Terminal::Collect, &[Mode::Seq, Mode::Par(3)], &o); }
    }

    /* ---- side_hashmap: duplicate keys (last pair wins), the empty map ---- */
    let side_maps: Vec<Vec<(i64, i64)>> = vec![
        vec![], vec![(0, 10), (1, 20)], vec![(0, 10), (0, 30)], vec![(1, 5), (2, 7), (1, 9), (0, 1), (2, -4)], vec![(2, 1), (2, 2), (2, 3)], vec![(7, 7)],
    ];
    for pairs in &side_maps {
        let p = Prog { shape: Shape::T, src: ints(-2..9), steps: vec![Step::MapSideMapP(pairs.clone()), Step::Filter(Pred::Ne(1))] };
        check_prog_x(cx, &p, &SourceSpec::Vec, Terminal::Collect, &[Mode::Seq, Mode::Par(3)], &o);
    }
    for _ in 0..cx.budget(10, 300) {
        let pairs: Vec<(i64, i64)> = (0..cx.rng.below(7)).map(|_| (cx.rng.range(0, 3), cx.rng.range(-9, 30))).collect();
        let p = Prog { shape: Shape::T, src: gen_rows(&mut cx.rng, Shape::T, 12), steps: vec![Step::Map(Fn_::Add(cx.rng.range(-2, 2))), Step::MapSideMapP(pairs)] };
        check_prog_x(cx, &p, &SourceSpec::Vec, Terminal::Collect, &[Mode::Seq, Mode::Par(2)], &o);
    }

    /* ---- batch sizes {0,1,2,3,len-1,len,len+1,64} for map_batches / map_values_batches ---- */
    let mut n_b = 0;
    for len in [0usize, 1, 2, 5, 9, 66] {
        let mut sizes = vec![0usize, 1, 2, 3, len.saturating_sub(1), len, len + 1, 64];
        sizes.sort(); sizes.dedup();
        let src: Vec<V> = (0..len as i64).map(|i| V::pair(V::I(i % 3), V::I(i * i - 7))).collect();
        for &b in &sizes {
            for f in [BatchFn::Each(Fn_::Mul(3)), BatchFn::Rev, BatchFn::Sumall, BatchFn::Droplast, BatchFn::Dupfirst, BatchFn::Countrow] {
                let local = f.elementwise();
                // slice-dependent chunk functions are partition-dependent by design: sequential only
                let modes: Vec<Mode> = if local { vec![Mode::Seq, Mode::Par(2), Mode::Par(len.max(1))] } else { vec![Mode::Seq] };
                let p = Prog { shape: Shape::KV, src: src.clone(), steps: vec![Step::Values, Step::MapBatches(b, f.clone())] };
                check_prog_x(cx, &p, &SourceSpec::Vec, Terminal::Collect, &modes, &o);
                // `BatchMapValuesOp` asserts that the chunk function keeps the chunk length (a panic otherwise)
                let p = Prog { shape: Shape::KV, src: src.clone(), steps: vec![Step::MapValuesBatches(b, f.clone())] };
                check_prog_x(cx, &p, &SourceSpec::Vec, Terminal::Collect, &modes, &o);
                n_b += 2;
            }
        }
    }
    // a partition EMPTIED by an upstream filter in front of a chunk function that answers the empty slice with a row:
    // the real chunk loop never calls the function then (round-4 seeded change C02-6: a single-batch fast path did)
    for b in [1usize, 3, 64] {
        let src: Vec<V> = (0..5i64).map(|i| V::pair(V::I(i % 2), V::I(i))).collect();
        let p = Prog { shape: Shape::KV, src: src.clone(), steps: vec![Step::Values, Step::Filter(Pred::Ff), Step::MapBatches(b, BatchFn::Countrow)] };
        check_prog_x(cx, &p, &SourceSpec::Vec, Terminal::Collect, &[Mode::Seq], &o);
        let p = Prog { shape: Shape::KV, src, steps: vec![Step::Values, Step::Filter(Pred::Ge(3)), Step::MapBatches(b, BatchFn::Countrow)] };
        check_prog_x(cx, &p, &SourceSpec::Vec, Terminal::Collect, &[Mode::Seq], &o);
    }
    // beyond 1024 rows per chunk (a clamp of the batch size to 1024 would show here), sequential, slice-dependent
    {
        let src: Vec<V> = (0..1100i64).map(|i| V::pair(V::I(i % 2), V::I(i))).collect();
        for b in [1024usize, 1025, 1100, 5000] {
            let p = Prog { shape: Shape::KV, src: src.clone(), steps: vec![Step::Values, Step::MapBatches(b, BatchFn::Rev), Step::Filter(Pred::Ge(1018)), Step::Filter(Pred::Lt(1032))] };
            check_prog_x(cx, &p, &SourceSpec::Vec, Terminal::Collect, &[Mode::Seq], &o);
            let p = Prog { shape: Shape::KV, src: src.clone(), steps: vec![Step::MapValuesBatches(b, BatchFn::Rev), Step::Filter(Pred::Ge(1019)), Step::Filter(Pred::Lt(1034))] };
            check_prog_x(cx, &p, &SourceSpec::Vec, Terminal::Collect, &[Mode::Seq], &o);
        }
    }
    cx.exhaustive_blocks.push(format!("batch sizes {{0,1,2,3,len-1,len,len+1,64}} x lengths {{0,1,2,5,9,66}} x 5 chunk functions (element-wise, rev, sumall, two length-changing ones) x map_batches / map_values_batches ({n_b} programs)"));

    /* ---- a user operator through apply_transform that CLAIMS the three capability flags ---- */
    for i in 0..cx.budget(40, 800) {
        let len = 1 + cx.rng.below(6);
        let steps: Vec<Step> = (0..len).map(|_| match cx.rng.below(4) {
            0 => Step::CustomValueOp(cx.rng.range(-3, 3), *cx.rng.pick(&[1u8, 2, 3, 3, 10])),
            1 => Step::MapValues(cx.rng.pick(&[Fn_::Mul(2), Fn_::Neg, Fn_::Add(1)]).clone()),
            2 => Step::FilterValues(if i % 2 == 0 { Pred::Tt } else { cx.rng.pick(&[Pred::Even, Pred::Ge(0), Pred::Tt]).clone() }),
            _ => Step::CustomValueOp(1, 3),
        }).collect();
        let p = Prog { shape: Shape::KV, src: gen_rows(&mut cx.rng, Shape::KV, 10), steps };
        if !reorder_inert(&p) { cx.count("program:reorder-pass-active"); }
        check_prog_x(cx, &p, &SourceSpec::Vec, Terminal::Collect, &[Mode::Seq, Mode::Par(2)], &o);
    }

    /* ---- apply_composite: a random element-wise program cut into packaged pieces ---- */
    for _ in 0..cx.budget(60, 1500) {
        let opts = GenOpts { max_steps: 9, max_rows: size_for(cx, 20, 60), barriers: false, joins: false, globals: false, nonlocal_batches: false };
        let p = gen_prog(&mut cx.rng, &opts);
        if p.steps.is_empty() || final_shape_is_r(&p) { continue; }
        let mut steps = vec![];
        let mut i = 0;
        let mut sh = p.shape;
        while i < p.steps.len() {
            let take = 1 + cx.rng.below(3.min(p.steps.len() - i));
            let piece: Vec<Step> = p.steps[i..i + take].to_vec();
            let sh_out = piece.iter().fold(Some(sh), |s, st| s.and_then(|s| shape_after(s, st))).unwrap();
            // a composite's input and output are typed collections the harness has: T, KV, KG
            if cx.rng.chance(2, 3) && sh != Shape::R && sh_out != Shape::R { steps.push(Step::Composite(piece)); } else { steps.extend(piece); }
            sh = sh_out;
            i += take;
        }
        let q = Prog { shape: p.shape, src: p.src.clone(), steps };
        let modes = par_modes(cx, q.src.len(), 1);
        check_prog_x(cx, &q, &SourceSpec::Vec, Terminal::Collect, &modes, &o);
    }

    /* ---- the second element type ---- */
    typed_block(cx);

    /* ---- debug taps on partitions of 100+ elements ---- */
    for _ in 0..cx.budget(6, 60) {
        let n = 100 + cx.rng.below(200);
        let src: Vec<V> = (0..n as i64).map(|i| V::pair(V::I(i % 5), V::I(cx.rng.range(-50, 50)))).collect();
        let tap = |cx: &mut Ctx| match cx.rng.below(3) { 0 => Step::DebugInspect, 1 => Step::DebugCount, _ => Step::DebugSample(*cx.rng.pick(&[0usize, 1, 7, 99, 100, 101, 500])) };
        let steps = vec![tap(cx), Step::MapValues(Fn_::Add(1)), tap(cx), Step::Filter(Pred::Ne(3)), tap(cx), Step::Values, tap(cx)];
        let p = Prog { shape: Shape::KV, src, steps };
        check_prog_x(cx, &p, &SourceSpec::Vec, Terminal::Collect, &[Mode::Seq, Mode::Par(1), Mode::Par(2)], &o);
    }
}

/// the second element type `W`: type-changing steps, the downcast panic of the listed reorder finding on the REAL engine
fn typed_block(cx: &mut Ctx) {
    use crate::pipe::typed::*;
    let kv = |k: i64, v: i64| V::pair(V::I(k), V::I(v));
    // the witness of `Props/C02.lean::reorder_type_panic`, on a non-empty and on the EMPTY source (the downcast of an
    // empty `Vec<(V, V)>` to `Vec<(V, W)>` fails all the same)
    for src in [vec![kv(0, 1), kv(0, 2)], vec![], vec![kv(0, 1), kv(1, 2), kv(0, 3), kv(1, 4), kv(2, 5)]] {
        for steps in [
            vec![TS::MapValuesVW(Fn_::Add(1)), TS::FilterValuesW(Pred::Even)],
            vec![TS::MapValuesVW(Fn_::Add(1)), TS::MapValuesBatchesW(2, Fn_::Neg)],
            vec![TS::FilterValues(Pred::Tt), TS::MapValuesVW(Fn_::Add(1)), TS::MapValuesWV(Fn_::Mul(2)), TS::FilterValues(Pred::Ge(0))],
            vec![TS::MapValuesVW(Fn_::Add(1)), TS::ValuesW, TS::FilterW(Pred::Even)],
            vec![TS::MapValuesVW(Fn_::Add(1)), TS::FilterValuesW(Pred::Even), TS::ValuesW],
        ] {
            let n = src.len();
            check_typed(cx, &TProg { t0: 2, src: src.clone(), steps }, &[Mode::Seq, Mode::Par(2), Mode::Par(n.max(1))]);
        }
    }
    // small scope: every type-checked program of <= depth steps from a 12-step menu over (V, V) rows
    let menu = vec![
        TS::MapValues(Fn_::Add(1)), TS::FilterValues(Pred::Even), TS::MapValuesBatches(2, Fn_::Mul(2)), TS::MapValuesVW(Fn_::Add(1)), TS::Values,
        TS::FilterValuesW(Pred::Even), TS::MapValuesWW(Fn_::Neg), TS::MapValuesWV(Fn_::Add(2)), TS::MapValuesBatchesW(3, Fn_::Add(1)), TS::ValuesW,
        TS::MapVW(Fn_::Add(1)), TS::FilterW(Pred::Lt(3)),
    ];
    let depth = size_for(cx, 3, 4);
    let src: Vec<V> = (0..5).map(|i| kv(i % 2, i)).collect();
    let mut progs: Vec<Vec<TS>> = vec![vec![]];
    let mut frontier = progs.clone();
    for _ in 0..depth {
        let mut next = vec![];
        for st in &frontier {
            let t = st.last().map_or(2u8, |s| s.ty().1);
            for s in &menu { if s.ty().0 == t { let mut x = st.clone(); x.push(s.clone()); next.push(x); } }
        }
        progs.extend(next.iter().cloned());
        frontier = next;
    }
    let n = progs.len();
    for steps in progs { check_typed(cx, &TProg { t0: 2, src: src.clone(), steps }, &[Mode::Seq, Mode::Par(2)]); }
    cx.exhaustive_blocks.push(format!("two element types: every type-checked program of <= {depth} steps from a 12-step menu (type-changing map_values / map, filter_values on either type, batches) over a 5-row (V, V) input x seq + par 2 ({n} programs)"));
    // random: any typed steps; and all-value-only programs (one fused, fully movable block)
    for i in 0..cx.budget(200, 5000) {
        let mr = size_for(cx, 12, 40);
        let p = gen_tprog(&mut cx.rng, 8, mr, i % 2 == 0);
        let choices = partition_choices(p.src.len());
        let a = *cx.rng.pick(&choices);
        check_typed(cx, &p, &[Mode::Seq, Mode::Par(a)]);
    }
}

fn final_shape_is_r(p: &Prog) -> bool {
    p.steps.iter().fold(Some(p.shape), |s, st| s.and_then(|s| shape_after(s, st))) == Some(Shape::R)
}
