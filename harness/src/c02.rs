//! C02 — not implemented yet.
use crate::ctx::Ctx;

pub fn run(cx: &mut Ctx) {
    cx.notes.push("C02: harness not implemented".to_string());
}
