//! C02 — element-wise pipelines compute the steps as written, in order.
//!
//! Programs of 0..12 element-wise steps (map, filter, flat_map, key_by, map_values, filter_values,
//! batch maps, shape-changing maps) over unkeyed / keyed element types, both modes, all partition counts.
//! Oracle (independent of the model): the real output equals the plain-vector interpretation of the
//! same steps (`pipe::reference`), as a SEQUENCE; no panic, no error.

use crate::ctx::Ctx;
use crate::pipe::*;

pub fn corpus() -> Vec<Prog> {
    let kv = |k: i64, v: i64| V::pair(V::I(k), V::I(v));
    vec![
        // the value-only reorder: map_values(+1) then filter_values(even) runs the filter first
        Prog { shape: Shape::KV, src: vec![kv(0, 1), kv(0, 2)], steps: vec![Step::MapValues(Fn_::Add(1)), Step::FilterValues(Pred::Even)] },
        // map_values(+1) then a batch function that looks across its slice
        Prog { shape: Shape::KV, src: vec![kv(0, 1), kv(0, 2), kv(0, 3)], steps: vec![Step::MapValues(Fn_::Add(1)), Step::MapValuesBatches(2, BatchFn::Sumall)] },
        Prog { shape: Shape::T, src: (1..=7).map(V::I).collect(), steps: vec![Step::Map(Fn_::Add(1)), Step::Filter(Pred::Even), Step::FlatMap(FlatFn::Twice), Step::MapBatches(0, BatchFn::Each(Fn_::Mul(2)))] },
    ]
}

pub fn run(cx: &mut Ctx) {
    let o = CheckOpts { par_vs_seq: true, vs_reference: true };
    for p in corpus() {
        check_prog(cx, &p, &[Mode::Seq], &o);
    }
    // exhaustive small scope: every program of <= 2 steps from a fixed menu of 12 element-wise steps
    // over one keyed input, seq + par 1..4
    let menu: Vec<Step> = vec![
        Step::MapValues(Fn_::Add(1)), Step::MapValues(Fn_::Mul(2)), Step::FilterValues(Pred::Even), Step::FilterValues(Pred::Lt(3)),
        Step::MapValuesBatches(2, BatchFn::Each(Fn_::Neg)), Step::Filter(Pred::Ge(2)), Step::Swapkv, Step::Unkey, Step::Values,
        Step::Map(Fn_::Dup), Step::FlatMap(FlatFn::Twice), Step::Keys,
    ];
    let src: Vec<V> = (0..5).map(|i| V::pair(V::I(i % 2), V::I(i))).collect();
    let depth = size_for(cx, 2, 3);
    let mut progs: Vec<(Shape, Vec<Step>)> = vec![(Shape::KV, vec![])];
    let mut frontier = progs.clone();
    for _ in 0..depth {
        let mut next = vec![];
        for (sh, st) in &frontier {
            for s in &menu {
                if let Some(sh2) = shape_after(*sh, s) {
                    let mut t = st.clone();
                    t.push(s.clone());
                    next.push((sh2, t));
                }
            }
        }
        progs.extend(next.iter().cloned());
        frontier = next;
    }
    let n = progs.len();
    for (_, steps) in progs {
        let p = Prog { shape: Shape::KV, src: src.clone(), steps };
        check_prog(cx, &p, &[Mode::Seq, Mode::Par(1), Mode::Par(2), Mode::Par(3), Mode::Par(4)], &o);
    }
    cx.exhaustive_blocks.push(format!("all element-wise programs of <= {depth} steps from a 12-step menu over a 5-row keyed input x seq + par 1..4 ({n} programs)"));

    // LONG value-only runs (34..64 steps in one fused block, beyond the insertion-sort regime of std's sorts): the
    // planner's cost sort must keep equal-cost steps in written order. Half of the programs interleave always-true
    // filters (cost 1) with non-commuting map_values (cost 3): a STABLE cost sort is then invisible in the result, so
    // the reference must be met exactly; the other half uses real filters (the listed reorder finding may be active —
    // there the model, which contains the stable sort, must predict the real answer).
    for i in 0..cx.budget(12, 200) {
        let len = *cx.rng.pick(&[34usize, 40, 48, 64]);
        let inert = i % 2 == 0;
        let mut muls = 0;
        let steps: Vec<Step> = (0..len).map(|_| match cx.rng.below(4) {
            0 => Step::FilterValues(if inert { Pred::Tt } else { cx.rng.pick(&[Pred::Tt, Pred::Even, Pred::Ge(-50)]).clone() }),
            1 => Step::MapValues(Fn_::Neg),
            2 if muls < 8 => { muls += 1; Step::MapValues(Fn_::Mul(2)) }
            _ => Step::MapValues(Fn_::Add(cx.rng.range(-3, 4))),
        }).collect();
        let src: Vec<V> = (0..1 + cx.rng.below(6)).map(|j| V::pair(V::I(j as i64 % 2), V::I(cx.rng.range(-4, 9)))).collect();
        let p = Prog { shape: Shape::KV, src, steps };
        cx.count(if inert { "program:long-value-only-run(stable-sort-inert)" } else { "program:long-value-only-run" });
        check_prog(cx, &p, &[Mode::Seq, Mode::Par(2)], &o);
    }

    // round 6 — VERY long element-wise chains (one fused block of 100..600 ordinary steps, not value-only: no reorder):
    // every step must survive fusion exactly once and in order, however long the block gets (a cap on the block size,
    // a chunked fusion loop, a recursion limit would lose or repeat a step). `add c` / `neg` alternate with distinct
    // constants, so losing, repeating or moving ANY single step changes every output value.
    for (i, len) in [100usize, 127, 128, 129, 130, 200, 255, 256, 257, 300, 513, 600].into_iter().enumerate() {
        let steps: Vec<Step> = (0..len).map(|j| if j % 3 == 1 { Step::Map(Fn_::Neg) } else { Step::Map(Fn_::Add(1 + (j as i64 * 7 + i as i64) % 23)) }).collect();
        let p = Prog { shape: Shape::T, src: (0..4).map(|x| V::I(x * 5 - 3)).collect(), steps };
        cx.count("program:very-long-elementwise-chain");
        check_prog(cx, &p, &[Mode::Seq, Mode::Par(3)], &o);
    }

    // random element-wise programs; chunk functions that look across their slice only sequentially
    let rounds = cx.budget(500, 12000);
    for i in 0..rounds {
        let nonlocal = i % 3 == 0;
        let opts = GenOpts { max_steps: 12, max_rows: cx.budget(30, 60), barriers: false, joins: false, globals: false, nonlocal_batches: nonlocal };
        let p = gen_prog(&mut cx.rng, &opts);
        let has_nonlocal = p.steps.iter().any(|s| matches!(s, Step::MapBatches(_, f) | Step::MapValuesBatches(_, f) if !f.elementwise()));
        let mut modes = vec![Mode::Seq];
        if !has_nonlocal {
            let choices = partition_choices(p.src.len());
            modes.push(Mode::Par(*cx.rng.pick(&choices)));
            modes.push(Mode::Par(*cx.rng.pick(&choices)));
        } else {
            cx.count("program:has-slice-dependent-batch-fn(seq only)");
        }
        if !reorder_inert(&p) { cx.count("program:reorder-pass-active"); }
        check_prog(cx, &p, &modes, &o);
    }
    // round 3: terminals, new steps, composites (c02_x.rs)
    crate::c02_x::run(cx);
}
