//! C17 — not implemented yet.
use crate::ctx::Ctx;

pub fn run(cx: &mut Ctx) {
    cx.notes.push("C17: harness not implemented".to_string());
}

/// finite tables dumped from the running code (translator route); appended to Generated/Tables.lean
pub fn tables(_out: &mut String) {}
