//! C17 — validation passes exactly the valid records and accounts for every invalid one.
//!
//! Requests (all run REAL pipelines / functions of ironbeam):
//!
//! `VALIDATE <skip|log|ff> <rec|kv> <mode|short> <COLL> <EXEC> <rows>`
//!     EXEC  : `seq` = collect_seq, `par:N` = collect_par(_, Some(N)), `par:none` = collect_par(_, None), and
//!             `ckseq` / `ckpar:N` = the same run through `Runner { checkpoint_config: Some(enabled), .. }`, i.e.
//!             through `exec_seq_with_checkpointing` (a second copy of the node loop) / `exec_par_with_checkpointing`
//!     rows  : `-` or comma-separated `id:SPEC` (rec) / `key=id:SPEC` (kv); SPEC = `V` (validate() = Ok) or
//!             `E<digits>` (validate() = Err(list of the errors with these one-digit codes); `E` = Err(vec![]))
//!     api   : `mode`  = validate_with_mode / validate_values_with_mode (collector Some unless COLL = c0)
//!             `short` = validate_skip_invalid / validate_fail_fast / validate_values_skip_invalid (c0 only)
//!     COLL  : state of the user's `Arc<Mutex<ErrorCollector>>` BEFORE the run: `c0` = no collector is passed,
//!             `c1` = a collector whose mutex is healthy, `cp` = a collector whose mutex is POISONED (another
//!             thread panicked while holding the lock); `c1+<entries>` / `cp+<entries>` = it already holds these
//!             entries (comma-separated `<record_id|none>/E<digits>`, in order) — pre-populated by the user or
//!             left there by an earlier run that used the same collector
//!     exec  : `par:none` = `collect_par(_, None)`: the partition count is the planner's suggestion, which depends
//!             on the machine's core count; record ids are partition-local, so for this form the log is
//!             rendered without ids
//!     answer: `OK kept=<rows|-> pre=<the first |init| entries now in the collector, in order|-> log=<the entries
//!             after them|->` — the new entries in collector order for `seq`, sorted for `par:N`, sorted and
//!             without ids for `par:none`; or `PANIC at=<idx>:E<digits>` (sequential: the panic message
//!             names the failing index and errors) / `PANIC` (parallel: which partition's panic is propagated is
//!             scheduling-dependent, so only the fact is compared)
//! `COMBINE <results>`   results: `-` or comma-separated `V` / `E<digits>`;  answer `OK` | `ERR <digits|->`
//! `VPIPE <skip|log|ff> <rec|kv> <COLL> <EXEC> <steps> <rows>`  pipeline `from_vec → steps → collect`,
//!     steps a `+`-separated list drawn from `inc` (map_values / map: shift every error code by one, mod 10),
//!     `heal` (map_values / map: a record whose errors are all even becomes valid), `brk` (map_values / map: a
//!     VALID record whose id is divisible by 3 becomes invalid with the one error `id mod 10`), `odd`
//!     (filter_values / filter: keep records with an odd id), `val` (validate_values_with_mode /
//!     validate_with_mode; EVERY `val` of the request shares the one collector) — the block goes through the
//!     REAL planner (fusion + reorder pass), so a validator that let itself be moved would change the answer.
//!     `gbk` = a barrier: group_by_key + the ungrouping flat_map (unkeyed shape: key_by(key_of(id)) in front, flat_map
//!     back to records); the rows leave it in `HashMap` order, so for a request with a `gbk` the kept rows are
//!     rendered sorted and the log sorted without ids.
//!     answer as for VALIDATE.
//! `VJOIN <skip|log|ff> <COLL> <EXEC> <lsteps|-> <lrows> <rsteps|-> <rrows>`  `left.steps.join_inner(right.steps)` on
//!     keyed rows, steps as in VPIPE without `gbk`; every validator of BOTH sides shares the collector. Joined row
//!     `key=<left rec>&<right rec>`, rendered sorted (hasher order); log as for VALIDATE (left side's entries
//!     before the right side's when sequential).
//! `BIG <skip|log|ff> <rec|kv> <COLL> <EXEC> <len> <period> <v|i>`  one validator over `len` formula-generated rows
//!     (`v`: row i valid iff i % period == period-1; `i`: INVALID iff …; an invalid row has four errors spelling i
//!     backwards; key = key_of(i)). answer: `OK kept=<count> khash=<order-dependent hash of the kept rows> pre=…
//!     log=<count> lsum=<order-independent checksum of the new entries, ids included> lseq=<order-dependent one,
//!     sequential runs only>`; the oracle below is evaluated on the full real result.
//!
//! Oracle (independent of the Lean model; computed from the request alone): output = the valid records in
//! order; whatever was in the collector before the run is still there, unchanged, in front; in log mode with a
//! collector the multiset of error lists logged BY THIS RUN = the invalid records' error lists (hence one entry
//! per invalid record and |output| + |new entries| = |input|); nothing is logged otherwise; skip/log never
//! fail — also when the collector's mutex is poisoned; fail-fast fails iff some record is invalid; on ONE
//! partition (sequential, or one partition asked for) the entries are the invalid records by position, in order;
//! all of this unchanged with checkpointing enabled (a validator applied twice would log twice), behind a barrier
//! (multisets) and for the two sides of a join (output = join of the valid records of each side);
//! `error_count()` = `errors().len()`; combine is Ok iff every part is Ok and otherwise carries the
//! concatenation of all error lists in order.

use crate::ctx::{Ctx, Tier, guarded};
use ironbeam::validation::{
    ErrorCollector, Validate, ValidationError, ValidationMode, ValidationResult, combine_validations,
};
use ironbeam::checkpoint::{CheckpointConfig, CheckpointPolicy};
use ironbeam::node::Node;
use ironbeam::{ExecMode, PCollection, Pipeline, Runner, from_vec};
use std::sync::atomic::{AtomicU32, AtomicUsize, Ordering};
use std::sync::{Arc, Mutex, OnceLock};

/// scheduling jitter inside `validate()` (0 = off): makes partitions reach the shared collector at uneven times
static JITTER: AtomicU32 = AtomicU32::new(0);

/// Table-driven record: carries its own validation verdict.
#[derive(Clone, Debug, PartialEq, Eq)]
pub struct Rec {
    pub id: i64,
    /// None = valid; Some(codes) = `Err(codes.map(err_of))` (possibly the empty list)
    pub errs: Option<Vec<u8>>,
}

fn err_of(c: u8) -> ValidationError {
    let e = if c % 2 == 0 { ValidationError::field(format!("f{c}"), format!("m{c}")) } else { ValidationError::new(format!("m{c}")) };
    if c % 3 == 0 { e.with_code(format!("k{c}")) } else { e }
}
/// exact inverse of `err_of` on (field, message, code); anything else is `?`
fn code_of(e: &ValidationError) -> char {
    for c in 0u8..10 {
        let w = err_of(c);
        if w.field == e.field && w.message == e.message && w.code == e.code {
            return (b'0' + c) as char;
        }
    }
    '?'
}
/// inverse of `Display for ValidationError` on the ten table errors
fn code_of_display(s: &str) -> char {
    for c in 0u8..10 {
        if err_of(c).to_string() == s {
            return (b'0' + c) as char;
        }
    }
    '?'
}

impl Validate for Rec {
    fn validate(&self) -> ValidationResult {
        let j = JITTER.load(Ordering::Relaxed);
        if j != 0 {
            let h = (self.id as u64).wrapping_mul(0x9E37_79B9_7F4A_7C15) >> 60;
            for _ in 0..(h * j as u64) { std::hint::spin_loop(); }
            if h % 4 == 0 { std::thread::yield_now(); }
        }
        match &self.errs {
            None => Ok(()),
            Some(cs) => Err(cs.iter().map(|c| err_of(*c)).collect()),
        }
    }
}

#[derive(Clone, Copy, PartialEq, Eq, Debug)]
enum Mode { Skip, Log, Ff }
impl Mode {
    fn tok(self) -> &'static str { match self { Mode::Skip => "skip", Mode::Log => "log", Mode::Ff => "ff" } }
    fn real(self) -> ValidationMode {
        match self { Mode::Skip => ValidationMode::SkipInvalid, Mode::Log => ValidationMode::LogAndContinue, Mode::Ff => ValidationMode::FailFast }
    }
}
const MODES: [Mode; 3] = [Mode::Skip, Mode::Log, Mode::Ff];

/// `CkSeq` / `CkPar(n)`: the same run through `Runner { checkpoint_config: Some(enabled) }`, i.e. through
/// `exec_seq_with_checkpointing` (its own copy of the node loop) / `exec_par_with_checkpointing`
#[derive(Clone, Copy, PartialEq, Eq, Debug)]
enum Exec { Seq, Par(usize), ParNone, CkSeq, CkPar(usize) }
impl Exec {
    fn tok(self) -> String {
        match self {
            Exec::Seq => "seq".into(),
            Exec::Par(n) => format!("par:{n}"),
            Exec::ParNone => "par:none".into(),
            Exec::CkSeq => "ckseq".into(),
            Exec::CkPar(n) => format!("ckpar:{n}"),
        }
    }
    fn is_seq(self) -> bool { matches!(self, Exec::Seq | Exec::CkSeq) }
    fn is_ck(self) -> bool { matches!(self, Exec::CkSeq | Exec::CkPar(_)) }
    /// the partition count asked for (None: sequential / planner's choice)
    fn parts(self) -> Option<usize> { match self { Exec::Par(n) | Exec::CkPar(n) => Some(n), _ => None } }
    fn ck(self) -> Exec { match self { Exec::Seq => Exec::CkSeq, Exec::Par(n) => Exec::CkPar(n), e => e } }
}

fn digits(cs: &[u8]) -> String { cs.iter().map(|c| (b'0' + c) as char).collect() }
fn spec(errs: &Option<Vec<u8>>) -> String {
    match errs {
        None => "V".into(),
        Some(cs) => format!("E{}", digits(cs)),
    }
}
fn enc_rec(r: &Rec) -> String { format!("{}:{}", r.id, spec(&r.errs)) }
fn enc_kv(kv: &(i64, Rec)) -> String { format!("{}={}", kv.0, enc_rec(&kv.1)) }
fn join_or_dash(v: Vec<String>) -> String { if v.is_empty() { "-".into() } else { v.join(",") } }

/// one collector entry, canonicalised: (record_id or "none", error codes)
type Entry = (String, String);
fn enc_entry(e: &Entry) -> String { format!("{}/E{}", e.0, e.1) }

/// State of the user's `Arc<Mutex<ErrorCollector>>` before a run.
#[derive(Clone, Debug, PartialEq, Eq)]
struct Coll {
    /// false = no collector is handed to the builder (`None`)
    present: bool,
    /// the mutex is poisoned (a thread panicked while holding the guard)
    poisoned: bool,
    /// entries already in it, in order
    init: Vec<Entry>,
}
impl Coll {
    fn none() -> Coll { Coll { present: false, poisoned: false, init: vec![] } }
    fn fresh() -> Coll { Coll { present: true, poisoned: false, init: vec![] } }
    fn of(present: bool) -> Coll { if present { Coll::fresh() } else { Coll::none() } }
    fn tok(&self) -> String {
        let head = if !self.present { "c0" } else if self.poisoned { "cp" } else { "c1" };
        if self.init.is_empty() { head.to_string() } else { format!("{head}+{}", self.init.iter().map(enc_entry).collect::<Vec<_>>().join(",")) }
    }
    /// the real object in this state (built also for `c0`: it is then NOT passed, and must stay as it is)
    fn build(&self) -> Arc<Mutex<ErrorCollector>> {
        let mut ec = ErrorCollector::new();
        for (id, cs) in &self.init {
            let id = if id == "none" { None } else { Some(id.clone()) };
            ec.add_error(id, cs.bytes().map(|b| err_of(b - b'0')).collect());
        }
        let a = Arc::new(Mutex::new(ec));
        if self.poisoned { poison(&a); }
        a
    }
}

/// what user code does to poison the collector: panic while holding the guard (e.g. inside a reporting loop)
fn poison(a: &Arc<Mutex<ErrorCollector>>) {
    let b = Arc::clone(a);
    let _ = std::thread::spawn(move || {
        let _g = b.lock().unwrap_or_else(std::sync::PoisonError::into_inner);
        panic!("user code panicked while holding the collector");
    })
    .join();
    assert!(a.is_poisoned(), "harness: could not poison the collector");
}

/// what a run left behind, canonicalised
struct Obs {
    /// Ok(kept rows as tokens) or Err(panic message)
    out: Result<Vec<String>, String>,
    /// the whole collector content, in collector order
    log: Vec<Entry>,
    /// `ErrorCollector::error_count()`
    count: usize,
}

fn read_collector(c: &Arc<Mutex<ErrorCollector>>) -> (Vec<Entry>, usize) {
    // a panic while the lock is held would poison it; the entries are still there
    let g = match c.lock() { Ok(g) => g, Err(p) => p.into_inner() };
    let n = g.error_count();
    let v: Vec<Entry> = g
        .errors()
        .iter()
        .map(|re| (re.record_id.clone().unwrap_or_else(|| "none".into()), re.errors.iter().map(code_of).collect::<String>()))
        .collect();
    (v, n)
}

const THREADS: Option<usize> = Some(8);

fn flatten_run<T>(r: Result<anyhow::Result<Vec<T>>, String>, enc: impl Fn(&T) -> String) -> Result<Vec<String>, String> {
    match r {
        Ok(Ok(v)) => Ok(v.iter().map(enc).collect()),
        Ok(Err(e)) => Err(format!("ERR {e}")),
        Err(p) => Err(p),
    }
}

/// scratch directory of the checkpointing runs (one per harness process; /dev/shm when there is one)
fn ck_dir() -> &'static std::path::Path {
    static DIR: OnceLock<tempfile::TempDir> = OnceLock::new();
    DIR.get_or_init(|| {
        let shm = std::path::Path::new("/dev/shm");
        if shm.is_dir() {
            if let Ok(t) = tempfile::Builder::new().prefix("ibh-c17-").tempdir_in(shm) { return t; }
        }
        tempfile::Builder::new().prefix("ibh-c17-").tempdir().expect("tempdir")
    })
    .path()
}
static CK_RUNS: AtomicUsize = AtomicUsize::new(0);
/// an ENABLED checkpoint configuration; policy / recovery / retention rotate with the run counter (none of them may
/// matter: C11, and `validate_checkpointed_is_plain`). Files a failed (fail-fast) run leaves behind are found by the
/// recovery block of a later run.
fn ck_config() -> CheckpointConfig {
    let k = CK_RUNS.fetch_add(1, Ordering::Relaxed);
    CheckpointConfig {
        enabled: true,
        directory: ck_dir().to_path_buf(),
        policy: match k % 3 { 0 => CheckpointPolicy::AfterEveryBarrier, 1 => CheckpointPolicy::EveryNNodes(1), _ => CheckpointPolicy::Hybrid { barriers: true, interval_secs: 0 } },
        auto_recover: k % 2 == 0,
        max_checkpoints: if k % 5 == 4 { None } else { Some(2) },
    }
}

fn collect<T: ironbeam::RFBound>(p: &Pipeline, c: PCollection<T>, exec: Exec) -> Result<anyhow::Result<Vec<T>>, String> {
    let p = p.clone();
    guarded(move || match exec {
        // the public helpers the property is observed at
        Exec::Seq => c.collect_seq(),
        Exec::Par(n) => c.collect_par(THREADS, Some(n)),
        Exec::ParNone => c.collect_par(THREADS, None),
        // what the helpers do, with a checkpoint configuration added
        Exec::CkSeq => Runner { mode: ExecMode::Sequential, checkpoint_config: Some(ck_config()), ..Default::default() }.run_collect::<T>(&p, c.node_id()),
        Exec::CkPar(n) => Runner { mode: ExecMode::Parallel { threads: THREADS, partitions: Some(n) }, checkpoint_config: Some(ck_config()), ..Default::default() }.run_collect::<T>(&p, c.node_id()),
    })
}

fn run_rec(mode: Mode, short: bool, coll: &Coll, arc: &Arc<Mutex<ErrorCollector>>, exec: Exec, rows: &[Rec]) -> Obs {
    let p = Pipeline::default();
    let src = from_vec(&p, rows.to_vec());
    let v = if short {
        match mode {
            Mode::Skip => src.validate_skip_invalid(),
            Mode::Ff => src.validate_fail_fast(),
            Mode::Log => unreachable!(),
        }
    } else {
        src.validate_with_mode(mode.real(), if coll.present { Some(Arc::clone(arc)) } else { None })
    };
    let out = flatten_run(collect(&p, v, exec), enc_rec);
    let (log, count) = read_collector(arc);
    Obs { out, log, count }
}

fn run_kv(mode: Mode, short: bool, coll: &Coll, arc: &Arc<Mutex<ErrorCollector>>, exec: Exec, rows: &[(i64, Rec)]) -> Obs {
    let p = Pipeline::default();
    let src = from_vec(&p, rows.to_vec());
    let v = if short {
        match mode {
            Mode::Skip => src.validate_values_skip_invalid(),
            _ => unreachable!(),
        }
    } else {
        src.validate_values_with_mode(mode.real(), if coll.present { Some(Arc::clone(arc)) } else { None })
    };
    let out = flatten_run(collect(&p, v, exec), enc_kv);
    let (log, count) = read_collector(arc);
    Obs { out, log, count }
}

/// `Validation failed at <record|pair> <idx>: <e1>, <e2>` ↦ (idx, codes)
fn parse_panic(msg: &str, keyed: bool) -> Option<(usize, String)> {
    let pfx = if keyed { "Validation failed at pair " } else { "Validation failed at record " };
    let rest = msg.strip_prefix(pfx)?;
    let (idx, errs) = rest.split_once(": ")?;
    let idx: usize = idx.parse().ok()?;
    let codes: String = if errs.is_empty() { String::new() } else { errs.split(", ").map(code_of_display).collect() };
    Some((idx, codes))
}

/// how the rows / entries of an answer are ordered
#[derive(Clone, Copy, PartialEq, Eq)]
enum Canon {
    /// as the run returned them
    Plain,
    /// the request has a barrier (`gbk`): rows leave it in `HashMap` order -> kept rows sorted, log sorted without ids
    HashOrder,
    /// a join emits its rows in the `HashMap` order of the keys -> kept rows sorted (ids of the log are deterministic)
    KeptSorted,
}

fn canon_answer_c(obs: &Obs, coll: &Coll, exec: Exec, keyed: bool, canon: Canon) -> String {
    let k = coll.init.len().min(obs.log.len());
    let pre: Vec<String> = obs.log[..k].iter().map(enc_entry).collect();
    let no_ids = exec == Exec::ParNone || canon == Canon::HashOrder;
    let mut log: Vec<String> = obs.log[k..].iter().map(|e| if no_ids { format!("E{}", e.1) } else { enc_entry(e) }).collect();
    if !exec.is_seq() || canon == Canon::HashOrder { log.sort(); }
    match &obs.out {
        Ok(kept) => {
            let mut kept = kept.clone();
            if canon != Canon::Plain { kept.sort(); }
            format!("OK kept={} pre={} log={}", join_or_dash(kept), join_or_dash(pre), join_or_dash(log))
        }
        Err(msg) if msg.starts_with("ERR ") => "ERR".to_string(),
        Err(msg) => match (exec.is_seq(), parse_panic(msg, keyed)) {
            (true, Some((i, cs))) => format!("PANIC at={i}:E{cs}"),
            (true, None) => "PANIC unparsed".to_string(),
            (_, _) => "PANIC".to_string(),
        },
    }
}
fn canon_answer(obs: &Obs, coll: &Coll, exec: Exec, keyed: bool) -> String { canon_answer_c(obs, coll, exec, keyed, Canon::Plain) }

/// The part of the property's statement that is about the collector object itself (any request kind):
/// what was in it before the run is still there, in front and unchanged; its two accessors agree.
/// Returns the entries added by this run.
fn oracle_collector(cx: &mut Ctx, i: usize, coll: &Coll, obs: &Obs) -> Vec<Entry> {
    if obs.count != obs.log.len() {
        cx.oracle_fail(i, "error-count-differs-from-number-of-entries", format!("error_count() = {} but errors() has {} entries", obs.count, obs.log.len()));
    }
    let k = coll.init.len();
    if obs.log.len() < k || obs.log[..k] != coll.init[..] {
        cx.oracle_fail(i, "collector-earlier-entries-lost-or-changed", format!("the collector held {:?} before the run and {:?} after it", coll.init, obs.log));
        return vec![];
    }
    obs.log[k..].to_vec()
}

/// The property's own statement on one observed run. `recs` = the records in input order (values for kv),
/// `toks` = their row tokens.
fn oracle(cx: &mut Ctx, i: usize, mode: Mode, coll: &Coll, keyed: bool, exec: Exec, recs: &[&Rec], toks: &[String], obs: &Obs) {
    let valid_toks: Vec<String> = recs.iter().zip(toks).filter(|(r, _)| r.errs.is_none()).map(|(_, t)| t.clone()).collect();
    let invalid_in_order: Vec<String> = recs.iter().filter_map(|r| r.errs.as_ref().map(|cs| digits(cs))).collect();
    let mut invalid_errs = invalid_in_order.clone();
    invalid_errs.sort();
    let any_invalid = !invalid_errs.is_empty();
    match (&obs.out, mode) {
        (Err(m), Mode::Skip | Mode::Log) => {
            let sig = if coll.poisoned && m.contains("PoisonError") { "skip-or-log-run-failed-on-poisoned-collector" } else { "skip-or-log-run-failed" };
            cx.oracle_fail(i, sig, format!("mode {} failed: {m}", mode.tok()));
        }
        (Err(m), Mode::Ff) => {
            if !any_invalid {
                cx.oracle_fail(i, "failfast-failed-without-invalid-record", format!("all records valid but the run failed: {m}"));
            } else {
                match parse_panic(m, keyed) {
                    Some((_, cs)) if invalid_errs.contains(&cs) => {}
                    _ => cx.oracle_fail(i, "failfast-message-not-an-invalid-record", format!("panic message {m:?} does not quote an invalid record's errors")),
                }
            }
        }
        (Ok(kept), _) => {
            if mode == Mode::Ff && any_invalid {
                cx.oracle_fail(i, "failfast-passed-with-invalid-record", format!("{} invalid records but the run returned {} rows", invalid_errs.len(), kept.len()));
            } else if *kept != valid_toks {
                cx.oracle_fail(i, "output-not-the-valid-records-in-order", format!("expected {valid_toks:?} got {kept:?}"));
            }
        }
    }
    let new = oracle_collector(cx, i, coll, obs);
    let in_order: Vec<String> = new.iter().map(|x| x.1.clone()).collect();
    let mut logged = in_order.clone();
    logged.sort();
    if mode == Mode::Log && coll.present {
        if let Ok(k) = &obs.out {
            if logged != invalid_errs {
                cx.oracle_fail(i, "collector-not-one-entry-per-invalid-record", format!("expected error lists {invalid_errs:?} got {logged:?}"));
            }
            if k.len() + new.len() != recs.len() {
                cx.oracle_fail(i, "counts-do-not-add-up", format!("{} kept + {} logged != {} input", k.len(), new.len(), recs.len()));
            }
            // one partition (sequential run, or one partition asked for): the entry of an invalid record names that
            // record by its position in the input, and the entries come in input order
            if exec.is_seq() || exec.parts() == Some(1) {
                let pfx = if keyed { "pair_" } else { "record_" };
                let want: Vec<Entry> = recs.iter().enumerate().filter_map(|(j, r)| r.errs.as_ref().map(|cs| (format!("{pfx}{j}"), digits(cs)))).collect();
                if new != want {
                    let at = new.iter().zip(&want).position(|(a, b)| a != b).unwrap_or(new.len().min(want.len()));
                    cx.oracle_fail(i, "one-partition-log-not-the-invalid-records-by-position", format!("{} entries, {} expected; first difference at entry {at}: got {:?} expected {:?}", new.len(), want.len(), new.get(at), want.get(at)));
                }
            }
        }
    } else if !logged.is_empty() {
        cx.oracle_fail(i, "logged-outside-log-mode", format!("mode {} coll={}: the run added {} entries", mode.tok(), coll.tok(), logged.len()));
    }
}

fn coll_stats(cx: &mut Ctx, coll: &Coll) {
    if coll.poisoned { cx.count("collector:poisoned"); }
    if !coll.init.is_empty() { cx.count("collector:pre-populated"); }
}

fn case_rec_on(cx: &mut Ctx, mode: Mode, short: bool, coll: &Coll, arc: &Arc<Mutex<ErrorCollector>>, exec: Exec, rows: &[Rec]) -> Obs {
    let obs = run_rec(mode, short, coll, arc, exec, rows);
    let toks: Vec<String> = rows.iter().map(enc_rec).collect();
    let req = format!("VALIDATE {} rec {} {} {} {}", mode.tok(), if short { "short" } else { "mode" }, coll.tok(), exec.tok(), join_or_dash(toks.clone()));
    let nt = rows.iter().any(|r| r.errs.is_some()) && rows.iter().any(|r| r.errs.is_none());
    let i = cx.case(req, canon_answer(&obs, coll, exec, false), nt);
    let recs: Vec<&Rec> = rows.iter().collect();
    oracle(cx, i, mode, coll, false, exec, &recs, &toks, &obs);
    stats(cx, mode, false, coll, exec, rows.len(), &obs);
    obs
}

fn case_kv_on(cx: &mut Ctx, mode: Mode, short: bool, coll: &Coll, arc: &Arc<Mutex<ErrorCollector>>, exec: Exec, rows: &[(i64, Rec)]) -> Obs {
    let obs = run_kv(mode, short, coll, arc, exec, rows);
    let toks: Vec<String> = rows.iter().map(enc_kv).collect();
    let req = format!("VALIDATE {} kv {} {} {} {}", mode.tok(), if short { "short" } else { "mode" }, coll.tok(), exec.tok(), join_or_dash(toks.clone()));
    let nt = rows.iter().any(|r| r.1.errs.is_some()) && rows.iter().any(|r| r.1.errs.is_none());
    let i = cx.case(req, canon_answer(&obs, coll, exec, true), nt);
    let recs: Vec<&Rec> = rows.iter().map(|r| &r.1).collect();
    oracle(cx, i, mode, coll, true, exec, &recs, &toks, &obs);
    stats(cx, mode, true, coll, exec, rows.len(), &obs);
    obs
}

/// one run on a collector in state `coll` that nobody else uses
fn case_rec_c(cx: &mut Ctx, mode: Mode, short: bool, coll: &Coll, exec: Exec, rows: &[Rec]) {
    let arc = coll.build();
    case_rec_on(cx, mode, short, coll, &arc, exec, rows);
}
fn case_kv_c(cx: &mut Ctx, mode: Mode, short: bool, coll: &Coll, exec: Exec, rows: &[(i64, Rec)]) {
    let arc = coll.build();
    case_kv_on(cx, mode, short, coll, &arc, exec, rows);
}
fn case_rec(cx: &mut Ctx, mode: Mode, short: bool, coll: bool, exec: Exec, rows: &[Rec]) { case_rec_c(cx, mode, short, &Coll::of(coll), exec, rows); }
fn case_kv(cx: &mut Ctx, mode: Mode, short: bool, coll: bool, exec: Exec, rows: &[(i64, Rec)]) { case_kv_c(cx, mode, short, &Coll::of(coll), exec, rows); }

/// TWO runs that share ONE collector object: a log-mode run over `rows1`, then a `mode2` run over `rows2` with the
/// same `Arc`. Each run is a case of its own; the second one's request states what the first one really left in
/// the collector. The first run is sequential or one partition, so that this content (and with it the second
/// request line) does not depend on scheduling.
fn case_reuse(cx: &mut Ctx, keyed: bool, coll0: &Coll, exec1: Exec, rows1: &[Rec], mode2: Mode, exec2: Exec, rows2: &[Rec]) {
    assert!(matches!(exec1, Exec::Seq | Exec::Par(1) | Exec::CkSeq | Exec::CkPar(1)) && coll0.present);
    let arc = coll0.build();
    let obs1 = if keyed { case_kv_on(cx, Mode::Log, false, coll0, &arc, exec1, &mk_kv(rows1)) } else { case_rec_on(cx, Mode::Log, false, coll0, &arc, exec1, rows1) };
    let coll1 = Coll { present: true, poisoned: coll0.poisoned, init: obs1.log.clone() };
    if keyed { case_kv_on(cx, mode2, false, &coll1, &arc, exec2, &mk_kv(rows2)); } else { case_rec_on(cx, mode2, false, &coll1, &arc, exec2, rows2); }
    cx.count("collector:reused-by-a-second-run");
}

fn stats(cx: &mut Ctx, mode: Mode, keyed: bool, coll: &Coll, exec: Exec, len: usize, obs: &Obs) {
    cx.count(&format!("mode:{}", mode.tok()));
    cx.count(if keyed { "shape:kv" } else { "shape:rec" });
    cx.count(match exec { Exec::Seq => "exec:seq", Exec::ParNone => "exec:par-none", Exec::Par(1) => "exec:par1", Exec::Par(n) if n >= len.max(1) => "exec:par>=len", Exec::Par(_) => "exec:par<len", Exec::CkSeq => "exec:checkpointing-seq", Exec::CkPar(_) => "exec:checkpointing-par" });
    cx.count(match len { 0 => "len:0", 1 => "len:1", 2..=6 => "len:2-6", 7..=30 => "len:7-30", _ => "len:31+" });
    cx.count(if obs.out.is_ok() { "outcome:ok" } else { "outcome:panic" });
    if obs.log.len() > coll.init.len() { cx.count("collector:run-added-entries"); }
    coll_stats(cx, coll);
}

/// every (mode, api, collector) combination the public API offers for one shape
fn variants(keyed: bool) -> Vec<(Mode, bool, bool)> {
    let mut v = vec![];
    for m in MODES {
        v.push((m, false, true));
        v.push((m, false, false));
    }
    v.push((Mode::Skip, true, false));
    if !keyed { v.push((Mode::Ff, true, false)); }
    v
}

fn ent(id: &str, cs: &str) -> Entry { (id.to_string(), cs.to_string()) }

/// the non-fresh collector states of the deterministic blocks: pre-populated with entries whose ids are the
/// very ids a run is going to push (both prefixes, indexes 0 and 1), an id-less entry and an entry with an empty
/// error list; a poisoned mutex; both
fn used_states() -> Vec<Coll> {
    let pre = vec![ent("record_0", "7"), ent("pair_0", "7"), ent("none", ""), ent("record_1", "12"), ent("pair_1", "")];
    vec![
        Coll { present: true, poisoned: false, init: pre.clone() },
        Coll { present: true, poisoned: true, init: vec![] },
        Coll { present: true, poisoned: true, init: pre[..3].to_vec() },
    ]
}

fn random_coll(cx: &mut Ctx) -> Coll {
    let mut c = Coll::fresh();
    match cx.rng.below(6) {
        0 | 1 => {
            let n = 1 + cx.rng.below(4);
            for _ in 0..n {
                let id = match cx.rng.below(5) { 0 => "none".to_string(), 1 | 2 => format!("record_{}", cx.rng.below(4)), _ => format!("pair_{}", cx.rng.below(4)) };
                let cs = random_errs(cx);
                c.init.push((id, digits(&cs)));
            }
        }
        2 => c.poisoned = true,
        3 => { c.poisoned = true; c.init.push(ent("record_0", "5")); c.init.push(ent("pair_0", "5")); }
        _ => {}
    }
    c
}

fn mk_rows(pattern: &[Option<Vec<u8>>]) -> Vec<Rec> {
    pattern.iter().enumerate().map(|(i, e)| Rec { id: i as i64, errs: e.clone() }).collect()
}
fn key_of(id: i64) -> i64 { (id * 7 + 3) % 5 }
fn mk_kv(rows: &[Rec]) -> Vec<(i64, Rec)> { rows.iter().map(|r| (key_of(r.id), r.clone())).collect() }

fn all_execs(upto: usize) -> Vec<Exec> {
    let mut v = vec![Exec::Seq];
    for n in 1..=upto { v.push(Exec::Par(n)); }
    v
}
fn some_execs(len: usize) -> Vec<Exec> {
    let mut ns = vec![1usize, 2, 3, len.saturating_sub(1), len, len + 1, 64];
    ns.retain(|n| *n >= 1);
    ns.sort();
    ns.dedup();
    let mut v = vec![Exec::Seq];
    v.extend(ns.into_iter().map(Exec::Par));
    v
}

// ---------------------------------------------------------------- combine

fn one_combine(cx: &mut Ctx, parts: &[Option<Vec<u8>>]) {
    let input: Vec<ValidationResult> = parts
        .iter()
        .map(|p| match p { None => Ok(()), Some(cs) => Err(cs.iter().map(|c| err_of(*c)).collect()) })
        .collect();
    let r = guarded(move || combine_validations(input));
    let real = match &r {
        Ok(Ok(())) => "OK".to_string(),
        Ok(Err(es)) => { let s: String = es.iter().map(code_of).collect(); format!("ERR {}", if s.is_empty() { "-".into() } else { s }) }
        Err(_) => "PANIC".to_string(),
    };
    let req = format!("COMBINE {}", join_or_dash(parts.iter().map(spec).collect()));
    let nt = parts.iter().any(Option::is_some) && parts.len() >= 2;
    let i = cx.case(req, real.clone(), nt);
    cx.count(if real == "OK" { "combine:ok" } else { "combine:err" });
    // oracle
    let all_ok = parts.iter().all(Option::is_none);
    let want_errs: String = parts.iter().flatten().flat_map(|cs| cs.iter().map(|c| (b'0' + c) as char)).collect();
    match &r {
        Ok(Ok(())) => {
            if !all_ok {
                let sig = if want_errs.is_empty() { "combine-ok-although-a-part-failed-with-empty-error-list" } else { "combine-ok-although-a-part-failed" };
                cx.oracle_fail(i, sig, format!("parts {:?} contain a failed part but combine returned Ok", parts.iter().map(spec).collect::<Vec<_>>()));
            }
        }
        Ok(Err(es)) => {
            let got: String = es.iter().map(code_of).collect();
            if all_ok {
                cx.oracle_fail(i, "combine-err-although-all-parts-ok", format!("got Err({got})"));
            } else if got != want_errs {
                cx.oracle_fail(i, "combine-errors-not-all-in-order", format!("expected {want_errs} got {got}"));
            }
        }
        Err(m) => cx.oracle_fail(i, "combine-panicked", m.clone()),
    }
}

/// round 5, for C03's census ("no validation builder inserts a movable operator"): every 2- and 3-step keyed sequence
/// over {inc, odd, val} that contains a validator, skip and log mode, sequentially and with three partitions — gives
/// C03 a concrete failing input (`VPIPE`) when a validator starts claiming the planner's reorder contract.
pub fn planner_neighbourhood_cases(cx: &mut Ctx) {
    let kv = mk_kv(&mk_rows(&[None, Some(vec![1]), Some(vec![2]), None, Some(vec![4, 6]), None, None, Some(vec![3])]));
    let alphabet = [Step::Inc, Step::Odd, Step::Val];
    let mut layer: Vec<Vec<Step>> = vec![vec![]];
    let mut seqs: Vec<Vec<Step>> = vec![];
    for _ in 0..3 {
        let mut next = vec![];
        for s in &layer { for o in alphabet { let mut t = s.clone(); t.push(o); next.push(t); } }
        seqs.extend(next.iter().filter(|s| s.len() >= 2 && s.contains(&Step::Val)).cloned());
        layer = next;
    }
    for steps in &seqs {
        for m in [Mode::Skip, Mode::Log] {
            for e in [Exec::Seq, Exec::Par(3)] { case_vpipe(cx, m, true, &Coll::fresh(), e, steps, &kv); }
        }
    }
}

// ---------------------------------------------------------------- fused blocks through the planner (VPIPE)

#[derive(Clone, Copy, PartialEq, Eq, Debug)]
enum Step { Inc, Heal, Brk, Odd, Val, Gbk }
impl Step {
    fn tok(self) -> &'static str { match self { Step::Inc => "inc", Step::Heal => "heal", Step::Brk => "brk", Step::Odd => "odd", Step::Val => "val", Step::Gbk => "gbk" } }
}
/// `gbk` on keyed rows: a barrier (`group_by_key`) and the ungrouping `flat_map`
fn gbk_kv(c: PCollection<(i64, Rec)>) -> PCollection<(i64, Rec)> {
    c.group_by_key().flat_map(|g: &(i64, Vec<Rec>)| g.1.iter().map(|r| (g.0, r.clone())).collect())
}
/// `gbk` on unkeyed rows: `key_by(key_of(id))`, the barrier, and the ungrouping `flat_map` back to records
fn gbk_rec(c: PCollection<Rec>) -> PCollection<Rec> {
    c.key_by(|r: &Rec| key_of(r.id)).group_by_key().flat_map(|g: &(i64, Vec<Rec>)| g.1.clone())
}
fn step_inc(r: &Rec) -> Rec { Rec { id: r.id, errs: r.errs.as_ref().map(|cs| cs.iter().map(|c| (c + 1) % 10).collect()) } }
fn step_heal(r: &Rec) -> Rec {
    match &r.errs {
        Some(cs) if cs.iter().all(|c| c % 2 == 0) => Rec { id: r.id, errs: None },
        _ => r.clone(),
    }
}
/// the only step that makes a valid record invalid — so that a SECOND validator of the same block logs too
fn step_brk(r: &Rec) -> Rec {
    match &r.errs {
        None if r.id.rem_euclid(3) == 0 => Rec { id: r.id, errs: Some(vec![r.id.rem_euclid(10) as u8]) },
        _ => r.clone(),
    }
}
fn step_odd(r: &Rec) -> bool { r.id % 2 != 0 }

fn steps_tok(steps: &[Step]) -> String { steps.iter().map(|s| s.tok()).collect::<Vec<_>>().join("+") }

/// `rows` are keyed rows; for the unkeyed shape only the records are used
fn case_vpipe(cx: &mut Ctx, mode: Mode, keyed: bool, coll: &Coll, exec: Exec, steps: &[Step], rows: &[(i64, Rec)]) {
    let collector = coll.build();
    let handle = || if coll.present { Some(Arc::clone(&collector)) } else { None };
    let p = Pipeline::default();
    let (out, toks): (Result<Vec<String>, String>, Vec<String>) = if keyed {
        let mut c = from_vec(&p, rows.to_vec());
        for s in steps {
            c = match s {
                Step::Inc => c.map_values(|r: &Rec| step_inc(r)),
                Step::Heal => c.map_values(|r: &Rec| step_heal(r)),
                Step::Brk => c.map_values(|r: &Rec| step_brk(r)),
                Step::Odd => c.filter_values(|r: &Rec| step_odd(r)),
                Step::Val => c.validate_values_with_mode(mode.real(), handle()),
                Step::Gbk => gbk_kv(c),
            };
        }
        (flatten_run(collect(&p, c, exec), enc_kv), rows.iter().map(enc_kv).collect())
    } else {
        let recs: Vec<Rec> = rows.iter().map(|kv| kv.1.clone()).collect();
        let toks = recs.iter().map(enc_rec).collect();
        let mut c = from_vec(&p, recs);
        for s in steps {
            c = match s {
                Step::Inc => c.map(|r: &Rec| step_inc(r)),
                Step::Heal => c.map(|r: &Rec| step_heal(r)),
                Step::Brk => c.map(|r: &Rec| step_brk(r)),
                Step::Odd => c.filter(|r: &Rec| step_odd(r)),
                Step::Val => c.validate_with_mode(mode.real(), handle()),
                Step::Gbk => gbk_rec(c),
            };
        }
        (flatten_run(collect(&p, c, exec), enc_rec), toks)
    };
    let (log, count) = read_collector(&collector);
    let obs = Obs { out, log, count };
    let req = format!("VPIPE {} {} {} {} {} {}", mode.tok(), if keyed { "kv" } else { "rec" }, coll.tok(), exec.tok(), steps_tok(steps), join_or_dash(toks));
    // the panic index depends on what the earlier steps dropped; compare only the fact for VPIPE
    let barrier = steps.contains(&Step::Gbk);
    let ans = match canon_answer_c(&obs, coll, exec, keyed, if barrier { Canon::HashOrder } else { Canon::Plain }) {
        a if a.starts_with("PANIC") => "PANIC".to_string(),
        a => a,
    };
    let i = cx.case(req, ans, true);
    cx.count(if keyed { "vpipe:kv" } else { "vpipe:rec" });
    if exec.is_ck() { cx.count("vpipe:checkpointing-engine"); }
    if barrier {
        cx.count("vpipe:with-barrier");
        let b = steps.iter().position(|s| *s == Step::Gbk).unwrap();
        if steps[b..].contains(&Step::Val) { cx.count("vpipe:validator-behind-a-barrier"); }
    }
    if steps.iter().filter(|s| **s == Step::Val).count() >= 2 { cx.count("vpipe:two-or-more-validators-share-the-collector"); }
    coll_stats(cx, coll);
    // oracle: the steps as written, record by record (every step is element-wise)
    let mut cur: Vec<(i64, Rec)> = rows.to_vec();
    let mut want_log: Vec<String> = vec![];
    let mut want_fail = false;
    let mut logging_validators = 0;
    for s in steps {
        match s {
            Step::Inc => cur = cur.iter().map(|(k, r)| (*k, step_inc(r))).collect(),
            Step::Heal => cur = cur.iter().map(|(k, r)| (*k, step_heal(r))).collect(),
            Step::Brk => cur = cur.iter().map(|(k, r)| (*k, step_brk(r))).collect(),
            Step::Odd => cur.retain(|(_, r)| step_odd(r)),
            // a barrier regroups the rows; which rows there are does not change
            Step::Gbk => {}
            Step::Val => {
                let before = want_log.len();
                for (_, r) in &cur {
                    if let Some(cs) = &r.errs {
                        if mode == Mode::Log && coll.present { want_log.push(digits(cs)); }
                        if mode == Mode::Ff { want_fail = true; }
                    }
                }
                if want_log.len() > before { logging_validators += 1; }
                cur.retain(|(_, r)| r.errs.is_none());
            }
        }
    }
    if logging_validators >= 2 { cx.count("vpipe:two-or-more-validators-logged"); }
    want_log.sort();
    let new = oracle_collector(cx, i, coll, &obs);
    let mut got_log: Vec<String> = new.iter().map(|x| x.1.clone()).collect();
    got_log.sort();
    match &obs.out {
        Ok(kept) => {
            let mut want: Vec<String> = cur.iter().map(|kv| if keyed { enc_kv(kv) } else { enc_rec(&kv.1) }).collect();
            let mut kept = kept.clone();
            // behind a barrier the order is the hasher's: compare as multisets
            if barrier { want.sort(); kept.sort(); }
            let kept = &kept;
            if want_fail {
                cx.oracle_fail(i, "vpipe-failfast-passed-with-invalid-record", format!("returned {} rows", kept.len()));
            } else if *kept != want {
                cx.oracle_fail(i, "vpipe-output-differs-from-steps-as-written", format!("expected {want:?} got {kept:?}"));
            } else if got_log != want_log {
                cx.oracle_fail(i, "vpipe-collector-differs-from-steps-as-written", format!("expected {want_log:?} got {got_log:?}"));
            }
        }
        Err(m) => {
            if !want_fail {
                let sig = if coll.poisoned && m.contains("PoisonError") { "skip-or-log-run-failed-on-poisoned-collector" } else { "vpipe-run-failed" };
                cx.oracle_fail(i, sig, m.clone());
            }
        }
    }
}

// ---------------------------------------------------------------- a join whose sides validate (VJOIN)

fn apply_kv_step(c: PCollection<(i64, Rec)>, s: Step, mode: Mode, handle: &dyn Fn() -> Option<Arc<Mutex<ErrorCollector>>>) -> PCollection<(i64, Rec)> {
    match s {
        Step::Inc => c.map_values(|r: &Rec| step_inc(r)),
        Step::Heal => c.map_values(|r: &Rec| step_heal(r)),
        Step::Brk => c.map_values(|r: &Rec| step_brk(r)),
        Step::Odd => c.filter_values(|r: &Rec| step_odd(r)),
        Step::Val => c.validate_values_with_mode(mode.real(), handle()),
        Step::Gbk => gbk_kv(c),
    }
}

/// the steps of one side as written, record by record: (rows that reach the join, error lists logged, fail-fast fails)
fn side_as_written(steps: &[Step], rows: &[(i64, Rec)], mode: Mode, logging: bool) -> (Vec<(i64, Rec)>, Vec<String>, bool) {
    let mut cur = rows.to_vec();
    let mut log = vec![];
    let mut fail = false;
    for s in steps {
        match s {
            Step::Inc => cur = cur.iter().map(|(k, r)| (*k, step_inc(r))).collect(),
            Step::Heal => cur = cur.iter().map(|(k, r)| (*k, step_heal(r))).collect(),
            Step::Brk => cur = cur.iter().map(|(k, r)| (*k, step_brk(r))).collect(),
            Step::Odd => cur.retain(|(_, r)| step_odd(r)),
            Step::Gbk => {}
            Step::Val => {
                for (_, r) in &cur {
                    if let Some(cs) = &r.errs {
                        if logging { log.push(digits(cs)); }
                        if mode == Mode::Ff { fail = true; }
                    }
                }
                cur.retain(|(_, r)| r.errs.is_none());
            }
        }
    }
    (cur, log, fail)
}

fn enc_joined(row: &(i64, (Rec, Rec))) -> String { format!("{}={}&{}", row.0, enc_rec(&row.1.0), enc_rec(&row.1.1)) }
fn side_tok(steps: &[Step]) -> String { if steps.is_empty() { "-".into() } else { steps_tok(steps) } }

/// `left.steps.join_inner(right.steps)`; every validator of both sides shares the one collector
fn case_vjoin(cx: &mut Ctx, mode: Mode, coll: &Coll, exec: Exec, lsteps: &[Step], lrows: &[(i64, Rec)], rsteps: &[Step], rrows: &[(i64, Rec)]) {
    assert!(exec != Exec::ParNone && !lsteps.contains(&Step::Gbk) && !rsteps.contains(&Step::Gbk));
    let collector = coll.build();
    let handle = || if coll.present { Some(Arc::clone(&collector)) } else { None };
    let p = Pipeline::default();
    let mut l = from_vec(&p, lrows.to_vec());
    for s in lsteps { l = apply_kv_step(l, *s, mode, &handle); }
    let mut r = from_vec(&p, rrows.to_vec());
    for s in rsteps { r = apply_kv_step(r, *s, mode, &handle); }
    let j = l.join_inner(&r);
    let out = flatten_run(collect(&p, j, exec), enc_joined);
    let (log, count) = read_collector(&collector);
    let obs = Obs { out, log, count };
    let req = format!(
        "VJOIN {} {} {} {} {} {} {}",
        mode.tok(), coll.tok(), exec.tok(), side_tok(lsteps), join_or_dash(lrows.iter().map(enc_kv).collect()), side_tok(rsteps), join_or_dash(rrows.iter().map(enc_kv).collect())
    );
    let ans = match canon_answer_c(&obs, coll, exec, true, Canon::KeptSorted) {
        a if a.starts_with("PANIC") => "PANIC".to_string(),
        a => a,
    };
    let i = cx.case(req, ans, true);
    cx.count("vjoin");
    if exec.is_ck() { cx.count("vjoin:checkpointing-engine"); }
    coll_stats(cx, coll);
    // oracle: each side as written, then every pair of a left and a right row with equal keys
    let logging = mode == Mode::Log && coll.present;
    let (lcur, mut want_log, lfail) = side_as_written(lsteps, lrows, mode, logging);
    let (rcur, rlog, rfail) = side_as_written(rsteps, rrows, mode, logging);
    if !want_log.is_empty() && !rlog.is_empty() { cx.count("vjoin:both-sides-logged"); }
    want_log.extend(rlog);
    want_log.sort();
    let want_fail = lfail || rfail;
    let mut want: Vec<String> = vec![];
    for (k, a) in &lcur { for (k2, b) in &rcur { if k == k2 { want.push(enc_joined(&(*k, (a.clone(), b.clone())))); } } }
    want.sort();
    if !want.is_empty() { cx.count("vjoin:non-empty-result"); }
    let new = oracle_collector(cx, i, coll, &obs);
    let mut got_log: Vec<String> = new.iter().map(|x| x.1.clone()).collect();
    got_log.sort();
    match &obs.out {
        Ok(kept) => {
            let mut kept = kept.clone();
            kept.sort();
            if want_fail {
                cx.oracle_fail(i, "vjoin-failfast-passed-with-invalid-record", format!("returned {} rows", kept.len()));
            } else if kept != want {
                cx.oracle_fail(i, "vjoin-output-not-the-join-of-the-valid-records", format!("expected {want:?} got {kept:?}"));
            } else if got_log != want_log {
                cx.oracle_fail(i, "vjoin-collector-not-the-invalid-records-of-both-sides", format!("expected {want_log:?} got {got_log:?}"));
            }
        }
        Err(m) => {
            if !want_fail {
                let sig = if coll.poisoned && m.contains("PoisonError") { "skip-or-log-run-failed-on-poisoned-collector" } else { "vjoin-run-failed" };
                cx.oracle_fail(i, sig, m.clone());
            }
        }
    }
}

// ---------------------------------------------------------------- one large input (BIG)

const HASH_MOD: u64 = 1_000_000_007;
fn str_hash(s: &str) -> u64 { s.chars().fold(7u64, |h, c| (h * 131 + c as u64) % HASH_MOD) }
fn seq_hash<'a>(l: impl Iterator<Item = &'a String>) -> u64 { l.fold(1u64, |h, s| (h * 1_000_003 + str_hash(s)) % HASH_MOD) }
fn sum_hash<'a>(l: impl Iterator<Item = &'a String>) -> u64 { l.fold(0u64, |h, s| (h + str_hash(s)) % HASH_MOD) }

/// row `i` of a BIG input: pattern `v`: valid iff `i % period == period - 1`; pattern `i` (`inv`): INVALID iff
/// `i % period == period - 1`; an invalid row has four errors spelling `i` backwards
fn big_rec(period: usize, inv: bool, i: usize) -> Rec {
    Rec { id: i as i64, errs: if (i % period == period - 1) != inv { None } else { Some(vec![(i % 10) as u8, (i / 10 % 10) as u8, (i / 100 % 10) as u8, (i / 1000 % 10) as u8]) } }
}

/// `len` formula-generated rows (`len - len / period` of them invalid, each with its own payload) through one
/// validator. The request names the formula, the compared answer is counts + checksums (the model regenerates the
/// rows); the property's statement is evaluated in full on the real result.
fn case_big(cx: &mut Ctx, mode: Mode, keyed: bool, coll: &Coll, exec: Exec, len: usize, period: usize, inv: bool) {
    assert!(exec != Exec::ParNone && period >= 1);
    let recs: Vec<Rec> = (0..len).map(|i| big_rec(period, inv, i)).collect();
    let arc = coll.build();
    let (obs, toks): (Obs, Vec<String>) = if keyed {
        let kv = mk_kv(&recs);
        (run_kv(mode, false, coll, &arc, exec, &kv), kv.iter().map(enc_kv).collect())
    } else {
        (run_rec(mode, false, coll, &arc, exec, &recs), recs.iter().map(enc_rec).collect())
    };
    let req = format!("BIG {} {} {} {} {len} {period} {}", mode.tok(), if keyed { "kv" } else { "rec" }, coll.tok(), exec.tok(), if inv { "i" } else { "v" });
    let k = coll.init.len().min(obs.log.len());
    let ans = match &obs.out {
        Ok(kept) => {
            let rest: Vec<String> = obs.log[k..].iter().map(enc_entry).collect();
            format!(
                "OK kept={} khash={} pre={} log={} lsum={} lseq={}",
                kept.len(), seq_hash(kept.iter()), join_or_dash(obs.log[..k].iter().map(enc_entry).collect()), rest.len(), sum_hash(rest.iter()),
                if exec.is_seq() { seq_hash(rest.iter()) } else { 0 }
            )
        }
        Err(_) => canon_answer(&obs, coll, exec, keyed),
    };
    let i = cx.case(req, ans, true);
    cx.count("big-runs");
    if exec.is_ck() { cx.count("big:checkpointing-engine"); }
    if let Some(n) = exec.parts() { if n >= len { cx.count("big:one-record-per-partition"); } }
    let refs: Vec<&Rec> = recs.iter().collect();
    oracle(cx, i, mode, coll, keyed, exec, &refs, &toks, &obs);
}

// ---------------------------------------------------------------- generators

fn all_patterns(len: usize, alphabet: &[Option<Vec<u8>>]) -> Vec<Vec<Option<Vec<u8>>>> {
    let mut out: Vec<Vec<Option<Vec<u8>>>> = vec![vec![]];
    for _ in 0..len {
        let mut next = vec![];
        for p in &out {
            for a in alphabet {
                let mut q = p.clone();
                q.push(a.clone());
                next.push(q);
            }
        }
        out = next;
    }
    out
}

/// errors of the invalid record at position i in the exhaustive block: distinct payloads per position,
/// including the empty list and a two-element list
fn pos_errs(i: usize) -> Vec<u8> {
    match i % 4 {
        0 => vec![i as u8 % 10],
        1 => vec![(i as u8 + 3) % 10, i as u8 % 10],
        2 => vec![],
        _ => vec![9, (i as u8) % 10, 0],
    }
}
fn bits_pattern(len: usize, bits: u32) -> Vec<Option<Vec<u8>>> {
    (0..len).map(|i| if bits >> i & 1 == 1 { Some(pos_errs(i)) } else { None }).collect()
}

fn random_errs(cx: &mut Ctx) -> Vec<u8> {
    let n = match cx.rng.below(10) { 0 => 0, 1..=5 => 1, 6..=8 => 2, _ => 4 };
    (0..n).map(|_| cx.rng.below(10) as u8).collect()
}

fn random_pattern(cx: &mut Ctx, len: usize) -> Vec<Option<Vec<u8>>> {
    let kind = cx.rng.below(9);
    let mut v: Vec<Option<Vec<u8>>> = vec![None; len];
    let name = match kind {
        0 => "pattern:none-invalid",
        1 => { for x in v.iter_mut() { *x = Some(random_errs(cx)); } "pattern:all-invalid" }
        2 => { if len > 0 { v[0] = Some(random_errs(cx)); } "pattern:first" }
        3 => { if len > 0 { v[len - 1] = Some(random_errs(cx)); } "pattern:last" }
        4 => {
            // a run of invalid records straddling a chunk boundary of some partition count
            if len >= 2 {
                let n = 2 + cx.rng.below(len.min(8));
                let chunk = len.div_ceil(n);
                let b = chunk * (1 + cx.rng.below((len / chunk).max(1)));
                let lo = b.saturating_sub(1 + cx.rng.below(3));
                let hi = (b + 1 + cx.rng.below(3)).min(len);
                for i in lo..hi { v[i] = Some(random_errs(cx)); }
            }
            "pattern:run-across-boundary"
        }
        5 => { for i in 0..len { if i % 2 == 0 { v[i] = Some(random_errs(cx)); } } "pattern:alternating" }
        6 => { for x in v.iter_mut() { if cx.rng.chance(1, 10) { *x = Some(random_errs(cx)); } } "pattern:sparse" }
        7 => { for x in v.iter_mut() { if cx.rng.chance(9, 10) { *x = Some(random_errs(cx)); } } "pattern:dense" }
        _ => { for x in v.iter_mut() { if cx.rng.chance(1, 2) { *x = Some(random_errs(cx)); } } "pattern:half" }
    };
    cx.count(name);
    v
}

/// every (mode, api, shape, collector state) combination of the exhaustive blocks for one input and one engine;
/// `few`: also the collector-less / convenience forms and skip / fail-fast on the used collector states (they add
/// nothing per partition count)
fn exhaustive_one(cx: &mut Ctx, used: &[Coll], rows: &[Rec], kv: &[(i64, Rec)], e: Exec, few: bool) {
    for (m, short, coll) in variants(false) {
        if (short || !coll) && !few { continue; }
        case_rec(cx, m, short, coll, e, rows);
    }
    for (m, short, coll) in variants(true) {
        if (short || !coll) && !few { continue; }
        case_kv(cx, m, short, coll, e, kv);
    }
    // collector-state dimension: a used (pre-populated / poisoned / both) collector
    for st in used {
        for m in MODES {
            if m != Mode::Log && !few { continue; }
            case_rec_c(cx, m, false, st, e, rows);
            case_kv_c(cx, m, false, st, e, kv);
        }
    }
}

pub fn run(cx: &mut Ctx) {
    let used = used_states();
    // ---- (1) corpus: design witnesses / minimised past failures
    one_combine(cx, &[Some(vec![])]);                       // Err(vec![]) is a failed part
    one_combine(cx, &[None, Some(vec![]), None]);
    one_combine(cx, &[Some(vec![1]), None, Some(vec![2, 3])]);
    {
        // invalid record with an empty error list must still be dropped / logged / fail the run
        let rows = mk_rows(&[None, Some(vec![]), None]);
        for (m, short, coll) in variants(false) {
            for e in [Exec::Seq, Exec::Par(2), Exec::Par(3)] { case_rec(cx, m, short, coll, e, &rows); }
        }
        // two invalid records that have the same partition-local index in a 2-partition run
        let rows = mk_rows(&[None, Some(vec![1]), None, Some(vec![2])]);
        for e in [Exec::Seq, Exec::Par(2), Exec::Par(4)] {
            case_rec(cx, Mode::Log, false, true, e, &rows);
            case_kv(cx, Mode::Log, false, true, e, &mk_kv(&rows));
        }
        // a poisoned collector (user code panicked while holding the guard): log mode must still complete and log
        for e in [Exec::Seq, Exec::Par(2)] {
            case_rec_c(cx, Mode::Log, false, &used[1], e, &rows);
            case_kv_c(cx, Mode::Log, false, &used[1], e, &mk_kv(&rows));
        }
        // a collector that already holds `record_1`: the run's own `record_1` entries are further entries
        // (ids are partition-local and not unique; seeded mutant C17-1 merged entries with equal ids)
        let pre = Coll { present: true, poisoned: false, init: vec![ent("record_1", "9"), ent("pair_1", "9")] };
        for e in [Exec::Seq, Exec::Par(2)] {
            case_rec_c(cx, Mode::Log, false, &pre, e, &rows);
            case_kv_c(cx, Mode::Log, false, &pre, e, &mk_kv(&rows));
        }
        // the same collector used by two runs
        for keyed in [false, true] {
            case_reuse(cx, keyed, &Coll::fresh(), Exec::Seq, &rows, Mode::Log, Exec::Par(2), &rows);
        }
        // `collect_par(_, None)`: the partition count is the planner's suggestion (machine-dependent)
        {
            let big = mk_rows(&(0..40).map(|i| if i % 3 == 1 { Some(pos_errs(i)) } else { None }).collect::<Vec<_>>());
            for (m, short, coll) in variants(false) { case_rec(cx, m, short, coll, Exec::ParNone, &big); }
            for (m, short, coll) in variants(true) { case_kv(cx, m, short, coll, Exec::ParNone, &mk_kv(&big)); }
            case_rec_c(cx, Mode::Log, false, &used[0], Exec::ParNone, &rows);
            case_rec(cx, Mode::Ff, false, true, Exec::ParNone, &mk_rows(&[None, None, None]));
            case_rec(cx, Mode::Log, false, true, Exec::ParNone, &[]);
        }
        // validator between a map and a filter on values: must stay where it was written
        let kv = mk_kv(&mk_rows(&[Some(vec![2]), Some(vec![1]), None, Some(vec![4, 5]), Some(vec![3])]));
        for m in MODES {
            for e in [Exec::Seq, Exec::Par(2)] {
                for keyed in [true, false] {
                    case_vpipe(cx, m, keyed, &Coll::fresh(), e, &[Step::Inc, Step::Val, Step::Odd], &kv);
                    case_vpipe(cx, m, keyed, &Coll::fresh(), e, &[Step::Heal, Step::Val, Step::Odd], &kv);
                    case_vpipe(cx, m, keyed, &Coll::fresh(), e, &[Step::Odd, Step::Val, Step::Heal], &kv);
                }
            }
        }
        // two validators of one block share the collector and both log: in every partition the second one starts
        // again at index 0
        let kv = mk_kv(&mk_rows(&[None, Some(vec![1]), None, None, Some(vec![4, 6]), None, None]));
        for keyed in [true, false] {
            for e in [Exec::Seq, Exec::Par(2), Exec::ParNone] {
                case_vpipe(cx, Mode::Log, keyed, &Coll::fresh(), e, &[Step::Val, Step::Brk, Step::Val], &kv);
                case_vpipe(cx, Mode::Log, keyed, &used[0], e, &[Step::Val, Step::Brk, Step::Val], &kv);
            }
        }
    }

    {
        // a validator applied twice by the engine would log twice (result-neutral: re-validating kept rows changes
        // nothing) — the checkpointing engines, sequential and parallel, on the design-witness inputs
        let rows = mk_rows(&[None, Some(vec![1]), None, Some(vec![2])]);
        for e in [Exec::CkSeq, Exec::CkPar(1), Exec::CkPar(2), Exec::CkPar(4)] {
            for (m, short, coll) in variants(false) { case_rec(cx, m, short, coll, e, &rows); }
            for (m, short, coll) in variants(true) { case_kv(cx, m, short, coll, e, &mk_kv(&rows)); }
            case_rec_c(cx, Mode::Log, false, &used[2], e, &rows);
        }
        for keyed in [false, true] {
            case_reuse(cx, keyed, &Coll::fresh(), Exec::CkSeq, &rows, Mode::Log, Exec::CkPar(2), &rows);
        }
        // a validator behind a barrier, and validators on both sides of it
        let kv = mk_kv(&mk_rows(&[None, Some(vec![1]), None, None, Some(vec![4, 6]), None, None]));
        for keyed in [true, false] {
            for m in MODES {
                for e in [Exec::Seq, Exec::Par(3), Exec::CkSeq, Exec::CkPar(3)] {
                    case_vpipe(cx, m, keyed, &Coll::fresh(), e, &[Step::Gbk, Step::Val], &kv);
                    case_vpipe(cx, m, keyed, &Coll::fresh(), e, &[Step::Val, Step::Brk, Step::Gbk, Step::Val, Step::Odd], &kv);
                }
            }
        }
        // a join whose sides validate (left: 2 invalid of 5, right: 1 invalid of 4; keys overlap)
        let l: Vec<(i64, Rec)> = vec![(1, Rec { id: 0, errs: None }), (2, Rec { id: 1, errs: Some(vec![1]) }), (1, Rec { id: 2, errs: None }), (3, Rec { id: 3, errs: Some(vec![2, 3]) }), (2, Rec { id: 4, errs: None })];
        let r: Vec<(i64, Rec)> = vec![(2, Rec { id: 10, errs: None }), (1, Rec { id: 11, errs: Some(vec![]) }), (1, Rec { id: 12, errs: None }), (4, Rec { id: 13, errs: None })];
        for m in MODES {
            for e in [Exec::Seq, Exec::Par(2), Exec::Par(64), Exec::CkSeq, Exec::CkPar(2)] {
                case_vjoin(cx, m, &Coll::fresh(), e, &[Step::Val], &l, &[Step::Val], &r);
                case_vjoin(cx, m, &used[0], e, &[Step::Val], &l, &[], &r);
            }
        }
    }

    // ---- (2) exhaustive small scope
    // sizes of exhaustive blocks are fixed per tier (the search tier only enlarges the random block)
    let maxlen = if cx.tier == Tier::Thorough { 7 } else { 6 };
    let mut npat = 0usize;
    for len in 0..=maxlen {
        // validity patterns: bit i set = record i invalid, with position-dependent payload
        for bits in 0u32..(1 << len) {
            let rows = mk_rows(&bits_pattern(len, bits));
            let kv = mk_kv(&rows);
            npat += 1;
            for e in all_execs(maxlen + 1) {
                let few = matches!(e, Exec::Seq | Exec::Par(2) | Exec::Par(3));
                exhaustive_one(cx, &used, &rows, &kv, e, few);
            }
        }
    }
    cx.exhaustive_blocks.push(format!(
        "VALIDATE: all {npat} valid/invalid patterns of 0..={maxlen} records (invalid payloads: 1, 2, 0 and 3 errors by position) x (sequential + partitions 1..={}) x 3 modes with collector x keyed/unkeyed; collector-less and convenience builders at seq, 2 and 3 partitions; collector states: fresh, pre-populated with 5 entries (ids record_0/1, pair_0/1, none), poisoned, poisoned + pre-populated (log mode at every partition count, skip/fail-fast at seq, 2, 3)",
        maxlen + 1
    ));
    // the same block through `Runner {{ checkpoint_config: Some(enabled) }}`: `exec_seq_with_checkpointing` is a second
    // copy of the node loop, `exec_par_with_checkpointing` wraps `exec_par`; same requests, same oracles
    {
        let cklen = if cx.tier == Tier::Thorough { 7 } else { 5 };
        let mut nck = 0usize;
        for len in 0..=cklen {
            for bits in 0u32..(1 << len) {
                let rows = mk_rows(&bits_pattern(len, bits));
                let kv = mk_kv(&rows);
                nck += 1;
                for e in all_execs(cklen + 1) {
                    let few = matches!(e, Exec::Seq | Exec::Par(2) | Exec::Par(3));
                    // quick tier: every partition count for the sequential engine's second node loop and for 1..=3
                    // partitions of the wrapper; all of them in the thorough tier
                    if cx.tier != Tier::Thorough && !(few || e == Exec::Par(1) || e == Exec::Par(cklen + 1)) { continue; }
                    exhaustive_one(cx, &used, &rows, &kv, e.ck(), few);
                }
            }
        }
        cx.exhaustive_blocks.push(format!(
            "VALIDATE with checkpointing ENABLED (Runner {{ checkpoint_config }}; policies AfterEveryBarrier / EveryNNodes(1) / Hybrid(0 s), auto_recover on/off, retention 2/None in rotation; one scratch directory, so files left by failed fail-fast runs are met by later recoveries): all {nck} patterns of 0..={cklen} records x (exec_seq_with_checkpointing + exec_par_with_checkpointing at {}) x the same mode / shape / collector-state dimensions and the same oracles as the block above",
            if cx.tier == Tier::Thorough { format!("partitions 1..={}", cklen + 1) } else { format!("partitions 1, 2, 3, {}", cklen + 1) }
        ));
    }
    // one collector, two runs: every pattern of 0..=rl records as the SECOND run
    {
        let rl = if cx.tier == Tier::Thorough { 5 } else { 4 };
        let firsts = [mk_rows(&[None, Some(vec![1]), None, Some(vec![2, 3])]), mk_rows(&[Some(vec![5])])];
        let mut n2 = 0usize;
        for len in 0..=rl {
            for bits in 0u32..(1 << len) {
                let rows2 = mk_rows(&bits_pattern(len, bits));
                n2 += 1;
                for (fi, rows1) in firsts.iter().enumerate() {
                    let exec1 = if fi == 0 { Exec::Seq } else { Exec::Par(1) };
                    let c0 = if fi == 0 { Coll::fresh() } else { used[2].clone() };
                    for e2 in all_execs(rl + 1) {
                        for keyed in [false, true] {
                            case_reuse(cx, keyed, &c0, exec1, rows1, Mode::Log, e2, &rows2);
                            if matches!(e2, Exec::Seq | Exec::Par(2)) {
                                case_reuse(cx, keyed, &c0, exec1, rows1, Mode::Skip, e2, &rows2);
                                case_reuse(cx, keyed, &c0, exec1, rows1, Mode::Ff, e2, &rows2);
                            }
                        }
                    }
                }
            }
        }
        cx.exhaustive_blocks.push(format!(
            "VALIDATE (one collector, two runs): a first log-mode run (4 records sequentially on a fresh collector / 1 record on a poisoned pre-populated one) followed, on the SAME Arc, by all {n2} patterns of 0..={rl} records x (sequential + partitions 1..={}) in log mode, and skip / fail-fast at seq and 2 partitions; keyed/unkeyed",
            rl + 1
        ));
    }
    let alpha: Vec<Option<Vec<u8>>> = vec![None, Some(vec![]), Some(vec![1]), Some(vec![2, 3])];
    let cl = if cx.tier == Tier::Thorough { 5 } else { 4 };
    let mut ncomb = 0usize;
    for len in 0..=cl {
        for p in all_patterns(len, &alpha) { one_combine(cx, &p); ncomb += 1; }
    }
    cx.exhaustive_blocks.push(format!("COMBINE: all {ncomb} lists of 0..={cl} results over {{Ok, Err[], Err[1], Err[2,3]}}"));
    // fused blocks: every sequence of 1..=4 steps that contains a validator, on a fixed 8-row input
    {
        let kv = mk_kv(&mk_rows(&[None, Some(vec![1]), Some(vec![2]), None, Some(vec![4, 6]), None, None, Some(vec![3])]));
        let alphabet = [Step::Inc, Step::Heal, Step::Brk, Step::Odd, Step::Val];
        let mut seqs: Vec<Vec<Step>> = vec![];
        let mut layer: Vec<Vec<Step>> = vec![vec![]];
        for _ in 0..4 {
            let mut next = vec![];
            for s in &layer { for o in alphabet { let mut t = s.clone(); t.push(o); next.push(t); } }
            seqs.extend(next.iter().filter(|s| s.contains(&Step::Val)).cloned());
            layer = next;
        }
        let nseq = seqs.len();
        for steps in &seqs {
            for keyed in [true, false] {
                for m in MODES {
                    for e in [Exec::Seq, Exec::Par(3)] {
                        case_vpipe(cx, m, keyed, &Coll::fresh(), e, steps, &kv);
                        if m == Mode::Log {
                            case_vpipe(cx, m, keyed, &used[0], e, steps, &kv);
                            case_vpipe(cx, m, keyed, &used[2], e, steps, &kv);
                        }
                    }
                }
            }
        }
        cx.exhaustive_blocks.push(format!("VPIPE: all {nseq} sequences of 1..=4 steps over {{inc, heal, brk, odd, val}} with at least one validator (all validators of a sequence share one collector) x keyed (map_values/filter_values/validate_values) and unkeyed (map/filter/validate) x 3 modes x seq/3 partitions, through the real planner; log mode also on a pre-populated and on a poisoned pre-populated collector"));
    }

    // ---- (2a) fused blocks with a barrier: every sequence of 2..=4 tokens with a `gbk` and a validator
    {
        let kv = mk_kv(&mk_rows(&[None, Some(vec![1]), Some(vec![2]), None, Some(vec![4, 6]), None, None, Some(vec![3])]));
        let alphabet = [Step::Inc, Step::Heal, Step::Brk, Step::Odd, Step::Val, Step::Gbk];
        let mut seqs: Vec<Vec<Step>> = vec![];
        let mut layer: Vec<Vec<Step>> = vec![vec![]];
        for _ in 0..4 {
            let mut next = vec![];
            for s in &layer { for o in alphabet { let mut t = s.clone(); t.push(o); next.push(t); } }
            seqs.extend(next.iter().filter(|s| s.contains(&Step::Val) && s.contains(&Step::Gbk)).cloned());
            layer = next;
        }
        let nseq = seqs.len();
        let thorough = cx.tier == Tier::Thorough;
        for (si, steps) in seqs.iter().enumerate() {
            for keyed in [true, false] {
                for m in MODES {
                    // quick tier: the shapes alternate over the sequences for skip / fail-fast; log mode gets both
                    if !thorough && m != Mode::Log && (si % 2 == 0) != keyed { continue; }
                    for e in [Exec::Seq, Exec::Par(3)] {
                        case_vpipe(cx, m, keyed, &Coll::fresh(), e, steps, &kv);
                    }
                    if m == Mode::Log {
                        let e = if si % 2 == 0 { Exec::CkSeq } else { Exec::CkPar(3) };
                        case_vpipe(cx, m, keyed, &used[0], e, steps, &kv);
                        if thorough {
                            case_vpipe(cx, m, keyed, &used[2], e.ck(), steps, &kv);
                            case_vpipe(cx, m, keyed, &used[0], if si % 2 == 0 { Exec::CkPar(3) } else { Exec::CkSeq }, steps, &kv);
                        }
                    }
                }
            }
        }
        cx.exhaustive_blocks.push(format!("VPIPE with barriers: all {nseq} sequences of 2..=4 tokens over {{inc, heal, brk, odd, val, gbk}} with at least one validator and one `gbk` (group_by_key + ungrouping flat_map; unkeyed: key_by in front) x keyed/unkeyed x 3 modes x seq/3 partitions (quick tier: skip / fail-fast on one shape per sequence), log mode also on a pre-populated collector through a checkpointing engine; rows and logged error lists compared as multisets (hasher order)"));
    }
    // ---- (2a') joins whose sides validate
    {
        let l = mk_kv(&mk_rows(&[None, Some(vec![1]), Some(vec![2]), None, Some(vec![4, 6]), None, None]));
        let r: Vec<(i64, Rec)> = mk_kv(&mk_rows(&[Some(vec![]), None, None, Some(vec![7]), None])).into_iter().map(|(k, rec)| (k, Rec { id: rec.id + 20, errs: rec.errs })).collect();
        let sides: Vec<Vec<Step>> = vec![vec![], vec![Step::Val], vec![Step::Inc, Step::Val], vec![Step::Heal, Step::Val, Step::Odd], vec![Step::Val, Step::Brk, Step::Val], vec![Step::Brk, Step::Val]];
        let execs: Vec<Exec> = if cx.tier == Tier::Thorough { vec![Exec::Seq, Exec::Par(1), Exec::Par(2), Exec::Par(3), Exec::Par(7), Exec::CkSeq, Exec::CkPar(2), Exec::CkPar(3)] } else { vec![Exec::Seq, Exec::Par(3), Exec::CkSeq, Exec::CkPar(2)] };
        let mut nj = 0usize;
        for ls in &sides {
            for rs in &sides {
                if !ls.contains(&Step::Val) && !rs.contains(&Step::Val) { continue; }
                nj += 1;
                for m in MODES {
                    for e in &execs {
                        case_vjoin(cx, m, &Coll::fresh(), *e, ls, &l, rs, &r);
                        if m == Mode::Log && matches!(e, Exec::Seq | Exec::CkPar(2)) { case_vjoin(cx, m, &used[2], *e, ls, &l, rs, &r); }
                    }
                }
            }
        }
        cx.exhaustive_blocks.push(format!("VJOIN: join_inner of a 7-row and a 5-row keyed collection (keys 0..5 on both sides), each side one of 6 step lists ({nj} pairs with a validator on at least one side; both sides share mode and collector) x 3 modes x {} engines incl. the checkpointing ones; joined rows compared as a multiset, logged error lists as a multiset", execs.len()));
    }
    // ---- (2a'') one large input per engine: entry caps, chunk-local ids, long partitions
    {
        let (len, period) = (5000usize, 5usize);
        for keyed in [false, true] {
            for e in [Exec::Seq, Exec::Par(1), Exec::Par(3), Exec::Par(64), Exec::Par(5000), Exec::CkSeq, Exec::CkPar(3)] {
                case_big(cx, Mode::Log, keyed, &Coll::fresh(), e, len, period, false);
            }
            case_big(cx, Mode::Log, keyed, &used[2], Exec::Par(64), len, period, false);
            case_big(cx, Mode::Skip, keyed, &Coll::fresh(), Exec::Par(3), len, period, false);
            case_big(cx, Mode::Ff, keyed, &Coll::fresh(), Exec::Seq, len, period, false);
            case_big(cx, Mode::Ff, keyed, &Coll::none(), Exec::Par(64), len, 1, false);   // all 5000 valid
            // only the LAST record is invalid: fail-fast must still fail, skip drops it, log names it
            for e in [Exec::Seq, Exec::Par(3), Exec::CkSeq] {
                for m in MODES { case_big(cx, m, keyed, &Coll::fresh(), e, len, len, true); }
            }
        }
        if cx.tier == Tier::Thorough {
            for keyed in [false, true] {
                for e in [Exec::Seq, Exec::Par(7), Exec::Par(1000), Exec::CkPar(64)] {
                    case_big(cx, Mode::Log, keyed, &Coll::fresh(), e, 20_000, 3, false);
                    case_big(cx, Mode::Log, keyed, &Coll::fresh(), e, 4097, 5000, false);   // every row invalid
                    for m in MODES { case_big(cx, m, keyed, &Coll::fresh(), e, 20_000, 4099, true); }   // 4 invalid rows, far apart
                }
            }
        }
        cx.exhaustive_blocks.push("BIG: 5 000 formula-generated rows, 4 000 of them invalid with pairwise different payloads, log mode, keyed/unkeyed x sequential / 1 / 3 / 64 / 5 000 partitions / both checkpointing engines (plus skip, fail-fast, an all-valid fail-fast run, a poisoned pre-populated collector, and 5 000 rows of which only the last is invalid in all three modes); full oracle on the real result, counts + checksums (ids included) compared with the model".to_string());
    }

    // ---- (2b) contention block: many partitions pushing into the one collector at the same time
    {
        let len = 400usize;
        let pat: Vec<Option<Vec<u8>>> = (0..len).map(|i| if i % 10 == 9 { None } else { Some(vec![(i % 10) as u8, (i / 10 % 10) as u8, (i / 100) as u8]) }).collect();
        let rows = mk_rows(&pat);
        let kv = mk_kv(&rows);
        let reps = cx.budget(4, 25);
        for rep in 0..reps {
            JITTER.store(if rep % 2 == 0 { 0 } else { 40 }, Ordering::Relaxed);
            for n in [8usize, 64, 400] {
                let st = if rep % 4 < 2 { Coll::fresh() } else { used[2].clone() };
                case_rec_c(cx, Mode::Log, false, &st, Exec::Par(n), &rows);
                case_kv_c(cx, Mode::Log, false, &st, Exec::Par(n), &kv);
                cx.count("contention-runs");
            }
            case_rec(cx, Mode::Log, false, true, Exec::ParNone, &rows);
        }
        JITTER.store(0, Ordering::Relaxed);
    }

    // ---- (3) random block
    let rounds = cx.budget(300, 3000);
    for round in 0..rounds {
        JITTER.store(if round % 2 == 0 { 0 } else { 1 + cx.rng.below(60) as u32 }, Ordering::Relaxed);
        let len = match cx.rng.below(10) { 0 => cx.rng.below(3), 1..=5 => 2 + cx.rng.below(14), _ => 10 + cx.rng.below(91) };
        let pat = random_pattern(cx, len);
        let mut rows = mk_rows(&pat);
        // ids need not be positions
        if cx.rng.chance(1, 3) { for r in rows.iter_mut() { r.id = cx.rng.range(-50, 50); } }
        let keyed = cx.rng.chance(1, 2);
        let kv: Vec<(i64, Rec)> = rows.iter().map(|r| (cx.rng.range(0, 4), r.clone())).collect();
        let vs = variants(keyed);
        let st = random_coll(cx);
        for e in some_execs(len) {
            // one run in four goes through the checkpointing engine of its mode
            let e = if cx.rng.chance(1, 4) { e.ck() } else { e };
            // log mode with collector on every partition count; one further variant per count
            let (xm, xshort, xcoll) = *cx.rng.pick(&vs);
            let xst = if xcoll { st.clone() } else { Coll::none() };
            for (m, short, c) in [(Mode::Log, false, &st), (xm, xshort, &xst)] {
                if keyed { case_kv_c(cx, m, short, c, e, &kv); } else { case_rec_c(cx, m, short, c, e, &rows); }
            }
        }
        // fail-fast on the same input, sequential + every partition count of the family + a random one
        let n = 1 + cx.rng.below(len + 2);
        let mut ff_execs = some_execs(len);
        ff_execs.push(Exec::Par(n));
        if cx.rng.chance(1, 8) { ff_execs.push(Exec::ParNone); }
        for e in ff_execs {
            if keyed { case_kv_c(cx, Mode::Ff, false, &st, e, &kv); } else { case_rec_c(cx, Mode::Ff, false, &st, e, &rows); }
        }
        // the same collector for a second run over another input
        if cx.rng.chance(1, 3) {
            let len2 = cx.rng.below(12);
            let pat2 = random_pattern(cx, len2);
            let rows2 = mk_rows(&pat2);
            let e1 = if cx.rng.chance(1, 2) { Exec::Seq } else { Exec::Par(1) };
            let e2 = if cx.rng.chance(1, 3) { Exec::Seq } else { Exec::Par(1 + cx.rng.below(len2 + 2)) };
            let m2 = *cx.rng.pick(&[Mode::Log, Mode::Log, Mode::Skip, Mode::Ff]);
            let first: Vec<Rec> = rows.iter().take(12).cloned().collect();
            case_reuse(cx, keyed, &st, e1, &first, m2, e2, &rows2);
        }
        // combine over the same verdicts
        one_combine(cx, &pat[..pat.len().min(12)]);
        // a random block with one or more validators, through the planner
        if cx.rng.chance(1, 2) {
            let k = 1 + cx.rng.below(6);
            let mut steps: Vec<Step> = (0..k).map(|_| *cx.rng.pick(&[Step::Inc, Step::Heal, Step::Brk, Step::Odd, Step::Val, Step::Val, Step::Val, Step::Gbk])).collect();
            if !steps.contains(&Step::Val) { let p = cx.rng.below(steps.len() + 1); steps.insert(p, Step::Val); }
            let m = *cx.rng.pick(&MODES);
            let e = match cx.rng.below(10) { 0..=3 => Exec::Seq, 4 => Exec::ParNone, 5 => Exec::CkSeq, 6 => Exec::CkPar(1 + cx.rng.below(len + 2)), _ => Exec::Par(1 + cx.rng.below(len + 2)) };
            let short_kv: Vec<(i64, Rec)> = kv.iter().take(20).cloned().collect();
            let c = if cx.rng.chance(1, 6) { Coll::none() } else { st.clone() };
            let vkeyed = cx.rng.chance(1, 2);
            case_vpipe(cx, m, vkeyed, &c, e, &steps, &short_kv);
        }
        // a join: this input on the left, a second random input on the right, random step lists on both sides
        if cx.rng.chance(1, 3) {
            let side = |cx: &mut Ctx| -> Vec<Step> {
                let k = cx.rng.below(4);
                let mut st: Vec<Step> = (0..k).map(|_| *cx.rng.pick(&[Step::Inc, Step::Heal, Step::Brk, Step::Odd, Step::Val, Step::Val])).collect();
                if cx.rng.chance(3, 4) && !st.contains(&Step::Val) { let p = cx.rng.below(st.len() + 1); st.insert(p, Step::Val); }
                st
            };
            let (ls, rs) = (side(cx), side(cx));
            let len2 = cx.rng.below(10);
            let pat2 = random_pattern(cx, len2);
            let right: Vec<(i64, Rec)> = mk_rows(&pat2).into_iter().map(|r| (cx.rng.range(0, 4), Rec { id: r.id + 100, errs: r.errs })).collect();
            let left: Vec<(i64, Rec)> = kv.iter().take(12).cloned().collect();
            let m = *cx.rng.pick(&MODES);
            let e = match cx.rng.below(6) { 0 | 1 => Exec::Seq, 2 => Exec::CkSeq, 3 => Exec::CkPar(1 + cx.rng.below(6)), _ => Exec::Par(1 + cx.rng.below(14)) };
            let c = if cx.rng.chance(1, 6) { Coll::none() } else { st.clone() };
            case_vjoin(cx, m, &c, e, &ls, &left, &rs, &right);
        }
    }
    JITTER.store(0, Ordering::Relaxed);
}

// ---------------------------------------------------------------- tables (translator route)

fn flags_of(p: &Pipeline) -> Vec<(bool, bool, bool, u8)> {
    let (nodes, _) = p.snapshot();
    let mut v = vec![];
    for (_, n) in nodes {
        if let Node::Stateless(ops) = n {
            for op in ops {
                v.push((op.key_preserving(), op.value_only(), op.reorder_safe_with_value_only(), op.cost_hint()));
            }
        }
    }
    v
}

/// Capability flags of the operator installed by every validation builder, read from a real pipeline graph.
pub fn tables(out: &mut String) {
    let mut rows: Vec<(String, (bool, bool, bool, u8))> = vec![];
    let mut add = |name: &str, p: &Pipeline| {
        let f = flags_of(p);
        assert_eq!(f.len(), 1, "builder {name} must install exactly one stateless op");
        rows.push((name.to_string(), f[0]));
    };
    let mk = || { let p = Pipeline::default(); let c = from_vec(&p, vec![Rec { id: 0, errs: None }]); (p, c) };
    let mkv = || { let p = Pipeline::default(); let c = from_vec(&p, vec![(0i64, Rec { id: 0, errs: None })]); (p, c) };
    for m in MODES {
        for coll in [false, true] {
            let c0 = if coll { Some(Arc::new(Mutex::new(ErrorCollector::new()))) } else { None };
            let (p, c) = mk();
            let _ = c.validate_with_mode(m.real(), c0.clone());
            add(&format!("validate_with_mode:{}:{}", m.tok(), if coll { "c1" } else { "c0" }), &p);
            let (p, c) = mkv();
            let _ = c.validate_values_with_mode(m.real(), c0);
            add(&format!("validate_values_with_mode:{}:{}", m.tok(), if coll { "c1" } else { "c0" }), &p);
        }
    }
    let (p, c) = mk();
    let _ = c.validate_skip_invalid();
    add("validate_skip_invalid", &p);
    let (p, c) = mk();
    let _ = c.validate_fail_fast();
    add("validate_fail_fast", &p);
    let (p, c) = mkv();
    let _ = c.validate_values_skip_invalid();
    add("validate_values_skip_invalid", &p);

    out.push_str("/-- C17: (builder, key_preserving, value_only, reorder_safe_with_value_only, cost_hint) of the operator each\n    validation builder installs, read from `Pipeline::snapshot()` of a real graph. -/\n");
    out.push_str("def validateOpFlags : List (String × Bool × Bool × Bool × Nat) := [\n");
    let n = rows.len();
    for (i, (name, (kp, vo, rs, cost))) in rows.iter().enumerate() {
        out.push_str(&format!("  (\"{name}\", {kp}, {vo}, {rs}, {cost}){}\n", if i + 1 < n { "," } else { "" }));
    }
    out.push_str("]\n\n");

    // the two value-only steps the VPIPE requests put around a validator
    let p = Pipeline::default();
    let _ = from_vec(&p, vec![(0i64, 0i64)]).map_values(|v: &i64| *v);
    let mv = flags_of(&p);
    let p = Pipeline::default();
    let _ = from_vec(&p, vec![(0i64, 0i64)]).filter_values(|_: &i64| true);
    let fv = flags_of(&p);
    assert!(mv.len() == 1 && fv.len() == 1);
    out.push_str("/-- C17: flags of `map_values` / `filter_values` (the steps placed around validators in `VPIPE`) -/\n");
    out.push_str("def valueStepFlags : List (String × Bool × Bool × Bool × Nat) := [\n");
    out.push_str(&format!("  (\"map_values\", {}, {}, {}, {}),\n", mv[0].0, mv[0].1, mv[0].2, mv[0].3));
    out.push_str(&format!("  (\"filter_values\", {}, {}, {}, {})\n", fv[0].0, fv[0].1, fv[0].2, fv[0].3));
    out.push_str("]\n\n");

    // the two element-wise steps the unkeyed VPIPE requests put around a validator
    let p = Pipeline::default();
    let _ = from_vec(&p, vec![0i64]).map(|v: &i64| *v);
    let mv = flags_of(&p);
    let p = Pipeline::default();
    let _ = from_vec(&p, vec![0i64]).filter(|_: &i64| true);
    let fv = flags_of(&p);
    assert!(mv.len() == 1 && fv.len() == 1);
    out.push_str("/-- C17: flags of `map` / `filter` (the steps placed around unkeyed validators in `VPIPE`) -/\n");
    out.push_str("def elemStepFlags : List (String × Bool × Bool × Bool × Nat) := [\n");
    out.push_str(&format!("  (\"map\", {}, {}, {}, {}),\n", mv[0].0, mv[0].1, mv[0].2, mv[0].3));
    out.push_str(&format!("  (\"filter\", {}, {}, {}, {})\n", fv[0].0, fv[0].1, fv[0].2, fv[0].3));
    out.push_str("]\n\n");

    // the operators a `gbk` step of VPIPE puts into the blocks around the barrier
    let p = Pipeline::default();
    let _ = from_vec(&p, vec![0i64]).key_by(|v: &i64| *v);
    let kb = flags_of(&p);
    let p = Pipeline::default();
    let _ = from_vec(&p, vec![(0i64, vec![0i64])]).flat_map(|g: &(i64, Vec<i64>)| g.1.clone());
    let fm = flags_of(&p);
    assert!(kb.len() == 1 && fm.len() == 1);
    out.push_str("/-- C17: flags of `key_by` / `flat_map` (what a `gbk` step of `VPIPE` adds in front of / behind the barrier) -/\n");
    out.push_str("def barrierStepFlags : List (String × Bool × Bool × Bool × Nat) := [\n");
    out.push_str(&format!("  (\"key_by\", {}, {}, {}, {}),\n", kb[0].0, kb[0].1, kb[0].2, kb[0].3));
    out.push_str(&format!("  (\"flat_map\", {}, {}, {}, {})\n", fm[0].0, fm[0].1, fm[0].2, fm[0].3));
    out.push_str("]\n\n");
}
