//! C17 — validation passes exactly the valid records and accounts for every invalid one.
//!
//! Requests (all run REAL pipelines / functions of ironbeam):
//!
//! `VALIDATE <skip|log|ff> <rec|kv> <mode|short> <c0|c1> <seq|par:N> <rows>`
//!     rows  : `-` or comma-separated `id:SPEC` (rec) / `key=id:SPEC` (kv); SPEC = `V` (validate() = Ok) or
//!             `E<digits>` (validate() = Err(list of the errors with these one-digit codes); `E` = Err(vec![]))
//!     api   : `mode`  = validate_with_mode / validate_values_with_mode (collector Some iff c1)
//!             `short` = validate_skip_invalid / validate_fail_fast / validate_values_skip_invalid (c0 only)
//!     answer: `OK kept=<rows|-> log=<sorted entries record_id/E<digits>|->`  (entries as found in the shared
//!             ErrorCollector after the run, sorted), or `PANIC at=<idx>:E<digits>` (sequential: the panic message
//!             names the failing index and errors) / `PANIC` (parallel: which partition's panic is propagated is
//!             scheduling-dependent, so only the fact is compared)
//! `COMBINE <results>`   results: `-` or comma-separated `V` / `E<digits>`;  answer `OK` | `ERR <digits|->`
//! `VPIPE <skip|log|ff> <c0|c1> <seq|par:N> <steps> <rows>`  keyed pipeline `from_vec → steps → collect`, steps a
//!     `+`-separated list drawn from `inc` (map_values: shift every error code by one, mod 10), `heal`
//!     (map_values: a record whose errors are all even becomes valid), `odd` (filter_values: keep records with an
//!     odd id), `val` (validate_values_with_mode) — the block goes through the REAL planner, so a validator that
//!     let itself be moved would change the answer. answer as for VALIDATE.
//!
//! Oracle (independent of the Lean model; computed from the request alone): output = the valid records in
//! order; in log mode with a collector the multiset of logged error lists = the invalid records' error lists
//! (hence one entry per invalid record and |output| + |entries| = |input|); nothing is logged otherwise;
//! skip/log never fail; fail-fast fails iff some record is invalid; combine is Ok iff every part is Ok and
//! otherwise carries the concatenation of all error lists in order.

use crate::ctx::{Ctx, Tier, guarded};
use ironbeam::validation::{
    ErrorCollector, Validate, ValidationError, ValidationMode, ValidationResult, combine_validations,
};
use ironbeam::node::Node;
use ironbeam::{Pipeline, from_vec};
use std::sync::atomic::{AtomicU32, Ordering};
use std::sync::{Arc, Mutex};

/// scheduling jitter inside `validate()` (0 = off): makes partitions reach the shared collector at uneven times
static JITTER: AtomicU32 = AtomicU32::new(0);

/// Table-driven record: carries its own validation verdict.
#[derive(Clone, Debug, PartialEq, Eq)]
pub struct Rec {
    pub id: i64,
    /// None = valid; Some(codes) = `Err(codes.map(err_of))` (possibly the empty list)
    pub errs: Option<Vec<u8>>,
}

fn err_of(c: u8) -> ValidationError {
    let e = if c % 2 == 0 { ValidationError::field(format!("f{c}"), format!("m{c}")) } else { ValidationError::new(format!("m{c}")) };
    if c % 3 == 0 { e.with_code(format!("k{c}")) } else { e }
}
/// exact inverse of `err_of` on (field, message, code); anything else is `?`
fn code_of(e: &ValidationError) -> char {
    for c in 0u8..10 {
        let w = err_of(c);
        if w.field == e.field && w.message == e.message && w.code == e.code {
            return (b'0' + c) as char;
        }
    }
    '?'
}
/// inverse of `Display for ValidationError` on the ten table errors
fn code_of_display(s: &str) -> char {
    for c in 0u8..10 {
        if err_of(c).to_string() == s {
            return (b'0' + c) as char;
        }
    }
    '?'
}

impl Validate for Rec {
    fn validate(&self) -> ValidationResult {
        let j = JITTER.load(Ordering::Relaxed);
        if j != 0 {
            let h = (self.id as u64).wrapping_mul(0x9E37_79B9_7F4A_7C15) >> 60;
            for _ in 0..(h * j as u64) { std::hint::spin_loop(); }
            if h % 4 == 0 { std::thread::yield_now(); }
        }
        match &self.errs {
            None => Ok(()),
            Some(cs) => Err(cs.iter().map(|c| err_of(*c)).collect()),
        }
    }
}

#[derive(Clone, Copy, PartialEq, Eq, Debug)]
enum Mode { Skip, Log, Ff }
impl Mode {
    fn tok(self) -> &'static str { match self { Mode::Skip => "skip", Mode::Log => "log", Mode::Ff => "ff" } }
    fn real(self) -> ValidationMode {
        match self { Mode::Skip => ValidationMode::SkipInvalid, Mode::Log => ValidationMode::LogAndContinue, Mode::Ff => ValidationMode::FailFast }
    }
}
const MODES: [Mode; 3] = [Mode::Skip, Mode::Log, Mode::Ff];

#[derive(Clone, Copy, PartialEq, Eq, Debug)]
enum Exec { Seq, Par(usize) }
impl Exec {
    fn tok(self) -> String { match self { Exec::Seq => "seq".into(), Exec::Par(n) => format!("par:{n}") } }
}

fn spec(errs: &Option<Vec<u8>>) -> String {
    match errs {
        None => "V".into(),
        Some(cs) => format!("E{}", cs.iter().map(|c| (b'0' + c) as char).collect::<String>()),
    }
}
fn enc_rec(r: &Rec) -> String { format!("{}:{}", r.id, spec(&r.errs)) }
fn enc_kv(kv: &(i64, Rec)) -> String { format!("{}={}", kv.0, enc_rec(&kv.1)) }
fn join_or_dash(v: Vec<String>) -> String { if v.is_empty() { "-".into() } else { v.join(",") } }

/// what a run left behind, canonicalised
struct Obs {
    /// Ok(kept rows as tokens) or Err(panic message)
    out: Result<Vec<String>, String>,
    /// (record_id, error codes) in collector order
    log: Vec<(String, String)>,
}

fn read_collector(c: &Arc<Mutex<ErrorCollector>>) -> Vec<(String, String)> {
    // a panic while the lock is held would poison it; the entries are still there
    let g = match c.lock() { Ok(g) => g, Err(p) => p.into_inner() };
    let n = g.error_count();
    let v: Vec<(String, String)> = g
        .errors()
        .iter()
        .map(|re| (re.record_id.clone().unwrap_or_else(|| "none".into()), re.errors.iter().map(code_of).collect::<String>()))
        .collect();
    assert_eq!(n, v.len());
    v
}

const THREADS: Option<usize> = Some(8);

fn flatten_run<T>(r: Result<anyhow::Result<Vec<T>>, String>, enc: impl Fn(&T) -> String) -> Result<Vec<String>, String> {
    match r {
        Ok(Ok(v)) => Ok(v.iter().map(enc).collect()),
        Ok(Err(e)) => Err(format!("ERR {e}")),
        Err(p) => Err(p),
    }
}

fn run_rec(mode: Mode, short: bool, coll: bool, exec: Exec, rows: &[Rec]) -> Obs {
    let collector = Arc::new(Mutex::new(ErrorCollector::new()));
    let p = Pipeline::default();
    let src = from_vec(&p, rows.to_vec());
    let v = if short {
        match mode {
            Mode::Skip => src.validate_skip_invalid(),
            Mode::Ff => src.validate_fail_fast(),
            Mode::Log => unreachable!(),
        }
    } else {
        src.validate_with_mode(mode.real(), if coll { Some(Arc::clone(&collector)) } else { None })
    };
    let r = guarded(move || match exec {
        Exec::Seq => v.collect_seq(),
        Exec::Par(n) => v.collect_par(THREADS, Some(n)),
    });
    Obs { out: flatten_run(r, enc_rec), log: read_collector(&collector) }
}

fn run_kv(mode: Mode, short: bool, coll: bool, exec: Exec, rows: &[(i64, Rec)]) -> Obs {
    let collector = Arc::new(Mutex::new(ErrorCollector::new()));
    let p = Pipeline::default();
    let src = from_vec(&p, rows.to_vec());
    let v = if short {
        match mode {
            Mode::Skip => src.validate_values_skip_invalid(),
            _ => unreachable!(),
        }
    } else {
        src.validate_values_with_mode(mode.real(), if coll { Some(Arc::clone(&collector)) } else { None })
    };
    let r = guarded(move || match exec {
        Exec::Seq => v.collect_seq(),
        Exec::Par(n) => v.collect_par(THREADS, Some(n)),
    });
    Obs { out: flatten_run(r, enc_kv), log: read_collector(&collector) }
}

/// `Validation failed at <record|pair> <idx>: <e1>, <e2>` ↦ (idx, codes)
fn parse_panic(msg: &str, keyed: bool) -> Option<(usize, String)> {
    let pfx = if keyed { "Validation failed at pair " } else { "Validation failed at record " };
    let rest = msg.strip_prefix(pfx)?;
    let (idx, errs) = rest.split_once(": ")?;
    let idx: usize = idx.parse().ok()?;
    let codes: String = if errs.is_empty() { String::new() } else { errs.split(", ").map(code_of_display).collect() };
    Some((idx, codes))
}

fn canon_answer(obs: &Obs, exec: Exec, keyed: bool) -> String {
    let mut log: Vec<String> = obs.log.iter().map(|(id, cs)| format!("{id}/E{cs}")).collect();
    log.sort();
    match &obs.out {
        Ok(kept) => format!("OK kept={} log={}", join_or_dash(kept.clone()), join_or_dash(log)),
        Err(msg) if msg.starts_with("ERR ") => "ERR".to_string(),
        Err(msg) => match (exec, parse_panic(msg, keyed)) {
            (Exec::Seq, Some((i, cs))) => format!("PANIC at={i}:E{cs}"),
            (Exec::Seq, None) => "PANIC unparsed".to_string(),
            (Exec::Par(_), _) => "PANIC".to_string(),
        },
    }
}

/// The property's own statement on one observed run. `recs` = the records in input order (values for kv),
/// `toks` = their row tokens.
fn oracle(cx: &mut Ctx, i: usize, mode: Mode, coll: bool, keyed: bool, recs: &[&Rec], toks: &[String], obs: &Obs) {
    let valid_toks: Vec<String> = recs.iter().zip(toks).filter(|(r, _)| r.errs.is_none()).map(|(_, t)| t.clone()).collect();
    let mut invalid_errs: Vec<String> = recs.iter().filter_map(|r| r.errs.as_ref().map(|cs| cs.iter().map(|c| (b'0' + c) as char).collect())).collect();
    invalid_errs.sort();
    let any_invalid = !invalid_errs.is_empty();
    match (&obs.out, mode) {
        (Err(m), Mode::Skip | Mode::Log) => {
            cx.oracle_fail(i, "skip-or-log-run-failed", format!("mode {} failed: {m}", mode.tok()));
        }
        (Err(m), Mode::Ff) => {
            if !any_invalid {
                cx.oracle_fail(i, "failfast-failed-without-invalid-record", format!("all records valid but the run failed: {m}"));
            } else {
                match parse_panic(m, keyed) {
                    Some((_, cs)) if invalid_errs.contains(&cs) => {}
                    _ => cx.oracle_fail(i, "failfast-message-not-an-invalid-record", format!("panic message {m:?} does not quote an invalid record's errors")),
                }
            }
        }
        (Ok(kept), _) => {
            if mode == Mode::Ff && any_invalid {
                cx.oracle_fail(i, "failfast-passed-with-invalid-record", format!("{} invalid records but the run returned {} rows", invalid_errs.len(), kept.len()));
            } else if *kept != valid_toks {
                cx.oracle_fail(i, "output-not-the-valid-records-in-order", format!("expected {valid_toks:?} got {kept:?}"));
            }
        }
    }
    let mut logged: Vec<String> = obs.log.iter().map(|x| x.1.clone()).collect();
    logged.sort();
    if mode == Mode::Log && coll {
        if obs.out.is_ok() {
            if logged != invalid_errs {
                cx.oracle_fail(i, "collector-not-one-entry-per-invalid-record", format!("expected error lists {invalid_errs:?} got {logged:?}"));
            }
            if let Ok(k) = &obs.out {
                if k.len() + obs.log.len() != recs.len() {
                    cx.oracle_fail(i, "counts-do-not-add-up", format!("{} kept + {} logged != {} input", k.len(), obs.log.len(), recs.len()));
                }
            }
        }
    } else if !logged.is_empty() {
        cx.oracle_fail(i, "logged-outside-log-mode", format!("mode {} coll={coll}: collector has {} entries", mode.tok(), logged.len()));
    }
}

fn case_rec(cx: &mut Ctx, mode: Mode, short: bool, coll: bool, exec: Exec, rows: &[Rec]) {
    let obs = run_rec(mode, short, coll, exec, rows);
    let toks: Vec<String> = rows.iter().map(enc_rec).collect();
    let req = format!("VALIDATE {} rec {} {} {} {}", mode.tok(), if short { "short" } else { "mode" }, if coll { "c1" } else { "c0" }, exec.tok(), join_or_dash(toks.clone()));
    let nt = rows.iter().any(|r| r.errs.is_some()) && rows.iter().any(|r| r.errs.is_none());
    let i = cx.case(req, canon_answer(&obs, exec, false), nt);
    let recs: Vec<&Rec> = rows.iter().collect();
    oracle(cx, i, mode, coll, false, &recs, &toks, &obs);
    stats(cx, mode, false, exec, rows.len(), &obs);
}

fn case_kv(cx: &mut Ctx, mode: Mode, short: bool, coll: bool, exec: Exec, rows: &[(i64, Rec)]) {
    let obs = run_kv(mode, short, coll, exec, rows);
    let toks: Vec<String> = rows.iter().map(enc_kv).collect();
    let req = format!("VALIDATE {} kv {} {} {} {}", mode.tok(), if short { "short" } else { "mode" }, if coll { "c1" } else { "c0" }, exec.tok(), join_or_dash(toks.clone()));
    let nt = rows.iter().any(|r| r.1.errs.is_some()) && rows.iter().any(|r| r.1.errs.is_none());
    let i = cx.case(req, canon_answer(&obs, exec, true), nt);
    let recs: Vec<&Rec> = rows.iter().map(|r| &r.1).collect();
    oracle(cx, i, mode, coll, true, &recs, &toks, &obs);
    stats(cx, mode, true, exec, rows.len(), &obs);
}

fn stats(cx: &mut Ctx, mode: Mode, keyed: bool, exec: Exec, len: usize, obs: &Obs) {
    cx.count(&format!("mode:{}", mode.tok()));
    cx.count(if keyed { "shape:kv" } else { "shape:rec" });
    cx.count(match exec { Exec::Seq => "exec:seq", Exec::Par(1) => "exec:par1", Exec::Par(n) if n >= len.max(1) => "exec:par>=len", Exec::Par(_) => "exec:par<len" });
    cx.count(match len { 0 => "len:0", 1 => "len:1", 2..=6 => "len:2-6", 7..=30 => "len:7-30", _ => "len:31+" });
    cx.count(if obs.out.is_ok() { "outcome:ok" } else { "outcome:panic" });
    if !obs.log.is_empty() { cx.count("collector:nonempty"); }
}

/// every (mode, api, collector) combination the public API offers for one shape
fn variants(keyed: bool) -> Vec<(Mode, bool, bool)> {
    let mut v = vec![];
    for m in MODES {
        v.push((m, false, true));
        v.push((m, false, false));
    }
    v.push((Mode::Skip, true, false));
    if !keyed { v.push((Mode::Ff, true, false)); }
    v
}

fn mk_rows(pattern: &[Option<Vec<u8>>]) -> Vec<Rec> {
    pattern.iter().enumerate().map(|(i, e)| Rec { id: i as i64, errs: e.clone() }).collect()
}
fn key_of(id: i64) -> i64 { (id * 7 + 3) % 5 }
fn mk_kv(rows: &[Rec]) -> Vec<(i64, Rec)> { rows.iter().map(|r| (key_of(r.id), r.clone())).collect() }

fn all_execs(len: usize, upto: usize) -> Vec<Exec> {
    let mut v = vec![Exec::Seq];
    for n in 1..=upto { v.push(Exec::Par(n)); }
    let _ = len;
    v
}
fn some_execs(len: usize) -> Vec<Exec> {
    let mut ns = vec![1usize, 2, 3, len.saturating_sub(1), len, len + 1, 64];
    ns.retain(|n| *n >= 1);
    ns.sort();
    ns.dedup();
    let mut v = vec![Exec::Seq];
    v.extend(ns.into_iter().map(Exec::Par));
    v
}

// ---------------------------------------------------------------- combine

fn one_combine(cx: &mut Ctx, parts: &[Option<Vec<u8>>]) {
    let input: Vec<ValidationResult> = parts
        .iter()
        .map(|p| match p { None => Ok(()), Some(cs) => Err(cs.iter().map(|c| err_of(*c)).collect()) })
        .collect();
    let r = guarded(move || combine_validations(input));
    let real = match &r {
        Ok(Ok(())) => "OK".to_string(),
        Ok(Err(es)) => { let s: String = es.iter().map(code_of).collect(); format!("ERR {}", if s.is_empty() { "-".into() } else { s }) }
        Err(_) => "PANIC".to_string(),
    };
    let req = format!("COMBINE {}", join_or_dash(parts.iter().map(spec).collect()));
    let nt = parts.iter().any(Option::is_some) && parts.len() >= 2;
    let i = cx.case(req, real.clone(), nt);
    cx.count(if real == "OK" { "combine:ok" } else { "combine:err" });
    // oracle
    let all_ok = parts.iter().all(Option::is_none);
    let want_errs: String = parts.iter().flatten().flat_map(|cs| cs.iter().map(|c| (b'0' + c) as char)).collect();
    match &r {
        Ok(Ok(())) => {
            if !all_ok {
                let sig = if want_errs.is_empty() { "combine-ok-although-a-part-failed-with-empty-error-list" } else { "combine-ok-although-a-part-failed" };
                cx.oracle_fail(i, sig, format!("parts {:?} contain a failed part but combine returned Ok", parts.iter().map(spec).collect::<Vec<_>>()));
            }
        }
        Ok(Err(es)) => {
            let got: String = es.iter().map(code_of).collect();
            if all_ok {
                cx.oracle_fail(i, "combine-err-although-all-parts-ok", format!("got Err({got})"));
            } else if got != want_errs {
                cx.oracle_fail(i, "combine-errors-not-all-in-order", format!("expected {want_errs} got {got}"));
            }
        }
        Err(m) => cx.oracle_fail(i, "combine-panicked", m.clone()),
    }
}

// ---------------------------------------------------------------- planner pin (VPIPE)

#[derive(Clone, Copy, PartialEq, Eq, Debug)]
enum Step { Inc, Heal, Odd, Val }
impl Step {
    fn tok(self) -> &'static str { match self { Step::Inc => "inc", Step::Heal => "heal", Step::Odd => "odd", Step::Val => "val" } }
}
fn step_inc(r: &Rec) -> Rec { Rec { id: r.id, errs: r.errs.as_ref().map(|cs| cs.iter().map(|c| (c + 1) % 10).collect()) } }
fn step_heal(r: &Rec) -> Rec {
    match &r.errs {
        Some(cs) if cs.iter().all(|c| c % 2 == 0) => Rec { id: r.id, errs: None },
        _ => r.clone(),
    }
}
fn step_odd(r: &Rec) -> bool { r.id % 2 != 0 }

fn case_vpipe(cx: &mut Ctx, mode: Mode, coll: bool, exec: Exec, steps: &[Step], rows: &[(i64, Rec)]) {
    let collector = Arc::new(Mutex::new(ErrorCollector::new()));
    let p = Pipeline::default();
    let mut c = from_vec(&p, rows.to_vec());
    for s in steps {
        c = match s {
            Step::Inc => c.map_values(|r: &Rec| step_inc(r)),
            Step::Heal => c.map_values(|r: &Rec| step_heal(r)),
            Step::Odd => c.filter_values(|r: &Rec| step_odd(r)),
            Step::Val => c.validate_values_with_mode(mode.real(), if coll { Some(Arc::clone(&collector)) } else { None }),
        };
    }
    let r = guarded(move || match exec {
        Exec::Seq => c.collect_seq(),
        Exec::Par(n) => c.collect_par(THREADS, Some(n)),
    });
    let obs = Obs { out: flatten_run(r, enc_kv), log: read_collector(&collector) };
    let toks: Vec<String> = rows.iter().map(enc_kv).collect();
    let req = format!(
        "VPIPE {} {} {} {} {}",
        mode.tok(),
        if coll { "c1" } else { "c0" },
        exec.tok(),
        steps.iter().map(|s| s.tok()).collect::<Vec<_>>().join("+"),
        join_or_dash(toks)
    );
    // the panic index depends on what the earlier steps dropped; compare only the fact for VPIPE
    let ans = match canon_answer(&obs, exec, true) {
        a if a.starts_with("PANIC") => "PANIC".to_string(),
        a => a,
    };
    let i = cx.case(req, ans, true);
    cx.count("vpipe");
    // oracle: the steps as written, record by record (every step is element-wise)
    let mut cur: Vec<(i64, Rec)> = rows.to_vec();
    let mut want_log: Vec<String> = vec![];
    let mut want_fail = false;
    for s in steps {
        match s {
            Step::Inc => cur = cur.iter().map(|(k, r)| (*k, step_inc(r))).collect(),
            Step::Heal => cur = cur.iter().map(|(k, r)| (*k, step_heal(r))).collect(),
            Step::Odd => cur.retain(|(_, r)| step_odd(r)),
            Step::Val => {
                for (_, r) in &cur {
                    if let Some(cs) = &r.errs {
                        if mode == Mode::Log && coll { want_log.push(cs.iter().map(|c| (b'0' + c) as char).collect()); }
                        if mode == Mode::Ff { want_fail = true; }
                    }
                }
                cur.retain(|(_, r)| r.errs.is_none());
            }
        }
    }
    want_log.sort();
    let mut got_log: Vec<String> = obs.log.iter().map(|x| x.1.clone()).collect();
    got_log.sort();
    match &obs.out {
        Ok(kept) => {
            let want: Vec<String> = cur.iter().map(enc_kv).collect();
            if want_fail {
                cx.oracle_fail(i, "vpipe-failfast-passed-with-invalid-record", format!("returned {} rows", kept.len()));
            } else if *kept != want {
                cx.oracle_fail(i, "vpipe-output-differs-from-steps-as-written", format!("expected {want:?} got {kept:?}"));
            } else if got_log != want_log {
                cx.oracle_fail(i, "vpipe-collector-differs-from-steps-as-written", format!("expected {want_log:?} got {got_log:?}"));
            }
        }
        Err(m) => {
            if !want_fail {
                cx.oracle_fail(i, "vpipe-run-failed", m.clone());
            }
        }
    }
}

// ---------------------------------------------------------------- generators

fn all_patterns(len: usize, alphabet: &[Option<Vec<u8>>]) -> Vec<Vec<Option<Vec<u8>>>> {
    let mut out: Vec<Vec<Option<Vec<u8>>>> = vec![vec![]];
    for _ in 0..len {
        let mut next = vec![];
        for p in &out {
            for a in alphabet {
                let mut q = p.clone();
                q.push(a.clone());
                next.push(q);
            }
        }
        out = next;
    }
    out
}

/// errors of the invalid record at position i in the exhaustive block: distinct payloads per position,
/// including the empty list and a two-element list
fn pos_errs(i: usize) -> Vec<u8> {
    match i % 4 {
        0 => vec![i as u8 % 10],
        1 => vec![(i as u8 + 3) % 10, i as u8 % 10],
        2 => vec![],
        _ => vec![9, (i as u8) % 10, 0],
    }
}

fn random_errs(cx: &mut Ctx) -> Vec<u8> {
    let n = match cx.rng.below(10) { 0 => 0, 1..=5 => 1, 6..=8 => 2, _ => 4 };
    (0..n).map(|_| cx.rng.below(10) as u8).collect()
}

fn random_pattern(cx: &mut Ctx, len: usize) -> Vec<Option<Vec<u8>>> {
    let kind = cx.rng.below(9);
    let mut v: Vec<Option<Vec<u8>>> = vec![None; len];
    let name = match kind {
        0 => "pattern:none-invalid",
        1 => { for x in v.iter_mut() { *x = Some(random_errs(cx)); } "pattern:all-invalid" }
        2 => { if len > 0 { v[0] = Some(random_errs(cx)); } "pattern:first" }
        3 => { if len > 0 { v[len - 1] = Some(random_errs(cx)); } "pattern:last" }
        4 => {
            // a run of invalid records straddling a chunk boundary of some partition count
            if len >= 2 {
                let n = 2 + cx.rng.below(len.min(8));
                let chunk = len.div_ceil(n);
                let b = chunk * (1 + cx.rng.below((len / chunk).max(1)));
                let lo = b.saturating_sub(1 + cx.rng.below(3));
                let hi = (b + 1 + cx.rng.below(3)).min(len);
                for i in lo..hi { v[i] = Some(random_errs(cx)); }
            }
            "pattern:run-across-boundary"
        }
        5 => { for i in 0..len { if i % 2 == 0 { v[i] = Some(random_errs(cx)); } } "pattern:alternating" }
        6 => { for x in v.iter_mut() { if cx.rng.chance(1, 10) { *x = Some(random_errs(cx)); } } "pattern:sparse" }
        7 => { for x in v.iter_mut() { if cx.rng.chance(9, 10) { *x = Some(random_errs(cx)); } } "pattern:dense" }
        _ => { for x in v.iter_mut() { if cx.rng.chance(1, 2) { *x = Some(random_errs(cx)); } } "pattern:half" }
    };
    cx.count(name);
    v
}

pub fn run(cx: &mut Ctx) {
    // ---- (1) corpus: design witnesses / minimised past failures
    one_combine(cx, &[Some(vec![])]);                       // Err(vec![]) is a failed part
    one_combine(cx, &[None, Some(vec![]), None]);
    one_combine(cx, &[Some(vec![1]), None, Some(vec![2, 3])]);
    {
        // invalid record with an empty error list must still be dropped / logged / fail the run
        let rows = mk_rows(&[None, Some(vec![]), None]);
        for (m, short, coll) in variants(false) {
            for e in [Exec::Seq, Exec::Par(2), Exec::Par(3)] { case_rec(cx, m, short, coll, e, &rows); }
        }
        // two invalid records that have the same partition-local index in a 2-partition run
        let rows = mk_rows(&[None, Some(vec![1]), None, Some(vec![2])]);
        for e in [Exec::Seq, Exec::Par(2), Exec::Par(4)] {
            case_rec(cx, Mode::Log, false, true, e, &rows);
            case_kv(cx, Mode::Log, false, true, e, &mk_kv(&rows));
        }
        // validator between a map and a filter on values: must stay where it was written
        let kv = mk_kv(&mk_rows(&[Some(vec![2]), Some(vec![1]), None, Some(vec![4, 5]), Some(vec![3])]));
        for m in MODES {
            for e in [Exec::Seq, Exec::Par(2)] {
                case_vpipe(cx, m, true, e, &[Step::Inc, Step::Val, Step::Odd], &kv);
                case_vpipe(cx, m, true, e, &[Step::Heal, Step::Val, Step::Odd], &kv);
                case_vpipe(cx, m, true, e, &[Step::Odd, Step::Val, Step::Heal], &kv);
            }
        }
    }

    // ---- (2) exhaustive small scope
    // sizes of exhaustive blocks are fixed per tier (the search tier only enlarges the random block)
    let maxlen = if cx.tier == Tier::Thorough { 7 } else { 6 };
    let mut npat = 0usize;
    for len in 0..=maxlen {
        // validity patterns: bit i set = record i invalid, with position-dependent payload
        for bits in 0u32..(1 << len) {
            let pat: Vec<Option<Vec<u8>>> = (0..len).map(|i| if bits >> i & 1 == 1 { Some(pos_errs(i)) } else { None }).collect();
            let rows = mk_rows(&pat);
            let kv = mk_kv(&rows);
            npat += 1;
            for e in all_execs(len, maxlen + 1) {
                for (m, short, coll) in variants(false) {
                    // collector-less / short forms only sequentially and for two partition counts (they add nothing per n)
                    if (short || !coll) && !matches!(e, Exec::Seq | Exec::Par(2) | Exec::Par(3)) { continue; }
                    case_rec(cx, m, short, coll, e, &rows);
                }
                for (m, short, coll) in variants(true) {
                    if (short || !coll) && !matches!(e, Exec::Seq | Exec::Par(2) | Exec::Par(3)) { continue; }
                    case_kv(cx, m, short, coll, e, &kv);
                }
            }
        }
    }
    cx.exhaustive_blocks.push(format!(
        "VALIDATE: all {npat} valid/invalid patterns of 0..={maxlen} records (invalid payloads: 1, 2, 0 and 3 errors by position) x (sequential + partitions 1..={}) x 3 modes with collector x keyed/unkeyed; collector-less and convenience builders at seq, 2 and 3 partitions",
        maxlen + 1
    ));
    let alpha: Vec<Option<Vec<u8>>> = vec![None, Some(vec![]), Some(vec![1]), Some(vec![2, 3])];
    let cl = if cx.tier == Tier::Thorough { 5 } else { 4 };
    let mut ncomb = 0usize;
    for len in 0..=cl {
        for p in all_patterns(len, &alpha) { one_combine(cx, &p); ncomb += 1; }
    }
    cx.exhaustive_blocks.push(format!("COMBINE: all {ncomb} lists of 0..={cl} results over {{Ok, Err[], Err[1], Err[2,3]}}"));
    // planner pin: every arrangement of up to 3 value steps around one validator, on a fixed 6-row input
    {
        let kv = mk_kv(&mk_rows(&[Some(vec![2]), Some(vec![1]), None, Some(vec![4, 6]), Some(vec![3]), None]));
        let others = [Step::Inc, Step::Heal, Step::Odd];
        let mut nseq = 0usize;
        let mut seqs: Vec<Vec<Step>> = vec![vec![]];
        for _ in 0..3 {
            let mut next = vec![];
            for s in &seqs { for o in others { let mut t = s.clone(); t.push(o); next.push(t); } }
            seqs.extend(next.iter().cloned());
            seqs.sort_by_key(|s| s.iter().map(|x| x.tok()).collect::<Vec<_>>().join("+"));
            seqs.dedup();
        }
        for s in &seqs {
            for pos in 0..=s.len() {
                let mut steps = s.clone();
                steps.insert(pos, Step::Val);
                nseq += 1;
                for m in MODES {
                    for e in [Exec::Seq, Exec::Par(3)] { case_vpipe(cx, m, true, e, &steps, &kv); }
                }
            }
        }
        cx.exhaustive_blocks.push(format!("VPIPE: all {nseq} placements of one validate_values among 0..=3 steps over {{map_values inc, map_values heal, filter_values odd}} x 3 modes x seq/3 partitions, through the real planner"));
    }

    // ---- (2b) contention block: many partitions pushing into the one collector at the same time
    {
        let len = 400usize;
        let pat: Vec<Option<Vec<u8>>> = (0..len).map(|i| if i % 10 == 9 { None } else { Some(vec![(i % 10) as u8, (i / 10 % 10) as u8, (i / 100) as u8]) }).collect();
        let rows = mk_rows(&pat);
        let kv = mk_kv(&rows);
        let reps = cx.budget(4, 25);
        for rep in 0..reps {
            JITTER.store(if rep % 2 == 0 { 0 } else { 40 }, Ordering::Relaxed);
            for n in [8usize, 64, 400] {
                case_rec(cx, Mode::Log, false, true, Exec::Par(n), &rows);
                case_kv(cx, Mode::Log, false, true, Exec::Par(n), &kv);
                cx.count("contention-runs");
            }
        }
        JITTER.store(0, Ordering::Relaxed);
    }

    // ---- (3) random block
    let rounds = cx.budget(300, 3000);
    for round in 0..rounds {
        JITTER.store(if round % 2 == 0 { 0 } else { 1 + cx.rng.below(60) as u32 }, Ordering::Relaxed);
        let len = match cx.rng.below(10) { 0 => cx.rng.below(3), 1..=5 => 2 + cx.rng.below(14), _ => 10 + cx.rng.below(91) };
        let pat = random_pattern(cx, len);
        let mut rows = mk_rows(&pat);
        // ids need not be positions
        if cx.rng.chance(1, 3) { for r in rows.iter_mut() { r.id = cx.rng.range(-50, 50); } }
        let keyed = cx.rng.chance(1, 2);
        let kv: Vec<(i64, Rec)> = rows.iter().map(|r| (cx.rng.range(0, 4), r.clone())).collect();
        let vs = variants(keyed);
        for e in some_execs(len) {
            // log mode with collector on every partition count; one further variant per count
            let extra = *cx.rng.pick(&vs);
            for (m, short, coll) in [(Mode::Log, false, true), extra] {
                if keyed { case_kv(cx, m, short, coll, e, &kv); } else { case_rec(cx, m, short, coll, e, &rows); }
            }
        }
        // fail-fast on the same input, sequential + every partition count of the family + a random one
        let n = 1 + cx.rng.below(len + 2);
        let mut ff_execs = some_execs(len);
        ff_execs.push(Exec::Par(n));
        for e in ff_execs {
            if keyed { case_kv(cx, Mode::Ff, false, true, e, &kv); } else { case_rec(cx, Mode::Ff, false, true, e, &rows); }
        }
        // combine over the same verdicts
        one_combine(cx, &pat[..pat.len().min(12)]);
        // a random value block with one or two validators, through the planner
        if cx.rng.chance(1, 2) {
            let k = 1 + cx.rng.below(5);
            let mut steps: Vec<Step> = (0..k).map(|_| *cx.rng.pick(&[Step::Inc, Step::Heal, Step::Odd, Step::Val])).collect();
            if !steps.contains(&Step::Val) { let p = cx.rng.below(steps.len() + 1); steps.insert(p, Step::Val); }
            let m = *cx.rng.pick(&MODES);
            let e = if cx.rng.chance(1, 2) { Exec::Seq } else { Exec::Par(1 + cx.rng.below(len + 2)) };
            let short_kv: Vec<(i64, Rec)> = kv.iter().take(20).cloned().collect();
            case_vpipe(cx, m, true, e, &steps, &short_kv);
        }
    }
    JITTER.store(0, Ordering::Relaxed);
}

// ---------------------------------------------------------------- tables (translator route)

fn flags_of(p: &Pipeline) -> Vec<(bool, bool, bool, u8)> {
    let (nodes, _) = p.snapshot();
    let mut v = vec![];
    for (_, n) in nodes {
        if let Node::Stateless(ops) = n {
            for op in ops {
                v.push((op.key_preserving(), op.value_only(), op.reorder_safe_with_value_only(), op.cost_hint()));
            }
        }
    }
    v
}

/// Capability flags of the operator installed by every validation builder, read from a real pipeline graph.
pub fn tables(out: &mut String) {
    let mut rows: Vec<(String, (bool, bool, bool, u8))> = vec![];
    let mut add = |name: &str, p: &Pipeline| {
        let f = flags_of(p);
        assert_eq!(f.len(), 1, "builder {name} must install exactly one stateless op");
        rows.push((name.to_string(), f[0]));
    };
    let mk = || { let p = Pipeline::default(); let c = from_vec(&p, vec![Rec { id: 0, errs: None }]); (p, c) };
    let mkv = || { let p = Pipeline::default(); let c = from_vec(&p, vec![(0i64, Rec { id: 0, errs: None })]); (p, c) };
    for m in MODES {
        for coll in [false, true] {
            let c0 = if coll { Some(Arc::new(Mutex::new(ErrorCollector::new()))) } else { None };
            let (p, c) = mk();
            let _ = c.validate_with_mode(m.real(), c0.clone());
            add(&format!("validate_with_mode:{}:{}", m.tok(), if coll { "c1" } else { "c0" }), &p);
            let (p, c) = mkv();
            let _ = c.validate_values_with_mode(m.real(), c0);
            add(&format!("validate_values_with_mode:{}:{}", m.tok(), if coll { "c1" } else { "c0" }), &p);
        }
    }
    let (p, c) = mk();
    let _ = c.validate_skip_invalid();
    add("validate_skip_invalid", &p);
    let (p, c) = mk();
    let _ = c.validate_fail_fast();
    add("validate_fail_fast", &p);
    let (p, c) = mkv();
    let _ = c.validate_values_skip_invalid();
    add("validate_values_skip_invalid", &p);

    out.push_str("/-- C17: (builder, key_preserving, value_only, reorder_safe_with_value_only, cost_hint) of the operator each\n    validation builder installs, read from `Pipeline::snapshot()` of a real graph. -/\n");
    out.push_str("def validateOpFlags : List (String × Bool × Bool × Bool × Nat) := [\n");
    let n = rows.len();
    for (i, (name, (kp, vo, rs, cost))) in rows.iter().enumerate() {
        out.push_str(&format!("  (\"{name}\", {kp}, {vo}, {rs}, {cost}){}\n", if i + 1 < n { "," } else { "" }));
    }
    out.push_str("]\n\n");

    // the two value-only steps the VPIPE requests put around a validator
    let p = Pipeline::default();
    let _ = from_vec(&p, vec![(0i64, 0i64)]).map_values(|v: &i64| *v);
    let mv = flags_of(&p);
    let p = Pipeline::default();
    let _ = from_vec(&p, vec![(0i64, 0i64)]).filter_values(|_: &i64| true);
    let fv = flags_of(&p);
    assert!(mv.len() == 1 && fv.len() == 1);
    out.push_str("/-- C17: flags of `map_values` / `filter_values` (the steps placed around validators in `VPIPE`) -/\n");
    out.push_str("def valueStepFlags : List (String × Bool × Bool × Bool × Nat) := [\n");
    out.push_str(&format!("  (\"map_values\", {}, {}, {}, {}),\n", mv[0].0, mv[0].1, mv[0].2, mv[0].3));
    out.push_str(&format!("  (\"filter_values\", {}, {}, {}, {})\n", fv[0].0, fv[0].1, fv[0].2, fv[0].3));
    out.push_str("]\n\n");
}
