//! C09, third round: the directory around the writers (stale part files, older targets, missing parents,
//! concurrent writers), hostile files (byte-level CSV, undecodable / vanished / garbage Parquet, invalid UTF-8),
//! the path helpers' glob-or-literal dispatch, the bytes of the JSONL writers, and large files.
//!
//!   PARFS <jsonl|csv|csvh> <n> <shards|none> auto=<a> pre=<i:k,..|-> tgt=<k|->   OK W<H|id,..> L<stale part idx left> | PANIC | ERR
//!   CSVRD <0|1> <per> <g<int>|b|r,..|->          T.. R.. SEQ .. PAR .. VEC ..   (as JSONLRD)
//!   PQBAD <g1,..|-> <per> <schema|gone>          R<ranges> SPLIT <NONE|sizes> SEQ <OK n|ERR|PANIC> PAR <..> VEC <OK n|ERR>
//!   WRJSONL <ints|-> <shards|none> auto=<a>      SEQ <hex|-> PAR <hex|-|PANIC|ERR>
//!   RDHELPER <hex name> lit=<count|-> glob=<name:count,..|->    N<n> I<owner,..> | ERR
//!   MKDIR <writer>                               OK | ERR
//!   ORACLE-ONLY overwrite / concurrent / hostile-parquet / invalid-utf8

use crate::c09::*;
use crate::ctx::{Ctx, guarded, hex};
use ironbeam::io::csv::{CsvVecOps, build_csv_shards};
use ironbeam::io::jsonl::{build_jsonl_shards, write_jsonl_vec};
use ironbeam::io::parquet::{ParquetVecOps, build_parquet_shards};
use ironbeam::{
    Pipeline, VecOps, read_csv, read_csv_streaming, read_csv_vec, read_jsonl, read_jsonl_vec, read_parquet_streaming,
    read_parquet_vec, write_csv_par, write_jsonl_par, write_parquet_vec,
};
use serde::{Deserialize, Serialize};
use std::path::{Path, PathBuf};

// ---------------------------------------------------------------- PARFS: prior directory content

/// a record whose serialisation fails on demand (stands in for any mid-write fault)
struct Poison<R>(R, bool);
impl<R: Serialize> Serialize for Poison<R> {
    fn serialize<S: serde::Serializer>(&self, s: S) -> Result<S::Ok, S::Error> {
        if self.1 { Err(serde::ser::Error::custom("poisoned record")) } else { self.0.serialize(s) }
    }
}

fn part_path(target: &Path, i: usize) -> PathBuf {
    target.with_extension(format!("jsonl.part{i}"))
}

/// `k` stale lines; fixed text (no PRNG draws: the number of stale files that need filling may vary between runs)
fn stale_lines(base: u64, k: usize) -> Vec<u8> {
    let mut out = Vec::new();
    for j in 0..k {
        out.extend_from_slice(format!("{{\"stale\":{}}}\n", base + j as u64).as_bytes());
    }
    out
}

/// `history`: `(rows, shards)` of an EARLIER parallel write to the same path whose last record fails to serialise
/// (it leaves part files behind: the writer only cleans up on success)
#[allow(clippy::too_many_arguments)]
fn parfs_case<R: RecT>(cx: &mut Ctx, env: &mut Env, fmt: Fmt, data: &Vec<R>, shards: Option<usize>, pre: &[(usize, usize)], tgt: Option<usize>, history: Option<(usize, usize)>) {
    let n = data.len();
    let par = env.fresh(fmt.ext());
    let seq = env.fresh(fmt.ext());
    if let Some((n1, s1)) = history {
        let v: Vec<Poison<R>> = (0..n1).map(|k| Poison(R::make(cx, 7000 + k as u64, true, true), k + 1 == n1)).collect();
        let r = guarded(|| write_jsonl_par(&par, &v, Some(s1)));
        cx.count(match r {
            Ok(Err(_)) => "parfs:history-write-failed-as-planned",
            Ok(Ok(_)) => "parfs:history-write-unexpectedly-succeeded",
            Err(_) => "parfs:history-write-panicked",
        });
        // the failed attempt must not have produced a target
        let _ = std::fs::remove_file(&par);
        // Which of the OTHER shards had already run when the error surfaced depends on the scheduler. Make the state
        // the same on every run: a part the interrupted run did not get to is filled in with as many (stale) lines as
        // that shard would have written; the failing (last non-empty) shard has flushed everything before the poison.
        let s1c = s1.clamp(1, n1.max(1));
        let chunk = n1.div_ceil(s1c);
        for i in 0..s1c {
            let lines = ((i + 1) * chunk).min(n1) - (i * chunk).min(n1);
            let p = part_path(&par, i);
            if !p.exists() && env.own(cx, "fill in a part file of the interrupted run", std::fs::write(&p, stale_lines(7000 + (i * chunk) as u64, lines))).is_none() {
                env.wipe_files();
                return;
            }
        }
    }
    for &(i, k) in pre {
        let bytes = stale_lines(1000 * (i as u64 + 1), k);
        if env.own(cx, "write stale part file", std::fs::write(part_path(&par, i), bytes)).is_none() {
            env.wipe_files();
            return;
        }
    }
    if let Some(k) = tgt {
        let bytes = stale_lines(51000, k);
        if env.own(cx, "write older target", std::fs::write(&par, bytes)).is_none() {
            env.wipe_files();
            return;
        }
    }
    // what is really there before the call
    let pre_obs: Vec<(usize, usize)> = (0..96)
        .filter_map(|i| std::fs::read(part_path(&par, i)).ok().map(|b| (i, b.iter().filter(|&&c| c == b'\n').count())))
        .collect();
    env.take_log("");
    let r = guarded(|| write_par(fmt, &par, data, shards, false));
    let site = if fmt == Fmt::Jsonl { "write_jsonl_par" } else { "write_csv_par" };
    let count = env.take_log(site).len();
    settle_auto(cx, env, fmt, shards, n, count, r.as_ref().is_ok_and(Result::is_ok));
    let auto = if fmt == Fmt::Jsonl { env.auto_jsonl } else { env.auto_csv };
    let req = format!(
        "PARFS {} {n} {} auto={auto} pre={} tgt={}",
        fmt.name(),
        opt_shards(shards),
        join(pre_obs.iter().map(|(i, k)| format!("{i}:{k}")), ","),
        tgt.map_or("-".to_string(), |k| k.to_string())
    );
    let mut fails: Vec<(&'static str, String)> = vec![];
    let ans = match r {
        Err(m) => {
            fails.push(("par-writer-panics", m));
            "PANIC".to_string()
        }
        Ok(Err(e)) => {
            if !env.healthy() {
                let _ = env.own::<(), _>(cx, "parallel writer and the probe write both failed", Err(format!("{e:#}")));
                env.wipe_files();
                return;
            }
            fails.push(("par-writer-errors", format!("{e:#}")));
            "ERR".to_string()
        }
        Ok(Ok(_)) => {
            match guarded(|| write_seq(fmt, &seq, data)) {
                Ok(Ok(_)) => {}
                other => {
                    env.real_writer_failed(cx, req, format!("{:?}", other.map(|r| r.map_err(|e| format!("{e:#}")))));
                    env.wipe_files();
                    return;
                }
            }
            let (Some(a), Some(b)) = (env.own(cx, "read parallel-written file", std::fs::read(&par)), env.own(cx, "read sequentially written file", std::fs::read(&seq))) else {
                env.wipe_files();
                return;
            };
            if a != b {
                fails.push(("par-file-differs-from-seq-file-after-prior-content", format!("{} vs {} bytes; stale part files before the call: {pre_obs:?}, older target: {tgt:?}", a.len(), b.len())));
            }
            match guarded(|| read_whole::<R>(fmt, &par)) {
                Ok(Ok(v)) if same(&v, data) => {}
                Ok(Ok(v)) => fails.push((diff_sig(fmt, &v, data, "par-file-reads-back-differently-after-prior-content"), format!("{} records (expected {n}), first difference at {:?}", v.len(), first_diff(&v, data)))),
                other => fails.push(("par-file-reads-back-differently-after-prior-content", format!("{:?}", other.map(|r| r.map(|v| v.len()).map_err(|e| format!("{e:#}")))))),
            }
            let left: Vec<usize> = pre_obs.iter().map(|x| x.0).filter(|&i| part_path(&par, i).exists()).collect();
            format!("OK W{} L{}", raw_cells::<R>(&par, fmt), join(left.iter(), ","))
        }
    };
    let idx = cx.case(req, ans, n >= 2 && !pre_obs.is_empty());
    cx.count(&format!("parfs:{}", fmt.name()));
    cx.count(if history.is_some() { "parfs:after-failed-write" } else { "parfs:pre-created-parts" });
    if tgt.is_some() {
        cx.count("parfs:older-target");
    }
    if pre_obs.iter().any(|x| x.0 >= count) {
        cx.count("parfs:stale-index>=shard-count");
    }
    for (sig, d) in fails {
        cx.oracle_fail(idx, sig, d);
    }
    env.wipe_files();
}

/// `None` shard count: if the call did not use the default measured at start, re-measure (never blame the writer
/// for an affinity / cgroup change mid-run)
fn settle_auto(cx: &mut Ctx, env: &mut Env, fmt: Fmt, shards: Option<usize>, n: usize, observed: usize, ok: bool) {
    if shards.is_none() && n > 0 && ok {
        let auto = if fmt == Fmt::Jsonl { env.auto_jsonl } else { env.auto_csv };
        if observed != auto.clamp(1, n) {
            // a tiny re-measurement that touches only its own files
            let big: Vec<Rec> = gen_recs::<Rec>(&mut Ctx::new("C09", 0, cx.tier), 4096, true);
            let p = env.fresh("jsonl");
            env.take_log("");
            let _ = guarded(|| write_jsonl_par(&p, &big, None));
            env.auto_jsonl = env.take_log("write_jsonl_par").len();
            let _ = std::fs::remove_file(&p);
            let p = env.fresh("csv");
            let _ = guarded(|| write_csv_par(&p, &big, None, false));
            env.auto_csv = env.take_log("write_csv_par").len();
            let _ = std::fs::remove_file(&p);
            cx.count("env:auto-shard-count-remeasured");
        }
    }
}

// ---------------------------------------------------------------- overwrite / missing parent / concurrency

#[derive(Clone, Copy, Debug, PartialEq, Eq)]
enum Writer {
    SeqVec,
    SeqPc,
    ParFn,
    ParPc,
}
impl Writer {
    fn name(self, fmt: Fmt) -> String {
        let f = match fmt {
            Fmt::Jsonl => "jsonl",
            Fmt::Csv | Fmt::CsvH => "csv",
            Fmt::Parquet => "parquet",
        };
        match self {
            Writer::SeqVec => format!("write_{f}_vec"),
            Writer::SeqPc => format!("pc_write_{f}"),
            Writer::ParFn => format!("write_{f}_par"),
            Writer::ParPc => format!("pc_write_{f}_par"),
        }
    }
    fn run<R: RecT>(self, fmt: Fmt, path: &Path, data: &Vec<R>, shards: Option<usize>) -> anyhow::Result<usize> {
        match self {
            Writer::SeqVec => write_seq(fmt, path, data),
            Writer::SeqPc => write_seq_pc(fmt, path, data),
            Writer::ParFn => write_par(fmt, path, data, shards, false),
            Writer::ParPc => write_par(fmt, path, data, shards, true),
        }
    }
}

/// A writer pointed at an EXISTING, longer file: afterwards the file must hold exactly the new records
/// (`File::create` truncates). Oracle only.
fn overwrite_case<R: RecT>(cx: &mut Ctx, env: &mut Env, fmt: Fmt, w: Writer, data: &Vec<R>, shards: Option<usize>) {
    let p = env.fresh(fmt.ext());
    let q = env.fresh(fmt.ext());
    let old: Vec<R> = gen_recs::<R>(cx, 2 * data.len() + 9, fmt.is_csv());
    if !matches!(guarded(|| write_seq(fmt, &p, &old)), Ok(Ok(_))) {
        env.real_writer_failed(cx, format!("ORACLE-ONLY overwrite-prepare {} {}", fmt.name(), old.len()), "sequential writer failed on a fresh path".into());
        env.wipe_files();
        return;
    }
    let r1 = guarded(|| w.run(fmt, &p, data, shards));
    let r2 = guarded(|| w.run(fmt, &q, data, shards));
    if (matches!(&r1, Ok(Err(_))) || matches!(&r2, Ok(Err(_)))) && !env.healthy() {
        let _ = env.own::<(), _>(cx, "writer and the probe write both failed", Err("write error"));
        env.wipe_files();
        return;
    }
    let idx = cx.case(format!("ORACLE-ONLY overwrite {} {} n={} old={} shards={}", w.name(fmt), fmt.name(), data.len(), old.len(), opt_shards(shards)), "-".into(), !data.is_empty());
    cx.count(&format!("overwrite:{}", w.name(fmt)));
    match (r1, r2) {
        (Ok(Ok(_)), Ok(Ok(_))) => {
            if fmt != Fmt::Parquet {
                let (a, b) = (std::fs::read(&p).unwrap_or_default(), std::fs::read(&q).unwrap_or_default());
                if a != b && env.healthy() {
                    cx.oracle_fail(idx, "overwrite-keeps-old-content", format!("file written over an existing longer file has {} bytes, over a fresh path {} bytes", a.len(), b.len()));
                }
            }
            match guarded(|| read_whole::<R>(fmt, &p)) {
                Ok(Ok(v)) if same(&v, data) => {}
                Ok(Ok(v)) => cx.oracle_fail(idx, diff_sig(fmt, &v, data, "overwrite-keeps-old-content"), format!("read back {} records, wrote {}", v.len(), data.len())),
                other => cx.oracle_fail(idx, "overwrite-keeps-old-content", format!("unreadable after overwrite: {:?}", other.map(|r| r.map(|v| v.len()).map_err(|e| format!("{e:#}"))))),
            }
        }
        (a, b) => cx.oracle_fail(idx, "writer-fails-on-existing-target", format!("over existing: {:?}; fresh: {:?}", a.map(|r| r.map_err(|e| format!("{e:#}"))), b.map(|r| r.map_err(|e| format!("{e:#}"))))),
    }
    env.wipe_files();
}

/// every writer below a directory that does not exist yet
fn mkdir_cases(cx: &mut Ctx, env: &mut Env) {
    let data: Vec<Rec> = gen_recs::<Rec>(cx, 3, true);
    let mut outcome: Vec<(String, bool)> = vec![];
    for (fmt, ws) in [
        (Fmt::Jsonl, vec![Writer::SeqVec, Writer::SeqPc, Writer::ParFn, Writer::ParPc]),
        (Fmt::CsvH, vec![Writer::SeqVec, Writer::SeqPc, Writer::ParFn, Writer::ParPc]),
        (Fmt::Parquet, vec![Writer::SeqVec, Writer::SeqPc]),
    ] {
        for w in ws {
            env.k += 1;
            let top = env.root().join(format!("missing{}", env.k));
            let path = top.join("sub").join(format!("f.{}", fmt.ext()));
            let r = guarded(|| w.run(fmt, &path, &data, Some(2)));
            if !env.healthy() {
                let _ = env.own::<(), _>(cx, "temp dir unusable during the missing-parent cases", Err("probe failed"));
                return;
            }
            let ok = matches!(r, Ok(Ok(_)));
            let name = w.name(fmt);
            let idx = cx.case(format!("MKDIR {name}"), if ok { "OK".into() } else if r.is_err() { "PANIC".into() } else { "ERR".into() }, true);
            cx.count(&format!("mkdir:{name}:{}", if ok { "ok" } else { "err" }));
            if ok {
                match guarded(|| read_whole::<Rec>(fmt, &path)) {
                    Ok(Ok(v)) if same(&v, &data) => {}
                    other => cx.oracle_fail(idx, "roundtrip-differs", format!("written below a fresh directory, read back {:?}", other.map(|r| r.map(|v| v.len()).map_err(|e| format!("{e:#}"))))),
                }
            }
            if let Err(m) = &r {
                cx.oracle_fail(idx, "writer-panics-below-missing-dir", m.clone());
            }
            outcome.push((name, ok));
            let _ = std::fs::remove_dir_all(&top);
        }
    }
    // the property's clause: the parallel writer's file == the sequential writer's file — so where the sequential
    // writer succeeds the parallel one must, too
    for (par, seq) in [("write_jsonl_par", "write_jsonl_vec"), ("write_csv_par", "write_csv_vec"), ("pc_write_jsonl_par", "pc_write_jsonl"), ("pc_write_csv_par", "pc_write_csv")] {
        let get = |n: &str| outcome.iter().position(|x| x.0 == n);
        if let (Some(pi), Some(si)) = (get(par), get(seq)) {
            if outcome[si].1 && !outcome[pi].1 {
                let idx = cx.reqs.iter().position(|r| r == &format!("MKDIR {par}")).unwrap_or(0);
                cx.oracle_fail(idx, "par-writer-fails-below-missing-dir-where-seq-succeeds", format!("{par} fails below a missing directory, {seq} creates it and succeeds"));
            }
        }
    }
}

/// two parallel writes at the same time to targets of the same NAME in different directories
fn concurrent_case(cx: &mut Ctx, env: &mut Env, n: usize, shards: usize) {
    env.k += 1;
    let (da, db) = (env.root().join(format!("ca{}", env.k)), env.root().join(format!("cb{}", env.k)));
    if env.own(cx, "create dirs for the concurrent case", std::fs::create_dir_all(&da).and_then(|()| std::fs::create_dir_all(&db))).is_none() {
        return;
    }
    let a: Vec<Rec> = gen_recs::<Rec>(cx, n, true);
    let mut b: Vec<Rec> = gen_recs::<Rec>(cx, n + 3, true);
    for r in &mut b {
        r.id += 500_000;
    }
    let (pa, pb) = (da.join("out.jsonl"), db.join("out.jsonl"));
    let barrier = std::sync::Barrier::new(2);
    let (ra, rb) = std::thread::scope(|s| {
        let h1 = s.spawn(|| {
            barrier.wait();
            guarded(|| write_jsonl_par(&pa, &a, Some(shards)))
        });
        let h2 = s.spawn(|| {
            barrier.wait();
            guarded(|| write_jsonl_par(&pb, &b, Some(shards)))
        });
        (h1.join().unwrap_or(Err("join".into())), h2.join().unwrap_or(Err("join".into())))
    });
    if !env.healthy() {
        let _ = env.own::<(), _>(cx, "temp dir unusable during the concurrent case", Err("probe failed"));
        return;
    }
    let idx = cx.case(format!("ORACLE-ONLY concurrent-par-writers jsonl n={n}/{} shards={shards}", n + 3), "-".into(), true);
    cx.count("concurrent:two-jsonl-par-writers");
    let ok = |r: &Result<anyhow::Result<usize>, String>| matches!(r, Ok(Ok(_)));
    if !ok(&ra) || !ok(&rb) {
        cx.oracle_fail(idx, "concurrent-par-writers-disturb-each-other", format!("a: {:?}, b: {:?}", ra.map(|r| r.map_err(|e| format!("{e:#}"))), rb.map(|r| r.map_err(|e| format!("{e:#}")))));
    } else {
        let back_a = guarded(|| read_jsonl_vec::<Rec>(&pa));
        let back_b = guarded(|| read_jsonl_vec::<Rec>(&pb));
        let good = matches!(&back_a, Ok(Ok(v)) if same(v, &a)) && matches!(&back_b, Ok(Ok(v)) if same(v, &b));
        if !good {
            cx.oracle_fail(idx, "concurrent-par-writers-disturb-each-other", "two write_jsonl_par calls running at the same time on different directories: a file does not read back as written".into());
        }
    }
    let _ = std::fs::remove_dir_all(&da);
    let _ = std::fs::remove_dir_all(&db);
}

// ---------------------------------------------------------------- CSVRD: byte-level CSV, classified by construction

#[derive(Clone, Debug)]
enum Tok {
    Good(i64),
    Bad,
    Ragged,
}
impl Tok {
    fn show(&self) -> String {
        match self {
            Tok::Good(v) => format!("g{v}"),
            Tok::Bad => "b".into(),
            Tok::Ragged => "r".into(),
        }
    }
}

/// `records`: (text without terminator, class); `seps[k]` terminates record k (`""` = unterminated, last only);
/// blank lines are carried as records with class `None`
fn csvrd_case(cx: &mut Ctx, env: &mut Env, bom: bool, lines: &[(String, Option<Tok>, &'static str)], hdr: bool, per: usize) {
    type T = (String, i64);
    let mut bytes: Vec<u8> = vec![];
    if bom {
        bytes.extend_from_slice("\u{feff}".as_bytes());
    }
    for (text, _, sep) in lines {
        bytes.extend_from_slice(text.as_bytes());
        bytes.extend_from_slice(sep.as_bytes());
    }
    let toks: Vec<&Tok> = lines.iter().filter_map(|l| l.1.as_ref()).collect();
    let path = env.fresh("csv");
    if env.own(cx, "write CSV bytes", std::fs::write(&path, &bytes)).is_none() {
        return;
    }
    let req = format!("CSVRD {} {per} {}", u8::from(hdr), join(toks.iter().map(|t| t.show()), ","));
    let Ok(Ok(shards)) = guarded(|| build_csv_shards(&path, hdr, per)) else {
        if env.healthy() && path.exists() {
            let idx = cx.case(req, "BUILD-FAILED".into(), false);
            cx.oracle_fail(idx, "streamed-read-panics", format!("build_csv_shards failed on a readable file: {}", hex(&bytes)));
        }
        return;
    };
    let ops = CsvVecOps::<T>::new();
    let p = Pipeline::default();
    let seq = guarded(|| read_csv_streaming::<T>(&p, &path, hdr, per).and_then(|pc| pc.collect_seq()));
    let p2 = Pipeline::default();
    let parts_n = 1 + cx.rng.below(5);
    let par = guarded(|| read_csv_streaming::<T>(&p2, &path, hdr, per).and_then(|pc| pc.collect_par(None, Some(parts_n))));
    let vec = read_csv_vec::<T>(&path, hdr);
    let split: Option<Vec<Vec<T>>> = guarded(|| ops.split(&shards, 3)).ok().flatten().and_then(|ps| ps.into_iter().map(|p| p.downcast::<Vec<T>>().ok().map(|b| *b)).collect());
    let ids = |v: &Vec<T>| join(v.iter().map(|x| x.1), ",");
    let seq_s = match &seq {
        Ok(Ok(v)) => format!("OK {}", ids(v)),
        Ok(Err(_)) => "ERR".into(),
        Err(_) => "PANIC".into(),
    };
    let par_s = match (&split, &par) {
        (Some(parts), Ok(Ok(_))) => format!("OK {}", join(parts.iter().map(&ids), "|")),
        (None, Ok(Ok(v))) => format!("FALLBACK {}", ids(v)),
        (_, Ok(Err(_))) => "ERR".into(),
        (_, Err(_)) => "PANIC".into(),
    };
    let vec_s = match &vec {
        Ok(v) => format!("OK {}", ids(v)),
        Err(_) => "ERR".into(),
    };
    let idx = cx.case(req, format!("T{} R{} SEQ {seq_s} PAR {par_s} VEC {vec_s}", shards.total_rows, fmt_ranges(&shards.ranges)), shards.ranges.len() >= 2);
    cx.count(if vec.is_ok() { "csvrd:wellformed" } else { "csvrd:malformed" });
    if toks.iter().any(|t| matches!(t, Tok::Ragged)) {
        cx.count("csvrd:with-ragged-row");
    }
    if !tiles(&shards.ranges, shards.total_rows) {
        cx.oracle_fail(idx, "shards-do-not-tile", format!("{:?} total {}", shards.ranges, shards.total_rows));
    }
    if let Ok(whole) = &vec {
        let ok_seq = matches!(&seq, Ok(Ok(v)) if v == whole);
        let ok_par = matches!(&par, Ok(Ok(v)) if v == whole);
        let ok_split = split.as_ref().is_some_and(|ps| &ps.concat() == whole);
        if !(ok_seq && ok_par && ok_split) {
            cx.oracle_fail(idx, "streamed-differs-from-whole", format!("csv bytes {}: whole={whole:?} seq_ok={ok_seq} par_ok={ok_par} split_ok={ok_split}", hex(&bytes)));
        }
    } else if matches!(&seq, Ok(Ok(_))) || matches!(&par, Ok(Ok(_))) {
        // the whole read fails: the streamed views must not "succeed" with something else
        cx.oracle_fail(idx, "streamed-differs-from-whole", format!("read_csv_vec fails but the streamed read returns seq={seq_s} par={par_s} (csv bytes {})", hex(&bytes)));
    }
    let _ = std::fs::remove_file(&path);
}

/// CSV whose header lists the columns in ANOTHER order than the record type declares its fields: serde binds struct
/// fields BY NAME when the header row is used, so the whole read (`read_csv_vec`, header-driven) and every streamed view
/// must return the same records (round-4 seeded change C09-6: a streamed reader that deserialises rows positionally).
/// Oracle only: the request names the permutation, the answer is `-`.
#[derive(Clone, Debug, PartialEq, Serialize, Deserialize)]
struct Named { first: String, last: String, age: i64 }
fn csv_header_order_case(cx: &mut Ctx, env: &mut Env, perm: [usize; 3], n: usize, per: usize) {
    let cols = ["first", "last", "age"];
    let recs: Vec<Named> = (0..n).map(|i| Named { first: format!("f{i}"), last: format!("l{}", i * 7 % 5), age: i as i64 * 3 - 4 }).collect();
    let mut text = format!("{},{},{}\n", cols[perm[0]], cols[perm[1]], cols[perm[2]]);
    for r in &recs {
        let f = [r.first.clone(), r.last.clone(), r.age.to_string()];
        text.push_str(&format!("{},{},{}\n", f[perm[0]], f[perm[1]], f[perm[2]]));
    }
    let path = env.fresh("csv");
    if env.own(cx, "write CSV bytes", std::fs::write(&path, text.as_bytes())).is_none() { return; }
    let idx = cx.case(format!("ORACLE-ONLY csv-header-order perm={}{}{} n={n} per={per}", perm[0], perm[1], perm[2]), "-".into(), n >= 2);
    cx.count("csvhdr:cases");
    let whole = read_csv_vec::<Named>(&path, true);
    let p = Pipeline::default();
    let seq = guarded(|| read_csv_streaming::<Named>(&p, &path, true, per).and_then(|pc| pc.collect_seq()));
    let p2 = Pipeline::default();
    let par = guarded(|| read_csv_streaming::<Named>(&p2, &path, true, per).and_then(|pc| pc.collect_par(None, Some(3))));
    let ok = |r: &Result<anyhow::Result<Vec<Named>>, String>| matches!(r, Ok(Ok(v)) if *v == recs);
    if !matches!(&whole, Ok(v) if *v == recs) {
        cx.oracle_fail(idx, "roundtrip-differs", format!("read_csv_vec of a header-named file: {whole:?} expected {recs:?}"));
    } else if !(ok(&seq) && ok(&par)) {
        cx.oracle_fail(idx, "streamed-differs-from-whole", format!("header order {perm:?}: whole read binds fields by name, streamed seq_ok={} par_ok={}", ok(&seq), ok(&par)));
    }
    let _ = std::fs::remove_file(&path);
}

fn gen_csv_lines(cx: &mut Ctx, malformed: bool) -> (bool, Vec<(String, Option<Tok>, &'static str)>) {
    let n = cx.rng.below(9);
    let mut out: Vec<(String, Option<Tok>, &'static str)> = vec![];
    let mut have_record = false;
    for k in 0..n {
        let id: i64 = match cx.rng.below(8) {
            0 => i64::MAX,
            1 => i64::MIN,
            _ => cx.rng.range(-50, 50),
        };
        let first = !have_record;
        let (text, tok): (String, Option<Tok>) = match cx.rng.below(16) {
            0 => (String::new(), None), // blank line: not a record
            1 if malformed && !first => ((*cx.rng.pick(&["a", "a,1,2", "  ", "\"x,y\""])).to_string(), Some(Tok::Ragged)),
            2 if malformed => (format!("a,{}", cx.rng.pick(&["x", "", " 5", "5.0", "9223372036854775808", "1e3"])), Some(Tok::Bad)),
            3 if first => ("s,id".to_string(), Some(Tok::Bad)), // a header line (class as DATA: not an integer)
            4 => (format!("\"a,b\",{id}"), Some(Tok::Good(id))),
            5 => (format!("\"x\ny\",{id}"), Some(Tok::Good(id))),
            6 => (format!("\"q\"\"q\",{id}"), Some(Tok::Good(id))),
            7 => (format!("#c,{id}"), Some(Tok::Good(id))),
            8 => (format!(",{id}"), Some(Tok::Good(id))),
            9 => (format!("\"x\r\ny\",{id}"), Some(Tok::Good(id))),
            10 => (format!(" lead \u{e9},{id}"), Some(Tok::Good(id))),
            _ => (format!("w{k},{id}"), Some(Tok::Good(id))),
        };
        if tok.is_some() {
            have_record = true;
        }
        let last = k + 1 == n;
        let sep = match cx.rng.below(8) {
            0 => "\r\n",
            1 if last && tok.is_some() => "",
            2 => "\r",
            _ => "\n",
        };
        out.push((text, tok, sep));
    }
    (cx.rng.chance(1, 8), out)
}

// ---------------------------------------------------------------- PQBAD: undecodable / vanished Parquet

#[derive(Clone, Debug, Serialize, Deserialize)]
struct Other {
    x: String,
}

fn pqbad_case(cx: &mut Ctx, env: &mut Env, sizes: &[usize], per: usize, gone: bool) {
    let path = env.fresh("parquet");
    let total: usize = sizes.iter().sum();
    let wrote = if gone {
        let data: Vec<Rec> = gen_recs::<Rec>(cx, total, false);
        write_parquet_groups(&path, &data, sizes)
    } else {
        let data: Vec<Other> = (0..total).map(|k| Other { x: format!("x{k}") }).collect();
        write_parquet_groups(&path, &data, sizes)
    };
    if env.own(cx, "parquet fixture", wrote).is_none() {
        return;
    }
    let kind = if gone { "gone" } else { "schema" };
    let req = format!("PQBAD {} {per} {kind}", join(sizes.iter(), ","));
    let Ok(Ok(shards)) = guarded(|| build_parquet_shards(&path, per)) else {
        if env.healthy() && path.exists() {
            let idx = cx.case(req, "BUILD-FAILED".into(), false);
            cx.oracle_fail(idx, "streamed-read-panics", "build_parquet_shards failed on a well-formed file".into());
        }
        return;
    };
    // the sources are built while the file is there; they are read afterwards
    let (p1, p2) = (Pipeline::default(), Pipeline::default());
    let s1 = guarded(|| read_parquet_streaming::<Rec>(&p1, &path, per));
    let s2 = guarded(|| read_parquet_streaming::<Rec>(&p2, &path, per));
    if gone && env.own(cx, "remove parquet fixture", std::fs::remove_file(&path)).is_none() {
        return;
    }
    let ops = ParquetVecOps::<Rec>::new();
    let split = guarded(|| ops.split(&shards, 3)).ok().flatten().map(|ps| ps.into_iter().map(|p| p.downcast::<Vec<Rec>>().map_or(0, |v| v.len())).collect::<Vec<usize>>());
    let seq = guarded(|| match s1 {
        Ok(Ok(pc)) => pc.collect_seq(),
        _ => Err(anyhow::anyhow!("source not built")),
    });
    let par = guarded(|| match s2 {
        Ok(Ok(pc)) => pc.collect_par(None, Some(3)),
        _ => Err(anyhow::anyhow!("source not built")),
    });
    let vec = guarded(|| read_parquet_vec::<Rec>(&path));
    let show = |r: &Result<anyhow::Result<Vec<Rec>>, String>| match r {
        Ok(Ok(v)) => format!("OK {}", v.len()),
        Ok(Err(_)) => "ERR".to_string(),
        Err(_) => "PANIC".to_string(),
    };
    let ans = format!("R{} SPLIT {} SEQ {} PAR {} VEC {}", fmt_ranges(&shards.group_ranges), split.as_ref().map_or("NONE".to_string(), |s| join(s.iter(), ",")), show(&seq), show(&par), show(&vec));
    let idx = cx.case(req, ans, sizes.len() >= 2);
    cx.count(&format!("pqbad:{kind}"));
    // whole read fails on a file with rows: no streamed view may "succeed" with something else
    if total > 0 && !matches!(&vec, Ok(Ok(_))) && (matches!(&seq, Ok(Ok(_))) || matches!(&par, Ok(Ok(_))) || split.is_some()) {
        cx.oracle_fail(idx, "streamed-differs-from-whole", format!("read_parquet_vec fails ({kind}) but a streamed view succeeds: split={split:?} seq={} par={}", show(&seq), show(&par)));
    }
    let _ = std::fs::remove_file(&path);
}

/// garbage / truncated Parquet and invalid UTF-8 JSONL: an error, never a panic, never data
fn hostile_files(cx: &mut Ctx, env: &mut Env) {
    // FIXED content (independent of the seed): what a third-party decoder does with a mangled file must not vary between runs
    let good: Vec<Rec> = (0..6u64).map(|k| Rec { id: k, s: format!("row {k}"), i: k as i64 * 3 - 5, f: k as f64 * 0.25 }).collect();
    let src = env.fresh("parquet");
    if !matches!(guarded(|| write_parquet_vec(&src, &good)), Ok(Ok(_))) {
        env.real_writer_failed(cx, "ORACLE-ONLY hostile-parquet-prepare".into(), "write_parquet_vec failed on a fresh path".into());
        return;
    }
    let Some(full) = env.own(cx, "read parquet fixture", std::fs::read(&src)) else { return };
    let variants: Vec<(&str, Vec<u8>)> = vec![
        ("empty", vec![]),
        ("garbage", b"this is not a parquet file at all, just text\n".to_vec()),
        ("magic-only", b"PAR1PAR1".to_vec()),
        ("truncated-tail", full[..full.len().saturating_sub(9)].to_vec()),
        ("truncated-head", full[full.len() / 2..].to_vec()),
    ];
    for (name, bytes) in variants {
        let p = env.fresh("parquet");
        if env.own(cx, "write hostile parquet", std::fs::write(&p, &bytes)).is_none() {
            return;
        }
        let v = guarded(|| read_parquet_vec::<Rec>(&p));
        let pl = Pipeline::default();
        let s = guarded(|| read_parquet_streaming::<Rec>(&pl, &p, 1).and_then(|pc| pc.collect_seq()));
        let idx = cx.case(format!("ORACLE-ONLY hostile-parquet {name}"), "-".into(), true);
        cx.count("hostile:parquet");
        for (what, r) in [("read_parquet_vec", &v), ("read_parquet_streaming", &s)] {
            match r {
                Err(m) => cx.oracle_fail(idx, "hostile-file-panics", format!("{what} on a {name} file: {m}")),
                Ok(Ok(rows)) if !rows.is_empty() => cx.oracle_fail(idx, "hostile-file-yields-records", format!("{what} on a {name} file returned {} records", rows.len())),
                _ => {}
            }
        }
        let _ = std::fs::remove_file(&p);
    }
    let _ = std::fs::remove_file(&src);
    for (name, bytes) in [("bad-line-first", b"\xff\xfe\n1\n2\n".to_vec()), ("bad-line-last", b"1\n2\n\xc3\x28\n".to_vec()), ("bad-line-middle", b"1\n\x80\n3\n".to_vec())] {
        let p = env.fresh("jsonl");
        if env.own(cx, "write invalid UTF-8 JSONL", std::fs::write(&p, &bytes)).is_none() {
            return;
        }
        let v = guarded(|| read_jsonl_vec::<i64>(&p));
        let b = guarded(|| build_jsonl_shards(&p, 1).map(|s| s.total_lines));
        let idx = cx.case(format!("ORACLE-ONLY invalid-utf8-jsonl {name}"), "-".into(), true);
        cx.count("hostile:invalid-utf8-jsonl");
        if v.is_err() || b.is_err() {
            cx.oracle_fail(idx, "hostile-file-panics", format!("invalid UTF-8 line: vec={:?} build={:?}", v.map(|r| r.is_ok()), b.map(|r| r.is_ok())));
        } else if matches!(&v, Ok(Ok(_))) != matches!(&b, Ok(Ok(_))) {
            cx.oracle_fail(idx, "streamed-differs-from-whole", format!("invalid UTF-8 line: read_jsonl_vec ok={} but build_jsonl_shards ok={}", matches!(&v, Ok(Ok(_))), matches!(&b, Ok(Ok(_)))));
        }
        let _ = std::fs::remove_file(&p);
    }
}

// ---------------------------------------------------------------- WRJSONL: the writers' bytes for i64 records

fn wrjsonl_case(cx: &mut Ctx, env: &mut Env, vals: &Vec<i64>, shards: Option<usize>) {
    let (a, b) = (env.fresh("jsonl"), env.fresh("jsonl"));
    let r1 = guarded(|| write_jsonl_vec(&a, vals));
    env.take_log("");
    let r2 = guarded(|| write_jsonl_par(&b, vals, shards));
    let count = env.take_log("write_jsonl_par").len();
    if (matches!(&r1, Ok(Err(_))) || matches!(&r2, Ok(Err(_)))) && !env.healthy() {
        let _ = env.own::<(), _>(cx, "JSONL writer and the probe write both failed", Err("write error"));
        return;
    }
    settle_auto(cx, env, Fmt::Jsonl, shards, vals.len(), count, matches!(&r2, Ok(Ok(_))));
    let show = |r: &Result<anyhow::Result<usize>, String>, p: &Path| match r {
        Ok(Ok(_)) => match std::fs::read(p) {
            Ok(bytes) if bytes.is_empty() => "-".to_string(),
            Ok(bytes) => hex(&bytes),
            Err(_) => "UNREADABLE".to_string(),
        },
        Ok(Err(_)) => "ERR".to_string(),
        Err(_) => "PANIC".to_string(),
    };
    let (sa, sb) = (show(&r1, &a), show(&r2, &b));
    let idx = cx.case(format!("WRJSONL {} {} auto={}", join(vals.iter(), ","), opt_shards(shards), env.auto_jsonl), format!("SEQ {sa} PAR {sb}"), vals.len() >= 2);
    cx.count("wrjsonl");
    if sa != sb {
        cx.oracle_fail(idx, "par-file-differs-from-seq-file", format!("write_jsonl_vec: {sa}, write_jsonl_par: {sb}"));
    }
    match guarded(|| read_jsonl_vec::<i64>(&b)) {
        Ok(Ok(v)) if &v == vals => {}
        other => cx.oracle_fail(idx, "par-file-reads-back-differently", format!("{:?}", other.map(|r| r.map_err(|e| format!("{e:#}"))))),
    }
    env.wipe_files();
}

// ---------------------------------------------------------------- RDHELPER: glob branch or literal file

fn rdhelper_cases(cx: &mut Ctx, env: &mut Env, fmt: Fmt) {
    env.k += 1;
    let root = env.root().join(format!("h{}", env.k));
    if env.own(cx, "create helper fixture dir", std::fs::create_dir_all(&root)).is_none() {
        return;
    }
    let ext = fmt.ext();
    // (file name, records, id base)
    let files: Vec<(String, usize, u64)> = vec![(format!("out[1].{ext}"), 3, 1_000_000), (format!("out1.{ext}"), 2, 0), (format!("outA.{ext}"), 1, 1000)];
    for (name, cnt, base) in &files {
        let mut recs: Vec<RecS> = gen_recs::<RecS>(cx, *cnt, fmt.is_csv());
        for (j, r) in recs.iter_mut().enumerate() {
            r.set_id(base + j as u64);
        }
        if !matches!(guarded(|| write_seq(fmt, &root.join(name), &recs)), Ok(Ok(_))) {
            env.real_writer_failed(cx, format!("RDHELPER fixture {name}"), "sequential writer failed".into());
            let _ = std::fs::remove_dir_all(&root);
            return;
        }
    }
    // (requested name, literal file (count), glob members in spec order (name, count))
    let o1 = format!("out1.{ext}");
    let oa = format!("outA.{ext}");
    let scen: Vec<(String, Option<usize>, Vec<(&str, usize)>)> = vec![
        (o1.clone(), Some(2), vec![]),
        (format!("out[1].{ext}"), Some(3), vec![(o1.as_str(), 2)]),
        (format!("out?.{ext}"), None, vec![(o1.as_str(), 2), (oa.as_str(), 1)]),
        (format!("out[A1].{ext}"), None, vec![(oa.as_str(), 1), (o1.as_str(), 2)]),
        (format!("nomatch*.{ext}"), None, vec![]),
        (format!("missing.{ext}"), None, vec![]),
    ];
    for (name, lit, members) in scen {
        let full = root.join(&name);
        let p = Pipeline::default();
        let got = guarded(|| match fmt {
            Fmt::Jsonl => read_jsonl::<RecS>(&p, &full).and_then(|pc| pc.collect_seq()),
            _ => read_csv::<RecS>(&p, &full, fmt.hdr()).and_then(|pc| pc.collect_seq()),
        });
        // the literal file of this scenario is the one whose name IS the requested name
        let lit_base = files.iter().find(|f| f.0 == name).map(|f| f.2);
        let owner = |id: u64| -> String {
            if let Some(b) = lit_base {
                if id >= b && id < b + 1000 {
                    return "L".into();
                }
            }
            for (j, (m, _)) in members.iter().enumerate() {
                if let Some(f) = files.iter().find(|f| f.0 == *m) {
                    if id >= f.2 && id < f.2 + 1000 {
                        return j.to_string();
                    }
                }
            }
            "?".into()
        };
        let ans = match &got {
            Ok(Ok(v)) => format!("N{} I{}", v.len(), join(v.iter().map(|r| owner(r.id())), ",")),
            Ok(Err(_)) => "ERR".to_string(),
            Err(_) => "PANIC".to_string(),
        };
        let req = format!("RDHELPER {} lit={} glob={}", hex(name.as_bytes()), lit.map_or("-".to_string(), |c| c.to_string()), join(members.iter().map(|(m, c)| format!("{m}:{c}")), ","));
        let idx = cx.case(req, ans, true);
        cx.count(&format!("rdhelper:{}", fmt.name()));
        if lit.is_some() && name.contains('[') {
            cx.count("rdhelper:existing-file-whose-name-is-a-pattern (read as a pattern, documented dispatch)");
        }
        if let Err(m) = &got {
            cx.oracle_fail(idx, "helper-read-panics", m.clone());
        }
    }
    let _ = std::fs::remove_dir_all(&root);
}

// ---------------------------------------------------------------- blocks

pub fn corpus(cx: &mut Ctx, env: &mut Env) {
    // the seeded miss of round 3: (5 rows, 4 shards) leaves the trailing shard empty; a stale part3 from an earlier
    // interrupted run must not survive into the output
    let d5: Vec<Rec> = gen_recs::<Rec>(cx, 5, true);
    parfs_case(cx, env, Fmt::Jsonl, &d5, Some(4), &[(3, 2)], None, None);
    parfs_case(cx, env, Fmt::Jsonl, &d5, Some(4), &[], None, Some((12, 4)));
    parfs_case(cx, env, Fmt::Jsonl, &d5, Some(4), &[(0, 1), (1, 0), (2, 3), (3, 1), (4, 2), (9, 1)], Some(20), None);
    parfs_case(cx, env, Fmt::CsvH, &d5, Some(4), &[(0, 1), (3, 2)], Some(20), None);
    let d17: Vec<RecS> = gen_recs::<RecS>(cx, 17, true);
    parfs_case(cx, env, Fmt::Jsonl, &d17, Some(16), &[(15, 1), (14, 1), (16, 1)], Some(1), Some((40, 16)));
    let d0: Vec<RecO> = vec![];
    parfs_case(cx, env, Fmt::Jsonl, &d0, Some(3), &[(0, 2), (1, 1)], Some(4), None);
    parfs_case(cx, env, Fmt::Csv, &d0, None, &[(0, 2)], Some(4), None);
    // every writer over an existing longer file
    for fmt in [Fmt::Jsonl, Fmt::Csv, Fmt::CsvH] {
        for w in [Writer::SeqVec, Writer::SeqPc, Writer::ParFn, Writer::ParPc] {
            let d: Vec<Rec> = gen_recs::<Rec>(cx, 4, true);
            overwrite_case(cx, env, fmt, w, &d, Some(3));
        }
    }
    for w in [Writer::SeqVec, Writer::SeqPc] {
        let d: Vec<RecO> = gen_recs::<RecO>(cx, 4, false);
        overwrite_case(cx, env, Fmt::Parquet, w, &d, None);
    }
    mkdir_cases(cx, env);
    hostile_files(cx, env);
    rdhelper_cases(cx, env, Fmt::Jsonl);
    rdhelper_cases(cx, env, Fmt::CsvH);
    // design witnesses of the byte-level CSV reader
    let g = |s: &str, v: i64, sep: &'static str| (s.to_string(), Some(Tok::Good(v)), sep);
    csvrd_case(cx, env, false, &[g("a,1", 1, "\n"), ("".into(), None, "\n"), g("\"x\ny\",2", 2, "\r\n"), ("a".into(), Some(Tok::Ragged), "\n"), g("#c,3", 3, "")], false, 2);
    csvrd_case(cx, env, true, &[("s,id".into(), Some(Tok::Bad), "\n"), g("a,1", 1, "\n"), ("b,x".into(), Some(Tok::Bad), "\n"), g("c,3", 3, "\n")], true, 1);
    csvrd_case(cx, env, false, &[("s,id".into(), Some(Tok::Bad), "\n")], true, 3);
    csvrd_case(cx, env, false, &[], false, 1);
    csvrd_case(cx, env, false, &[], true, 0);
    for perm in [[0usize, 1, 2], [1, 0, 2], [2, 1, 0], [1, 2, 0]] {
        for (n, per) in [(0usize, 1usize), (1, 1), (5, 2), (7, 100)] { csv_header_order_case(cx, env, perm, n, per); }
    }
    for (sizes, per) in [(vec![2usize, 1, 3], 1usize), (vec![2, 1, 3], 2), (vec![4], 0), (vec![], 1)] {
        pqbad_case(cx, env, &sizes, per, false);
        pqbad_case(cx, env, &sizes, per, true);
    }
    wrjsonl_case(cx, env, &vec![0, -1, i64::MAX, i64::MIN, 10, -10, 100], Some(3));
    wrjsonl_case(cx, env, &vec![], Some(2));
    wrjsonl_case(cx, env, &vec![7], None);
    for _ in 0..3 {
        concurrent_case(cx, env, 1500, 8);
    }
}

pub fn exhaustive(cx: &mut Ctx, env: &mut Env) {
    // stale part files at EVERY index 0..=9 (beyond any shard count used) and an older target, for all small (rows, shards)
    let top = if cx.tier == crate::ctx::Tier::Thorough { 10 } else { 7 };
    let pre: Vec<(usize, usize)> = (0..10).map(|i| (i, 1 + i % 3)).collect();
    for n in 0..top {
        let data: Vec<RecS> = gen_recs::<RecS>(cx, n, true);
        for s in (0..=top + 1).map(Some).chain([None]) {
            parfs_case(cx, env, Fmt::Jsonl, &data, s, &pre, Some(n + 4), None);
            if s.is_none_or(|x| x % 3 == 0) {
                parfs_case(cx, env, if n % 2 == 0 { Fmt::CsvH } else { Fmt::Csv }, &data, s, &pre, Some(n + 4), None);
            }
        }
    }
    cx.exhaustive_blocks.push(format!("PARFS: write_jsonl_par for all (rows, shards) in 0..{top} x (0..={} + None) in a directory holding stale part files at every index 0..=9 and an older, longer target (write_csv_par: every third shard count)", top + 1));
}

pub fn random_round<R: RecT>(cx: &mut Ctx, env: &mut Env, _round: usize, data: &Vec<R>) {
    let n = data.len().min(40);
    let small: Vec<R> = data[..n].to_vec();
    if cx.rng.chance(1, 3) {
        let fmt = *cx.rng.pick(&[Fmt::Jsonl, Fmt::Jsonl, Fmt::Csv, Fmt::CsvH]);
        let mut cands = vec![None, Some(0), Some(1), Some(2), Some(3), Some(n), Some(n + 1), Some(2 * n + 3)];
        if n > 0 {
            cands.push(Some(n - 1));
        }
        let s = *cx.rng.pick(&cands);
        let hi = s.unwrap_or(env.auto_jsonl).min(n.max(1)) + 3;
        let mut pre: Vec<(usize, usize)> = vec![];
        for i in 0..hi {
            if cx.rng.chance(1, 2) {
                pre.push((i, cx.rng.below(4)));
            }
        }
        let tgt = if cx.rng.chance(1, 2) { Some(cx.rng.below(3 * n + 4)) } else { None };
        let history = if fmt == Fmt::Jsonl && cx.rng.chance(1, 3) { Some((2 + cx.rng.below(30), 1 + cx.rng.below(9))) } else { None };
        parfs_case(cx, env, fmt, &small, s, &pre, tgt, history);
    }
    if cx.rng.chance(1, 8) {
        let fmt = *cx.rng.pick(&[Fmt::Jsonl, Fmt::Csv, Fmt::CsvH, Fmt::Parquet]);
        let w = if fmt == Fmt::Parquet { *cx.rng.pick(&[Writer::SeqVec, Writer::SeqPc]) } else { *cx.rng.pick(&[Writer::SeqVec, Writer::SeqPc, Writer::ParFn, Writer::ParPc]) };
        let s = *cx.rng.pick(&[None, Some(1), Some(2), Some(5)]);
        // (a CSV vector generated for JSONL may hold Some("") — regenerate for the format at hand)
        let d: Vec<R> = gen_recs::<R>(cx, n.min(12), fmt.is_csv());
        overwrite_case(cx, env, fmt, w, &d, s);
    }
    if cx.rng.chance(1, 2) {
        let malformed = cx.rng.chance(1, 3);
        let (bom, lines) = gen_csv_lines(cx, malformed);
        let hdr = cx.rng.chance(1, 2);
        let per = *cx.rng.pick(&[0usize, 1, 2, 3, 4, 100]);
        csvrd_case(cx, env, bom, &lines, hdr, per);
    }
    if cx.rng.chance(1, 6) {
        let k = cx.rng.below(12);
        let vals: Vec<i64> = (0..k).map(|_| gen_i64(cx)).collect();
        let s = *cx.rng.pick(&[None, Some(0), Some(1), Some(2), Some(3), Some(k), Some(k + 1), Some(usize::MAX)]);
        wrjsonl_case(cx, env, &vals, s);
    }
    if cx.rng.chance(1, 12) {
        let total = cx.rng.below(7);
        let mut sizes = vec![];
        let mut left = total;
        while left > 0 {
            let g = 1 + cx.rng.below(left);
            sizes.push(g);
            left -= g;
        }
        let per = cx.rng.below(sizes.len() + 2);
        let gone = cx.rng.chance(1, 2);
        pqbad_case(cx, env, &sizes, per, gone);
    }
}

#[derive(Clone, Debug, PartialEq, Serialize, Deserialize)]
struct Tiny {
    id: u32,
}

/// row groups of a file written by `write_parquet_vec` (ArrowWriter cuts at 1 Mi rows), and its round trip
fn pqgroups_case(cx: &mut Ctx, env: &mut Env, n: usize) {
    use ironbeam::io::parquet::read_parquet_row_group_range;
    let data: Vec<Tiny> = (0..n as u32).map(|id| Tiny { id }).collect();
    let path = env.fresh("parquet");
    if !matches!(guarded(|| write_parquet_vec(&path, &data)), Ok(Ok(_))) {
        env.real_writer_failed(cx, format!("PQGROUPS {n}"), "write_parquet_vec failed on a fresh path".into());
        return;
    }
    let sizes: Option<Vec<usize>> = guarded(|| {
        let meta = build_parquet_shards(&path, 1).ok()?;
        meta.group_ranges.iter().map(|&(a, b)| read_parquet_row_group_range::<Tiny>(&meta, a, b).ok().map(|v| v.len())).collect::<Option<Vec<usize>>>()
    })
    .ok()
    .flatten();
    let whole = guarded(|| read_parquet_vec::<Tiny>(&path));
    let idx = cx.case(format!("PQGROUPS {n}"), sizes.as_ref().map_or("UNREADABLE".to_string(), |s| join(s.iter(), ",")), n > 0);
    cx.count(if n > 1_048_576 { "pqgroups:>1Mi-rows" } else { "pqgroups" });
    match whole {
        Ok(Ok(v)) if v == data => {}
        other => cx.oracle_fail(idx, "roundtrip-differs", format!("{n} rows written, read back {:?}", other.map(|r| r.map(|v| v.len()).map_err(|e| format!("{e:#}"))))),
    }
    let _ = std::fs::remove_file(&path);
}

/// sizes where the record-batch logic of the readers lives: a shard above the reader's default batch (1024 rows),
/// a file above `read_parquet_vec`'s batch (65 536 rows); big JSONL / CSV files through both writers
pub fn big(cx: &mut Ctx, env: &mut Env) {
    let thorough = cx.tier == crate::ctx::Tier::Thorough;
    for n in [0usize, 1, 5000] {
        pqgroups_case(cx, env, n);
    }
    if thorough {
        pqgroups_case(cx, env, 1_048_576 + 5);
    }
    // (a) written by the crate: one row group of 70 000 rows
    let n = if thorough { 140_000 } else { 70_000 };
    let data: Vec<RecS> = (0..n as u64).map(|k| RecS { s: format!("r{k}"), id: k, b: k % 3 == 0, t: String::new() }).collect();
    let path = env.fresh("parquet");
    match guarded(|| write_parquet_vec(&path, &data)) {
        Ok(Ok(_)) => {
            let groups = real_group_sizes::<RecS>(&path).unwrap_or_else(|| vec![n]);
            stream_case_m(cx, Fmt::Parquet, &path, &data, 1, Some(&groups), true, false);
            cx.count("big:parquet-by-crate>65536-rows");
            let idx = cx.case(format!("PQGROUPS {n}"), join(groups.iter(), ","), true);
            if groups.iter().sum::<usize>() != n {
                cx.oracle_fail(idx, "roundtrip-differs", format!("row groups {groups:?} of a file written from {n} rows"));
            }
        }
        other => env.real_writer_failed(cx, format!("SHARDS parquetw {n} 1"), format!("{:?}", other.map(|r| r.map_err(|e| format!("{e:#}"))))),
    }
    let _ = std::fs::remove_file(&path);
    // (b) several row groups, some above 1024 rows, two groups per shard
    let sizes = [1500usize, 1, 2500, 1024, 1025, 3];
    let total: usize = sizes.iter().sum();
    let data: Vec<Rec> = (0..total as u64).map(|k| Rec { id: k, s: format!("r{k}"), i: k as i64 - 7, f: k as f64 * 0.5 }).collect();
    let path = env.fresh("parquet");
    if env.own(cx, "parquet fixture", write_parquet_groups(&path, &data, &sizes)).is_some() {
        let real = real_group_sizes::<Rec>(&path).unwrap_or_else(|| sizes.to_vec());
        for per in [1usize, 2, 4] {
            stream_case_m(cx, Fmt::Parquet, &path, &data, per, Some(&real), false, false);
        }
        cx.count("big:parquet-groups>1024-rows");
    }
    let _ = std::fs::remove_file(&path);
    // (c) JSONL / CSV files well above the 8 KiB buffers, through both writers and the streaming readers
    let n = 20_000usize;
    let data: Vec<RecS> = (0..n as u64).map(|k| RecS { s: if k % 97 == 0 { format!("multi\nline,\"{k}\"") } else { format!("r{k}") }, id: k, b: k % 2 == 0, t: " t ".into() }).collect();
    for (fmt, shards, per) in [(Fmt::Jsonl, Some(7usize), 4096usize), (Fmt::CsvH, None, 6000)] {
        let (par, seq) = (env.fresh(fmt.ext()), env.fresh(fmt.ext()));
        let r = guarded(|| write_par(fmt, &par, &data, shards, false));
        let r2 = guarded(|| write_seq(fmt, &seq, &data));
        if !(matches!(r, Ok(Ok(_))) && matches!(r2, Ok(Ok(_)))) {
            env.real_writer_failed(cx, format!("ORACLE-ONLY big-parwrite {}", fmt.name()), "a writer failed on 20 000 rows".into());
            continue;
        }
        let idx = cx.case(format!("ORACLE-ONLY big-parwrite {} n={n} shards={}", fmt.name(), opt_shards(shards)), "-".into(), true);
        cx.count("big:parwrite-20000-rows");
        if let (Some(a), Some(b)) = (env.own(cx, "read big file", std::fs::read(&par)), env.own(cx, "read big file", std::fs::read(&seq))) {
            if a != b {
                cx.oracle_fail(idx, "par-file-differs-from-seq-file", format!("{} vs {} bytes", a.len(), b.len()));
            }
        }
        stream_case_m(cx, fmt, &par, &data, per, None, true, false);
        env.wipe_files();
    }
}
