//! C16 — metrics never lose concurrent updates and never influence results.
//!
//! Requests (see lean/IbModel/Driver/D16.lean for the grammar):
//!   `METRICS init=… th=… sched=…`  one replayable interleaving, at lock granularity, of real OS threads
//!        calling the REAL `MetricsCollector` methods on one shared collector. The interleaving is forced by
//!        a cooperative scheduler installed as the `verif_hooks::yield_point` callback (there is a yield
//!        point immediately before every `.lock()` in src/metrics.rs): every managed thread parks at each
//!        yield point until the scheduler grants it, so exactly one thread runs between two grants and a
//!        schedule (list of thread ids) determines the execution. All complete schedules of a program are
//!        ENUMERATED by stateless depth-first search (re-execution with a longer forced prefix).
//!        Answer: final snapshot, elapsed present?, to_json keys, critical sections per call, complete?.
//!   `STRESS init=… threads=… per=… amounts=…`  free-running threads (no scheduler), final counter.
//!   `MRUN coll=0|1 pre=… runs=…`  real pipelines run through `Runner::run_collect` with / without a collector.
//!
//! Oracles (independent of the Lean model):
//!   * increment-only programs: final counter = initial + Σ increments            (`lost-update`)
//!   * any program: the final snapshot is one the REAL code produces when the same calls are made one
//!     after the other in some order that respects each thread's program order   (`non-serializable-outcome`)
//!   * every name registered / set / incremented is a key of `to_json()`         (`json-missing-registered-key`)
//!   * free-running stress: final = init + Σ                                    (`lost-update-free-running`)
//!   * result with a collector attached == result without                        (`collector-changed-result`)
//!   * after a successful run `elapsed()` is `Some`                              (`elapsed-missing-after-success`)

use crate::ctx::{Ctx, guarded};
use ironbeam::metrics::{CounterMetric, GaugeMetric, Metric, MetricsCollector};
use ironbeam::{ExecMode, NodeId, Pipeline, Runner, Sum, from_vec};
use std::cell::{Cell, RefCell};
use std::collections::{BTreeMap, BTreeSet, HashSet};
use std::sync::{Arc, Mutex, Once};

// ---------------------------------------------------------------------------------------------
// programs
// ---------------------------------------------------------------------------------------------

#[derive(Clone, Copy, Debug, PartialEq, Eq, Hash)]
enum Op {
    Inc(&'static str, u64),
    Set(&'static str, u64),
    RegC(&'static str, u64),
    RegG(&'static str, u64),
    St,
    En,
    El,
    Js,
    Sn,
}

#[derive(Clone, Copy, Debug, PartialEq, Eq, Hash)]
enum Val {
    C(u64),
    G(u64),
}

type Init = Vec<(&'static str, Val)>;
type Prog = Vec<Vec<Op>>;

fn enc_op(o: &Op) -> String {
    match o {
        Op::Inc(k, n) => format!("i:{k}:{n}"),
        Op::Set(k, n) => format!("s:{k}:{n}"),
        Op::RegC(k, n) => format!("rc:{k}:{n}"),
        Op::RegG(k, n) => format!("rg:{k}:{n}"),
        Op::St => "st".into(),
        Op::En => "en".into(),
        Op::El => "el".into(),
        Op::Js => "js".into(),
        Op::Sn => "sn".into(),
    }
}
fn enc_ops(ops: &[Op]) -> String {
    if ops.is_empty() { "-".into() } else { ops.iter().map(enc_op).collect::<Vec<_>>().join(",") }
}
fn enc_prog(p: &Prog) -> String {
    p.iter().map(|t| enc_ops(t)).collect::<Vec<_>>().join("/")
}
fn enc_init(i: &Init) -> String {
    if i.is_empty() {
        "-".into()
    } else {
        i.iter()
            .map(|(k, v)| match v { Val::C(n) => format!("{k}:c{n}"), Val::G(n) => format!("{k}:g{n}") })
            .collect::<Vec<_>>()
            .join(",")
    }
}
fn enc_sched(s: &[usize]) -> String {
    if s.is_empty() { "-".into() } else { s.iter().map(|x| x.to_string()).collect::<Vec<_>>().join(",") }
}

fn boxed(k: &str, v: Val) -> Box<dyn Metric> {
    match v {
        Val::C(n) => Box::new(CounterMetric::with_value(k, n)),
        Val::G(n) => Box::new(GaugeMetric::new(k, n as f64)),
    }
}

fn mk_collector(init: &Init) -> MetricsCollector {
    let mut c = MetricsCollector::new();
    // register_all is a loop over register
    c.register_all(init.iter().map(|(k, v)| boxed(k, *v)).collect());
    c
}

fn apply(c: &MetricsCollector, op: &Op) {
    match op {
        Op::Inc(k, n) => c.increment_counter(k, *n),
        Op::Set(k, n) => c.set_counter(k, *n),
        Op::RegC(k, n) => {
            let mut h = c.clone(); // clones share the inner state
            h.register(boxed(k, Val::C(*n)));
        }
        Op::RegG(k, n) => {
            let mut h = c.clone();
            h.register(boxed(k, Val::G(*n)));
        }
        Op::St => c.record_start(),
        Op::En => c.record_end(),
        Op::El => { let _ = c.elapsed(); }
        Op::Js => { let _ = c.to_json(); }
        Op::Sn => { let _ = c.snapshot(); }
    }
}

fn join_or(v: Vec<String>, sep: &str) -> String {
    if v.is_empty() { "-".into() } else { v.join(sep) }
}

fn canon_snapshot(c: &MetricsCollector) -> String {
    let snap = c.snapshot();
    let mut rows: Vec<String> = snap
        .iter()
        .map(|(k, v)| {
            if let Some(n) = v.as_u64() {
                format!("{k}:c{n}")
            } else if let Some(f) = v.as_f64() {
                format!("{k}:g{}", f as u64)
            } else {
                format!("{k}:?")
            }
        })
        .collect();
    rows.sort();
    join_or(rows, ",")
}
fn json_keys(c: &MetricsCollector) -> Vec<String> {
    let j = c.to_json();
    let mut ks: Vec<String> = j.as_object().map(|m| m.keys().cloned().collect()).unwrap_or_default();
    ks.sort();
    ks
}

// ---------------------------------------------------------------------------------------------
// the cooperative scheduler
// ---------------------------------------------------------------------------------------------

const RUNNING: u8 = 0;
const PARKED: u8 = 1;
const FINISHED: u8 = 2;
const NO_GRANT: usize = usize::MAX;

/// Scheduler state shared by the managed threads of one execution. Hand-offs are by atomics with a
/// short spin and then micro-sleeps (a critical section lasts microseconds; a futex round trip per
/// hand-off was the dominating cost of the enumeration).
struct Coop {
    st: Vec<std::sync::atomic::AtomicU8>,
    grant: std::sync::atomic::AtomicUsize,
}

fn wait_until(mut cond: impl FnMut() -> bool) {
    let mut n = 0u32;
    while !cond() {
        n += 1;
        if n < 4000 {
            std::hint::spin_loop();
        } else if n < 4200 {
            std::thread::yield_now();
        } else {
            std::thread::sleep(std::time::Duration::from_micros(50));
        }
    }
}

thread_local! {
    static ME: RefCell<Option<(usize, Arc<Coop>)>> = const { RefCell::new(None) };
    static SECS: Cell<u32> = const { Cell::new(0) };
}

fn install_callback() {
    static ONCE: Once = Once::new();
    ONCE.call_once(|| {
        ironbeam::verif_hooks::set_yield_callback(Some(Arc::new(|site: &'static str| {
            if !site.starts_with("metrics:") {
                return;
            }
            let me = ME.with(|m| m.borrow().clone());
            if let Some((tid, coop)) = me {
                use std::sync::atomic::Ordering::{Acquire, Release};
                coop.st[tid].store(PARKED, Release);
                wait_until(|| coop.grant.load(Acquire) == tid);
                coop.grant.store(NO_GRANT, Release);
                SECS.with(|s| s.set(s.get() + 1));
            }
        })));
    });
}

type Job = Box<dyn FnOnce() + Send>;
static POOL: Mutex<Vec<std::sync::mpsc::Sender<Job>>> = Mutex::new(Vec::new());

/// persistent worker threads (one per thread id) so that an execution does not pay for thread creation
fn pool_submit(worker: usize, job: Job) {
    let mut p = POOL.lock().unwrap();
    while p.len() <= worker {
        let (tx, rx) = std::sync::mpsc::channel::<Job>();
        std::thread::spawn(move || {
            while let Ok(j) = rx.recv() {
                j();
            }
        });
        p.push(tx);
    }
    p[worker].send(job).expect("worker alive");
}

struct FinishGuard(usize, Arc<Coop>);
impl Drop for FinishGuard {
    fn drop(&mut self) {
        self.1.st[self.0].store(FINISHED, std::sync::atomic::Ordering::Release);
    }
}

enum Policy<'a> {
    /// forced prefix (entries naming a finished / unknown thread are skipped), then lowest enabled thread
    Prefix(&'a [usize]),
    /// a uniformly random enabled thread at every step
    Random(&'a mut crate::ctx::Rng),
}

struct Exec {
    taken: Vec<usize>,
    enabled: Vec<Vec<usize>>,
    complete: bool,
    secs: Vec<Vec<u32>>,
    snap: String,
    keys: Vec<String>,
    el: bool,
    panicked: bool,
}

impl Exec {
    fn answer(&self) -> String {
        if self.panicked {
            return "PANIC".into();
        }
        let secs = self
            .secs
            .iter()
            .map(|t| join_or(t.iter().map(|x| x.to_string()).collect(), "."))
            .collect::<Vec<_>>()
            .join("/");
        format!(
            "snap={} el={} keys={} secs={} complete={}",
            self.snap,
            if self.el { "T" } else { "F" },
            join_or(self.keys.clone(), ","),
            secs,
            if self.complete { "T" } else { "F" }
        )
    }
}

/// Run `prog` on a fresh collector with real threads under the cooperative scheduler.
fn execute(init: &Init, prog: &Prog, mut policy: Policy) -> Exec {
    install_callback();
    let n = prog.len();
    let coll = mk_collector(init);
    use std::sync::atomic::Ordering::{Acquire, Release};
    let coop = Arc::new(Coop {
        st: (0..n).map(|_| std::sync::atomic::AtomicU8::new(RUNNING)).collect(),
        grant: std::sync::atomic::AtomicUsize::new(NO_GRANT),
    });
    let (rtx, rrx) = std::sync::mpsc::channel::<(usize, Option<Vec<u32>>)>();
    for (tid, ops) in prog.iter().enumerate() {
        let ops = ops.clone();
        let c = coll.clone();
        let coop2 = coop.clone();
        let rtx = rtx.clone();
        pool_submit(tid, Box::new(move || {
            let r = std::panic::catch_unwind(std::panic::AssertUnwindSafe(|| {
                let _fin = FinishGuard(tid, coop2.clone());
                ME.with(|m| *m.borrow_mut() = Some((tid, coop2.clone())));
                let mut secs = Vec::with_capacity(ops.len());
                for op in &ops {
                    let before = SECS.with(Cell::get);
                    apply(&c, op);
                    secs.push(SECS.with(Cell::get) - before);
                }
                secs
            }));
            ME.with(|m| *m.borrow_mut() = None);
            let _ = rtx.send((tid, r.ok()));
        }));
    }
    let mut taken = vec![];
    let mut enabled_log = vec![];
    let mut complete = false;
    let mut pos = 0usize; // position in a forced prefix
    let mut prefix_done = false;
    loop {
        // wait until no managed thread is running
        wait_until(|| coop.st.iter().all(|s| s.load(Acquire) != RUNNING));
        let enabled: Vec<usize> = (0..n).filter(|i| coop.st[*i].load(Acquire) == PARKED).collect();
        let choice = match &mut policy {
            Policy::Prefix(p) => {
                let mut ch = None;
                while pos < p.len() {
                    let t = p[pos];
                    pos += 1;
                    if enabled.contains(&t) {
                        ch = Some(t);
                        break;
                    }
                }
                if ch.is_none() && !prefix_done {
                    prefix_done = true;
                    complete = enabled.is_empty();
                }
                ch.or_else(|| enabled.first().copied())
            }
            Policy::Random(r) => {
                if enabled.is_empty() {
                    complete = true;
                    None
                } else {
                    Some(enabled[r.below(enabled.len())])
                }
            }
        };
        match choice {
            None => break,
            Some(t) => {
                taken.push(t);
                enabled_log.push(enabled);
                coop.st[t].store(RUNNING, Release);
                coop.grant.store(t, Release);
            }
        }
    }
    if let Policy::Prefix(p) = &policy {
        if !prefix_done {
            // the whole prefix was consumed exactly when the last thread finished
            let _ = p;
            complete = true;
        }
    }
    let mut secs = vec![vec![]; n];
    let mut panicked = false;
    for _ in 0..n {
        match rrx.recv() {
            Ok((tid, Some(s))) => secs[tid] = s,
            _ => panicked = true,
        }
    }
    let obs = guarded(|| (canon_snapshot(&coll), json_keys(&coll), coll.elapsed().is_some()));
    match obs {
        Ok((snap, keys, el)) => Exec { taken, enabled: enabled_log, complete, secs, snap, keys, el, panicked },
        Err(_) => Exec { taken, enabled: enabled_log, complete, secs, snap: String::new(), keys: vec![], el: false, panicked: true },
    }
}

type State = BTreeMap<String, Val>;

fn state_of(c: &MetricsCollector) -> State {
    c.snapshot()
        .into_iter()
        .map(|(k, v)| {
            let val = if let Some(n) = v.as_u64() { Val::C(n) } else { Val::G(v.as_f64().unwrap_or(0.0) as u64) };
            (k, val)
        })
        .collect()
}
fn collector_of(st: &State) -> MetricsCollector {
    let mut c = MetricsCollector::new();
    for (k, v) in st {
        c.register(boxed(k, *v));
    }
    c
}

/// All final snapshots the REAL code produces when the calls are made one after the other (single thread,
/// no scheduler) in every order that respects each thread's program order. Computed level by level over the
/// vectors of per-thread positions (the metric map is the whole state that matters for a snapshot; it is
/// rebuilt with the real `register` between calls), so the cost is polynomial, not one run per order.
fn serial_outcomes(init: &Init, prog: &Prog) -> HashSet<String> {
    use std::collections::HashMap;
    let n = prog.len();
    let total: usize = prog.iter().map(Vec::len).sum();
    let mut cur: HashMap<Vec<usize>, HashSet<State>> = HashMap::new();
    cur.entry(vec![0; n]).or_default().insert(state_of(&mk_collector(init)));
    for _ in 0..total {
        let mut next: HashMap<Vec<usize>, HashSet<State>> = HashMap::new();
        for (pos, states) in &cur {
            for t in 0..n {
                if pos[t] < prog[t].len() {
                    let mut np = pos.clone();
                    np[t] += 1;
                    let slot = next.entry(np).or_default();
                    for st in states {
                        let c = collector_of(st);
                        apply(&c, &prog[t][pos[t]]);
                        slot.insert(state_of(&c));
                    }
                }
            }
        }
        cur = next;
    }
    cur.values()
        .flat_map(|states| states.iter())
        .map(|st| {
            join_or(st.iter().map(|(k, v)| match v { Val::C(n) => format!("{k}:c{n}"), Val::G(n) => format!("{k}:g{n}") }).collect(), ",")
        })
        .collect()
}

fn written_names(init: &Init, prog: &Prog) -> BTreeSet<&'static str> {
    let mut s = BTreeSet::new();
    for (k, _) in init {
        s.insert(*k);
    }
    for t in prog {
        for op in t {
            match op {
                Op::Inc(k, _) | Op::Set(k, _) | Op::RegC(k, _) | Op::RegG(k, _) => { s.insert(*k); }
                _ => {}
            }
        }
    }
    s
}

/// `Some(expected final counters)` when the program consists of increments only and every initial metric
/// is a counter: final = initial + Σ increments, per name.
fn inc_only_expectation(init: &Init, prog: &Prog) -> Option<BTreeMap<&'static str, u64>> {
    let mut m = BTreeMap::new();
    for (k, v) in init {
        match v {
            Val::C(n) => { m.insert(*k, *n); }
            Val::G(_) => return None,
        }
    }
    let mut any = false;
    for t in prog {
        for op in t {
            match op {
                Op::Inc(k, n) => { *m.entry(*k).or_insert(0) += *n; any = true; }
                Op::St | Op::En | Op::El | Op::Js | Op::Sn => {}
                _ => return None,
            }
        }
    }
    if any { Some(m) } else { None }
}

struct ProgOracle {
    serial: HashSet<String>,
    inc_only: Option<String>,
    names: BTreeSet<&'static str>,
}
fn prog_oracle(init: &Init, prog: &Prog) -> ProgOracle {
    let inc_only = inc_only_expectation(init, prog)
        .map(|m| join_or(m.iter().map(|(k, n)| format!("{k}:c{n}")).collect(), ","));
    ProgOracle { serial: serial_outcomes(init, prog), inc_only, names: written_names(init, prog) }
}

fn emit(cx: &mut Ctx, init: &Init, prog: &Prog, sched: &[usize], ex: &Exec, orc: &ProgOracle, what: &str) {
    let nt = prog.iter().filter(|t| !t.is_empty()).count() >= 2;
    let req = format!("METRICS init={} th={} sched={}", enc_init(init), enc_prog(prog), enc_sched(sched));
    let i = cx.case(req, ex.answer(), nt);
    cx.count(&format!("metrics:{what}"));
    let max_secs = ex.secs.iter().flatten().copied().max().unwrap_or(0);
    cx.count(&format!("metrics:max-sections-per-call={max_secs}"));
    if ex.panicked {
        cx.oracle_fail(i, "collector-panicked", "a collector call panicked".into());
        return;
    }
    if let Some(want) = &orc.inc_only {
        if &ex.snap != want {
            cx.oracle_fail(i, "lost-update", format!("increment-only program: final {} but initial + sum of increments = {}", ex.snap, want));
            return;
        }
    }
    if !orc.serial.contains(&ex.snap) {
        cx.oracle_fail(
            i,
            "non-serializable-outcome",
            format!("final snapshot {} is not produced by any one-call-at-a-time order (serial outcomes: {:?})", ex.snap, {
                let mut v: Vec<_> = orc.serial.iter().cloned().collect();
                v.sort();
                v.truncate(6);
                v
            }),
        );
        return;
    }
    for k in &orc.names {
        if !ex.keys.iter().any(|x| x == k) {
            cx.oracle_fail(i, "json-missing-registered-key", format!("{k} was registered but to_json keys = {:?}", ex.keys));
            return;
        }
    }
}

/// Enumerate every complete schedule of `prog` on the real code (stateless DFS); returns the number of
/// executions and whether the enumeration was cut off by `cap`.
fn explore(cx: &mut Ctx, init: &Init, prog: &Prog, cap: usize, what: &str) -> (usize, bool) {
    let orc = prog_oracle(init, prog);
    let mut prefix: Vec<usize> = vec![];
    let mut runs = 0usize;
    loop {
        let mut ex = execute(init, prog, Policy::Prefix(&prefix));
        runs += 1;
        // the request carries the whole schedule that was taken (forced prefix + lowest-thread-first tail)
        ex.complete = true;
        let sched = ex.taken.clone();
        emit(cx, init, prog, &sched, &ex, &orc, what);
        // backtrack: deepest position with an untried (larger) enabled thread
        let mut next = None;
        for j in (0..ex.taken.len()).rev() {
            if let Some(t) = ex.enabled[j].iter().copied().filter(|t| *t > ex.taken[j]).min() {
                let mut p = ex.taken[..j].to_vec();
                p.push(t);
                next = Some(p);
                break;
            }
        }
        match next {
            None => return (runs, false),
            Some(p) => prefix = p,
        }
        if runs >= cap {
            cx.count("metrics:enumeration-truncated-programs");
            return (runs, true);
        }
    }
}

fn all_progs(alpha: &[Op], shape: &[usize]) -> Vec<Prog> {
    let mut out: Vec<Prog> = vec![vec![]];
    for &len in shape {
        let mut seqs: Vec<Vec<Op>> = vec![vec![]];
        for _ in 0..len {
            let mut nx = vec![];
            for s in &seqs {
                for o in alpha {
                    let mut t = s.clone();
                    t.push(*o);
                    nx.push(t);
                }
            }
            seqs = nx;
        }
        let mut nx = vec![];
        for p in &out {
            for s in &seqs {
                let mut q = p.clone();
                q.push(s.clone());
                nx.push(q);
            }
        }
        out = nx;
    }
    out
}

/// increments whose amounts are distinct powers of two: the final value says exactly which were reflected
fn binary_weight_prog(threads: usize, per: usize) -> Prog {
    (0..threads).map(|t| (0..per).map(|j| Op::Inc("a", 1u64 << (t * per + j))).collect()).collect()
}

// ---------------------------------------------------------------------------------------------
// free-running stress
// ---------------------------------------------------------------------------------------------

fn stress(cx: &mut Ctx, init: Option<u64>, threads: usize, per: usize, amounts: &[u64], jitter: bool) {
    let coll = MetricsCollector::new();
    if let Some(n) = init {
        coll.set_counter("ctr", n);
    }
    let barrier = Arc::new(std::sync::Barrier::new(threads));
    let hs: Vec<_> = (0..threads)
        .map(|t| {
            let c = coll.clone();
            let b = barrier.clone();
            let amt = amounts[t % amounts.len()];
            std::thread::spawn(move || {
                b.wait();
                for j in 0..per {
                    c.increment_counter("ctr", amt);
                    if jitter && j % 64 == 0 {
                        std::thread::yield_now();
                    }
                }
            })
        })
        .collect();
    let mut panicked = false;
    for h in hs {
        panicked |= h.join().is_err();
    }
    let want: u64 = init.unwrap_or(0) + (0..threads).map(|t| amounts[t % amounts.len()] * per as u64).sum::<u64>();
    let got = guarded(|| coll.snapshot().get("ctr").and_then(|v| v.as_u64()));
    let real = match (&got, panicked) {
        (Ok(Some(n)), false) => format!("final={n} complete=T"),
        _ => "PANIC".into(),
    };
    let req = format!(
        "STRESS init={} threads={threads} per={per} amounts={}",
        init.map(|n| n.to_string()).unwrap_or_else(|| "none".into()),
        amounts.iter().map(|x| x.to_string()).collect::<Vec<_>>().join(",")
    );
    let i = cx.case(req, real, threads >= 2);
    cx.count("stress:runs");
    cx.count_n("stress:increments", (threads * per) as u64);
    if got != Ok(Some(want)) {
        cx.oracle_fail(i, "lost-update-free-running", format!("{threads} threads x {per} increments: final {got:?}, initial + sum = {want}"));
    }
}

// ---------------------------------------------------------------------------------------------
// pipelines with / without a collector
// ---------------------------------------------------------------------------------------------

#[derive(Clone, Copy, Debug)]
enum Mode {
    Seq,
    Par(usize),
}

fn fnv(s: &str) -> u64 {
    let mut h: u64 = 0xcbf2_9ce4_8422_2325;
    for b in s.bytes() {
        h ^= u64::from(b);
        h = h.wrapping_mul(0x0100_0000_01b3);
    }
    h
}
fn token<T: std::fmt::Debug + Ord>(mut v: Vec<T>) -> String {
    v.sort();
    format!("n{}h{:016x}", v.len(), fnv(&format!("{v:?}")))
}
/// for pipelines without a barrier the engines preserve the input order: compare the sequence itself
fn token_ordered<T: std::fmt::Debug>(v: Vec<T>) -> String {
    format!("o{}h{:016x}", v.len(), fnv(&format!("{v:?}")))
}
const SLEEP_MS: u64 = 4;

/// Build pipeline number `which` on `p` over `data` and collect it; canonical token of the result.
fn run_pipeline(p: &Pipeline, which: usize, data: &[i64], mode: Mode) -> anyhow::Result<String> {
    macro_rules! collect {
        ($c:expr) => {
            match mode {
                Mode::Seq => $c.collect_seq(),
                Mode::Par(parts) => $c.collect_par(None, Some(parts)),
            }
        };
    }
    let src = from_vec(p, data.to_vec());
    Ok(match which {
        0 => token_ordered(collect!(src.map(|x: &i64| x * 2).filter(|x: &i64| x % 3 != 0))?),
        6 => token_ordered(collect!(from_vec(p, vec![data.len() as i64]).map(|x: &i64| {
            std::thread::sleep(std::time::Duration::from_millis(SLEEP_MS));
            x + 1
        }))?),
        1 => {
            let g = collect!(src.key_by(|x: &i64| x.rem_euclid(5)).group_by_key())?;
            token(g.into_iter().map(|(k, mut vs)| { vs.sort(); (k, vs) }).collect())
        }
        2 => token(collect!(src.key_by(|x: &i64| x.rem_euclid(4)).map_values(|v: &i64| v + 1).combine_values(Sum::<i64>::new()))?),
        3 => {
            let left = src.key_by(|x: &i64| x.rem_euclid(7));
            let right = from_vec(p, data.iter().map(|x| x * 10).collect::<Vec<i64>>()).key_by(|x: &i64| (x / 10).rem_euclid(3));
            token(collect!(left.join_inner(&right))?)
        }
        4 => token(collect!(src.combine_globally(Sum::<i64>::new(), None))?),
        _ => token(collect!(src.flat_map(|x: &i64| vec![*x, x + 1]).distinct())?),
    })
}

/// One `run_collect` that fails while planning (`pe`) or while executing (`ee`).
fn run_failing(p: &Pipeline, kind: &str) -> String {
    let r = Runner { mode: ExecMode::Sequential, ..Default::default() };
    match kind {
        "pe" => match r.run_collect::<i64>(p, NodeId::new(987_654_321)) {
            Err(_) => "pe".into(),
            Ok(_) => "ok:unexpected".into(),
        },
        _ => {
            let c = from_vec(p, vec![1i64, 2, 3]);
            match r.run_collect::<String>(p, c.node_id()) {
                Err(_) => "ee".into(),
                Ok(_) => "ok:unexpected".into(),
            }
        }
    }
}

fn mrun(cx: &mut Ctx, which: usize, data: &[i64], mode: Mode, pre: &[Op], runs: &[&str], hammer: bool) {
    // reference: the same pipeline on a pipeline WITHOUT a collector
    let base = guarded(|| run_pipeline(&Pipeline::default(), which, data, mode));
    let want = match &base {
        Ok(Ok(t)) => t.clone(),
        Ok(Err(_)) => "ERR".into(),
        Err(_) => "PANIC".into(),
    };
    let run_tokens: Vec<String> = runs.iter().map(|k| if *k == "ok" { format!("ok:{want}") } else { format!("{k}:x") }).collect();
    for with in [false, true] {
        let p = Pipeline::default();
        let coll = MetricsCollector::new();
        for op in pre {
            apply(&coll, op);
        }
        if with {
            p.set_metrics(coll.clone());
        }
        let stop = Arc::new(std::sync::atomic::AtomicBool::new(false));
        let hammer_thread = if with && hammer {
            let c = coll.clone();
            let s = stop.clone();
            Some(std::thread::spawn(move || {
                let mut n = 0u64;
                while !s.load(std::sync::atomic::Ordering::Relaxed) {
                    c.increment_counter("hammer", 1);
                    let _ = c.snapshot();
                    n += 1;
                }
                n
            }))
        } else {
            None
        };
        let mut res = vec![];
        let mut last_ok = false;
        let mut mismatch = None;
        for k in runs {
            if *k == "ok" {
                let r = guarded(|| run_pipeline(&p, which, data, mode));
                let t = match &r {
                    Ok(Ok(t)) => t.clone(),
                    Ok(Err(_)) => "ERR".into(),
                    Err(_) => "PANIC".into(),
                };
                if t != want {
                    mismatch = Some(t.clone());
                }
                res.push(format!("ok:{t}"));
                last_ok = matches!(r, Ok(Ok(_)));
            } else {
                res.push(guarded(|| run_failing(&p, k)).unwrap_or_else(|_| "PANIC".into()));
                last_ok = false;
            }
        }
        stop.store(true, std::sync::atomic::Ordering::Relaxed);
        let hammered = hammer_thread.map(|h| h.join().unwrap_or(0));
        let got = p.get_metrics();
        let mut real = format!("res={} coll={}", res.join(","), if got.is_some() { "T" } else { "F" });
        let mut el = false;
        let mut keys = vec![];
        let mut elapsed_before = None;
        if let Some(c) = &got {
            elapsed_before = c.elapsed();
            el = elapsed_before.is_some();
            keys = json_keys(c);
            let probe = c.clone();
            // is a start stamp present? observable as: after one more record_end an elapsed time exists
            let snap_before = canon_snapshot(c);
            let keys_s = join_or(keys.iter().filter(|k| *k != "hammer").cloned().collect(), ",");
            let snap_s = join_or(snap_before.split(',').filter(|r| !r.starts_with("hammer:") && *r != "-").map(String::from).collect(), ",");
            probe.record_end();
            let start_set = probe.elapsed().is_some();
            real.push_str(&format!(
                " el={} start={} keys={} snap={}",
                if el { "T" } else { "F" },
                if start_set { "T" } else { "F" },
                keys_s,
                snap_s
            ));
        }
        let req = format!("MRUN coll={} pre={} runs={}", u8::from(with), enc_ops(pre), run_tokens.join(","));
        let i = cx.case(req, real, with && !data.is_empty());
        cx.count(&format!("mrun:pipeline{which}:{}", match mode { Mode::Seq => "seq", Mode::Par(_) => "par" }));
        cx.count(if with { "mrun:with-collector" } else { "mrun:without-collector" });
        if let Some(n) = hammered {
            cx.count("mrun:hammered-during-run");
            if let Some(c) = &got {
                let h = c.snapshot().get("hammer").and_then(|v| v.as_u64());
                if n > 0 && h != Some(n) {
                    cx.oracle_fail(i, "lost-update-free-running", format!("hammer thread made {n} increments, counter shows {h:?}"));
                }
            }
        }
        if let Some(t) = mismatch {
            cx.oracle_fail(i, "collector-changed-result", format!("pipeline {which} {mode:?}: without collector {want}, {} {t}", if with { "with collector" } else { "second pipeline without collector" }));
        }
        if with && last_ok && !el {
            cx.oracle_fail(i, "elapsed-missing-after-success", "run_collect returned Ok but elapsed() is None".into());
        }
        if with && last_ok && which == 6 {
            // the closure sleeps SLEEP_MS: stamps taken around the execution must be at least that far apart
            if let Some(d) = elapsed_before {
                if d < std::time::Duration::from_millis(SLEEP_MS) {
                    cx.oracle_fail(i, "elapsed-does-not-cover-run", format!("the run slept {SLEEP_MS} ms but elapsed() = {d:?}"));
                }
            }
        }
        if with {
            for k in written_names(&vec![], &vec![pre.to_vec()]) {
                if !keys.iter().any(|x| x == k) {
                    cx.oracle_fail(i, "json-missing-registered-key", format!("{k} registered before the run, to_json keys = {keys:?}"));
                }
            }
        }
    }
}

struct Panicky;
impl Metric for Panicky {
    fn name(&self) -> &str { "boom" }
    fn value(&self) -> serde_json::Value { panic!("user metric panicked in value()") }
    fn as_any(&self) -> &dyn std::any::Any { self }
}

/// `MPOISON how=… want=<token>`: a panic inside a critical section of the collector (u64 overflow of
/// `count + value` with overflow checks on; a user metric whose `value()` panics during `snapshot()`),
/// caught by the caller; afterwards the collector is attached to a pipeline and the pipeline is run.
fn poison_case(cx: &mut Ctx, how: &str) {
    let data: Vec<i64> = (0..40).collect();
    let tok = |r: Result<anyhow::Result<String>, String>| match r {
        Ok(Ok(t)) => format!("ok:{t}"),
        Ok(Err(_)) => "ERR".to_string(),
        Err(_) => "PANIC".to_string(),
    };
    let want = tok(guarded(|| run_pipeline(&Pipeline::default(), 1, &data, Mode::Seq)));
    let c = MetricsCollector::new();
    match how {
        "overflow" => {
            c.set_counter("c", u64::MAX);
            let _ = guarded(|| c.increment_counter("c", 1));
        }
        "usermetric" => {
            let mut h = c.clone();
            h.register(Box::new(Panicky));
            let _ = guarded(|| c.snapshot());
        }
        _ => c.set_counter("c", 1),
    }
    let p = Pipeline::default();
    p.set_metrics(c);
    let got = tok(guarded(|| run_pipeline(&p, 1, &data, Mode::Seq)));
    let i = cx.case(format!("MPOISON how={how} want={}", want.trim_start_matches("ok:")), format!("res={got}"), how != "none");
    cx.count(&format!("mpoison:{how}"));
    if got != want {
        cx.oracle_fail(i, "poisoned-collector-changed-result", format!("pipeline without collector: {want}; with a collector that had a panic inside a critical section ({how}): {got}"));
    }
}

// ---------------------------------------------------------------------------------------------
// lock sites of src/metrics.rs (source scan): the scheduler only sees locks that have a yield point
// ---------------------------------------------------------------------------------------------

fn repo_metrics_rs() -> Option<String> {
    let manifest = std::fs::read_to_string(concat!(env!("CARGO_MANIFEST_DIR"), "/Cargo.toml")).ok()?;
    let line = manifest.lines().find(|l| l.trim_start().starts_with("ironbeam"))?;
    let i = line.find("path")?;
    let rest = &line[i..];
    let q1 = rest.find('"')?;
    let q2 = rest[q1 + 1..].find('"')?;
    let path = &rest[q1 + 1..q1 + 1 + q2];
    std::fs::read_to_string(format!("{path}/src/metrics.rs")).ok()
}

/// `LOCKSITES`: every `.lock()` of src/metrics.rs, per method, and how many of them are NOT immediately
/// preceded by a `verif_hooks::yield_point("metrics:<method>:…")` (such a lock would be invisible to the
/// cooperative scheduler, so the lock-granular enumeration would silently stop being exhaustive).
fn lock_sites(cx: &mut Ctx) {
    let Some(src) = repo_metrics_rs() else {
        cx.notes.push("C16: src/metrics.rs not readable from the harness; LOCKSITES skipped".into());
        return;
    };
    let mut per: BTreeMap<String, u32> = BTreeMap::new();
    let mut uncovered = vec![];
    let mut cur = String::new();
    let lines: Vec<&str> = src.lines().collect();
    for (n, l) in lines.iter().enumerate() {
        let t = l.trim_start();
        if t.starts_with("//") {
            continue;
        }
        if let Some(i) = t.find("fn ") {
            if t.starts_with("pub fn ") || t.starts_with("fn ") || t.starts_with("pub(crate) fn ") {
                cur = t[i + 3..].chars().take_while(|c| c.is_alphanumeric() || *c == '_').collect();
            }
        }
        if t.contains(".lock()") || t.contains(".try_lock()") {
            *per.entry(cur.clone()).or_insert(0) += 1;
            let prev = lines[..n].iter().rev().map(|x| x.trim()).find(|x| !x.is_empty() && !x.starts_with("#[cfg")).unwrap_or("");
            if !prev.contains(&format!("yield_point(\"metrics:{cur}:")) {
                uncovered.push(format!("{cur}@line{}", n + 1));
            }
        }
    }
    let real = format!(
        "sites={} uncovered={}",
        join_or(per.iter().map(|(k, v)| format!("{k}:{v}")).collect(), ","),
        uncovered.len()
    );
    let i = cx.case("LOCKSITES".into(), real, false);
    cx.count_n("locksites:locks-in-metrics.rs", per.values().map(|v| u64::from(*v)).sum());
    if !uncovered.is_empty() {
        cx.oracle_fail(i, "lock-without-yield-point", format!("lock acquisitions without a preceding yield point: {uncovered:?}"));
    }
}

// ---------------------------------------------------------------------------------------------
// the run
// ---------------------------------------------------------------------------------------------

const A4: [Op; 4] = [Op::Inc("a", 1), Op::Inc("a", 2), Op::Set("a", 5), Op::RegC("a", 7)];
const A7: [Op; 7] =
    [Op::Inc("a", 1), Op::Inc("a", 2), Op::Set("a", 5), Op::RegC("a", 7), Op::RegG("a", 3), Op::Inc("b", 4), Op::St];

fn random_op(cx: &mut Ctx) -> Op {
    let names = ["a", "b", "execution_time_ms"];
    let nn = if cx.rng.chance(1, 8) { 3 } else { 2 };
    let k = names[cx.rng.below(nn)];
    match cx.rng.below(14) {
        0..=4 => Op::Inc(k, 1 + cx.rng.below(9) as u64),
        5 | 6 => Op::Set(k, cx.rng.below(50) as u64),
        7 | 8 => Op::RegC(k, cx.rng.below(50) as u64),
        9 => Op::RegG(k, cx.rng.below(9) as u64),
        10 => Op::St,
        11 => Op::En,
        12 => *cx.rng.pick(&[Op::El, Op::Js]),
        _ => Op::Sn,
    }
}

pub fn run(cx: &mut Ctx) {
    let init10: Init = vec![("a", Val::C(10))];
    // the exhaustive blocks do not depend on the seed: the search tier keeps the quick shapes and
    // spends its larger budget on the random blocks
    let quick = cx.tier != crate::ctx::Tier::Thorough;
    let cap = if quick { 4000 } else { 400_000 };

    lock_sites(cx);
    // a collector whose mutex was poisoned by a panic inside one of its own critical sections must
    // still not change (here: abort) the pipeline it is attached to
    for how in ["overflow", "usermetric", "none"] {
        poison_case(cx, how);
    }

    // (1) corpus: design witness of defect #14 (two threads, one increment each, read-read-write-write)
    {
        let prog: Prog = vec![vec![Op::Inc("a", 1)], vec![Op::Inc("a", 1)]];
        let orc = prog_oracle(&init10, &prog);
        for sched in [vec![0, 1, 0, 1], vec![0, 0, 1, 1], vec![1, 0], vec![]] {
            let ex = execute(&init10, &prog, Policy::Prefix(&sched));
            emit(cx, &init10, &prog, &sched, &ex, &orc, "corpus");
        }
        let prog3: Prog = vec![vec![Op::Inc("a", 1), Op::Inc("a", 2)], vec![Op::Set("a", 5)], vec![Op::Inc("a", 4)]];
        let orc3 = prog_oracle(&init10, &prog3);
        for sched in [vec![0, 2, 0, 2, 1, 0, 0], vec![2, 1, 0, 0, 2]] {
            let ex = execute(&init10, &prog3, Policy::Prefix(&sched));
            emit(cx, &init10, &prog3, &sched, &ex, &orc3, "corpus");
        }
    }

    let t_start = std::time::Instant::now();
    let lap = |what: &str| {
        if std::env::var("IBH_TIMING").is_ok() {
            eprintln!("[c16] {what}: {:.2}s", t_start.elapsed().as_secs_f64());
        }
    };
    // (2) exhaustive small scope: every program of the shape over the alphabet x EVERY complete schedule
    let shapes: Vec<Vec<usize>> = if quick {
        vec![vec![1, 1], vec![2, 1], vec![1, 2], vec![2, 2], vec![1, 1, 1], vec![2, 1, 1]]
    } else {
        vec![
            vec![1, 1], vec![2, 1], vec![1, 2], vec![2, 2], vec![3, 1], vec![1, 3], vec![3, 2], vec![2, 3], vec![3, 3],
            vec![1, 1, 1], vec![2, 1, 1], vec![1, 2, 1], vec![1, 1, 2], vec![2, 2, 1], vec![2, 1, 2], vec![1, 2, 2], vec![2, 2, 2],
        ]
    };
    let mut total_scheds = 0usize;
    let mut total_progs = 0usize;
    let mut truncated = 0usize;
    for shape in &shapes {
        for prog in all_progs(&A4, shape) {
            let (r, cut) = explore(cx, &init10, &prog, cap, "exhaustive-A4");
            total_scheds += r;
            total_progs += 1;
            truncated += usize::from(cut);
        }
    }
    cx.exhaustive_blocks.push(format!(
        "METRICS: init a=10; every program of shapes {shapes:?} (ops per thread) over {{inc a 1, inc a 2, set a 5, register counter a 7}} x every complete lock-granular schedule of the real code: {total_progs} programs, {total_scheds} schedules, {truncated} programs cut off at {cap} schedules"
    ));
    lap("A4");
    // wider alphabet (gauge under the same name, a second name, record_start), absent initial counter
    let mut s7 = 0usize;
    let mut p7 = 0usize;
    let mut t7 = 0usize;
    let shapes7: Vec<Vec<usize>> = if quick { vec![vec![1, 1], vec![2, 1], vec![1, 1, 1]] } else { vec![vec![1, 1], vec![2, 1], vec![2, 2], vec![1, 1, 1], vec![2, 1, 1]] };
    for init in [vec![], vec![("a", Val::C(10))], vec![("a", Val::G(2))]] {
        for shape in &shapes7 {
            for prog in all_progs(&A7, shape) {
                let (r, cut) = explore(cx, &init, &prog, cap, "exhaustive-A7");
                s7 += r;
                p7 += 1;
                t7 += usize::from(cut);
            }
        }
    }
    cx.exhaustive_blocks.push(format!(
        "METRICS: init in {{none, a=counter 10, a=gauge 2}}; shapes {shapes7:?} over {{inc a 1, inc a 2, set a 5, reg counter a 7, reg gauge a 3, inc b 4, record_start}} x every complete schedule: {p7} programs, {s7} schedules, {t7} cut off"
    ));
    lap("A7");
    // increments with distinct power-of-two amounts: 2 and 3 threads x up to 3 increments, every schedule
    let mut sb = 0usize;
    let mut tb = 0usize;
    let bw: Vec<(usize, usize)> = vec![(2, 1), (2, 2), (2, 3), (3, 1), (3, 2), (3, 3)];
    for (t, per) in &bw {
        for init in [vec![("a", Val::C(10))], vec![]] {
            let (r, cut) = explore(cx, &init, &binary_weight_prog(*t, *per), cap, "exhaustive-binary-weights");
            sb += r;
            tb += usize::from(cut);
        }
    }
    cx.exhaustive_blocks.push(format!(
        "METRICS: (threads, increments per thread) in {bw:?}, amounts distinct powers of two, init a=10 and absent, every complete schedule: {sb} schedules, {tb} cut off at {cap}"
    ));

    lap("binary");
    // (3) random programs, random schedules; plus arbitrary (possibly incomplete / over-long) forced schedules
    let rounds = cx.budget(250, 6000);
    for _ in 0..rounds {
        let nthreads = 2 + cx.rng.below(3);
        let prog: Prog = (0..nthreads).map(|_| { let l = cx.rng.below(5); (0..l).map(|_| random_op(cx)).collect() }).collect();
        let init: Init = match cx.rng.below(4) {
            0 => vec![],
            1 => vec![("a", Val::C(cx.rng.below(100) as u64))],
            2 => vec![("a", Val::C(cx.rng.below(100) as u64)), ("b", Val::C(3))],
            _ => vec![("a", Val::G(1)), ("b", Val::C(cx.rng.below(10) as u64))],
        };
        let orc = prog_oracle(&init, &prog);
        for _ in 0..3 {
            let ex = {
                let mut r = cx.rng.clone();
                let ex = execute(&init, &prog, Policy::Random(&mut r));
                cx.rng = r;
                ex
            };
            let sched = ex.taken.clone();
            emit(cx, &init, &prog, &sched, &ex, &orc, "random-schedule");
        }
        let glen = cx.rng.below(12);
        let garbage: Vec<usize> = (0..glen).map(|_| cx.rng.below(nthreads + 1)).collect();
        let ex = execute(&init, &prog, Policy::Prefix(&garbage));
        emit(cx, &init, &prog, &garbage, &ex, &orc, "arbitrary-forced-schedule");
    }
    lap("random");
    // 16 threads under the scheduler, increments only, random schedules
    for _ in 0..cx.budget(10, 200) {
        let per = 1 + cx.rng.below(4);
        let prog: Prog = (0..16).map(|t| (0..per).map(|_| Op::Inc("a", 1 + (t as u64 % 5))).collect()).collect();
        let init: Init = vec![("a", Val::C(cx.rng.below(1000) as u64))];
        let orc = ProgOracle { serial: HashSet::new(), inc_only: inc_only_expectation(&init, &prog).map(|m| join_or(m.iter().map(|(k, n)| format!("{k}:c{n}")).collect(), ",")), names: written_names(&init, &prog) };
        let ex = {
            let mut r = cx.rng.clone();
            let ex = execute(&init, &prog, Policy::Random(&mut r));
            cx.rng = r;
            ex
        };
        // serial set of an increment-only program is the single expected outcome
        let orc = ProgOracle { serial: orc.inc_only.iter().cloned().collect(), ..orc };
        let sched = ex.taken.clone();
        emit(cx, &init, &prog, &sched, &ex, &orc, "random-schedule-16-threads");
    }

    lap("16 threads");
    // (4) free-running stress (no scheduler): 16 threads x 20 000 increments and smaller shapes
    let reps = cx.budget(1, 3);
    for r in 0..reps {
        stress(cx, Some(5), 16, 20_000, &[1], false);
        stress(cx, None, 16, 20_000, &[1, 2, 3], r % 2 == 0);
        stress(cx, Some(1000), 2, 50_000, &[1, 7], false);
        stress(cx, Some(0), 4, 20_000, &[3], true);
        stress(cx, Some(0), 8, 5_000, &[1, 2], true);
    }

    lap("stress");
    // (5) real pipelines with and without a collector
    let prounds = cx.budget(6, 60);
    for round in 0..prounds {
        for which in 0..6 {
            let len = *cx.rng.pick(&[0usize, 1, 2, 17, 60, 200]);
            let data: Vec<i64> = (0..len).map(|_| cx.rng.range(-20, 40)).collect();
            let mode = if cx.rng.chance(1, 2) { Mode::Seq } else { Mode::Par(1 + cx.rng.below(7)) };
            let npre = cx.rng.below(4);
            let pre: Vec<Op> = (0..npre)
                .map(|_| match cx.rng.below(4) {
                    0 => Op::RegC("rows", cx.rng.below(100) as u64),
                    1 => Op::RegG("ratio", cx.rng.below(9) as u64),
                    2 => Op::Inc("calls", 1 + cx.rng.below(5) as u64),
                    _ => Op::Set("execution_time_ms", 9),
                })
                .collect();
            let runs: Vec<&str> = match (round + which) % 6 {
                0 | 1 => vec!["ok"],
                2 => vec!["ok", "ok"],
                3 => vec!["pe"],
                4 => vec!["ok", "pe"],
                _ => vec!["ee", "ok"],
            };
            let hammer = (round + which) % 3 == 0;
            mrun(cx, which, &data, mode, &pre, &runs, hammer);
        }
    }
    lap("pipelines");
    for mode in [Mode::Seq, Mode::Par(2)] {
        mrun(cx, 6, &[1, 2, 3], mode, &[], &["ok"], false);
        mrun(cx, 6, &[1, 2], mode, &[Op::RegC("rows", 2)], &["pe", "ok"], false);
    }
    for runs in [vec!["pe"], vec!["ee"], vec!["pe", "ee", "ok"], vec!["ok", "ee", "pe"]] {
        mrun(cx, 0, &[1, 2, 3, 4, 5], Mode::Seq, &[Op::RegC("rows", 1)], &runs, false);
    }
}
