//! C16 — metrics never lose concurrent updates and never influence results.
//!
//! Requests (see lean/IbModel/Driver/D16.lean for the grammar):
//!   `METRICS init=… th=… sched=…`  one replayable interleaving, at lock granularity, of real OS threads
//!        calling the REAL `MetricsCollector` methods on one shared collector. The interleaving is forced by
//!        a cooperative scheduler installed as the `verif_hooks::yield_point` callback (there is a yield
//!        point immediately before every `.lock()` in src/metrics.rs): every managed thread parks at each
//!        yield point until the scheduler grants it, so exactly one thread runs between two grants and a
//!        schedule (list of thread ids) determines the execution. All complete schedules of a program are
//!        ENUMERATED by stateless depth-first search (re-execution with a longer forced prefix).
//!        Answer: final snapshot, elapsed present?, to_json keys, critical sections per call, complete?.
//!   `STRESS init=… threads=… per=… amounts=…`  free-running threads (no scheduler), final counter.
//!   `MRUN coll=0|1 pre=… runs=… <pipeline>`  GENERATED pipelines (`pipe::gen_prog`, reorder-inert and hazard-free)
//!        built with the public builders and collected with / without a collector; the request carries the
//!        pipeline's description (the `PIPE` grammar) and the MODEL plans and executes it inside `runCollectProg`,
//!        so the expected result is computed, not echoed.
//!   `MSLEEP sleep=… ticks=… <pipeline>`  a pipeline whose closure sleeps, run 1..3 times on one pipeline.
//!   `MPOISON how=… checks=… <pipeline>`  a collector that survived a panic inside a critical section is attached.
//!   `MOVF checks=… init=… add=…`  one increment at the u64 boundary.
//!   `SMOKE`  every public call on one thread under a watchdog (a self-dead-locking call = HANG, not a hung check).
//!
//! Oracles (independent of the Lean model):
//!   * increment-only programs: final counter = initial + Σ increments            (`lost-update`)
//!   * any program: the final snapshot is one the REAL code produces when the same calls are made one
//!     after the other in some order that respects each thread's program order   (`non-serializable-outcome`)
//!   * every name registered / set / incremented is a key of `to_json()`         (`json-missing-registered-key`)
//!   * `to_json()[k].value == snapshot()[k]` for every stored k; no other member except the execution time,
//!     which equals `elapsed().as_millis()`                                      (`json-value-differs-from-snapshot`,
//!     `json-has-unregistered-member`, `json-execution-time-differs-from-elapsed`, `json-execution-time-missing`;
//!     KNOWN FINDING `json-user-metric-shadowed-by-execution-time`)
//!   * free-running stress: final = init + Σ                                    (`lost-update-free-running`)
//!   * result with a collector attached == result without                        (`collector-changed-result`)
//!   * result == plain-vector reference interpreter `pipe::reference`            (`pipeline-result-differs-from-reference`)
//!   * after a successful run `elapsed()` is `Some`                              (`elapsed-missing-after-success`)
//!   * after EVERY run of the sleeping pipeline SLEEP_MS <= elapsed() <= wall time of that run
//!     (so a second run refreshes both stamps)                                   (`elapsed-outside-run-window`)
//!   * below 2^64 an increment is exact; at the boundary the metric stays a counter and the
//!     collector stays usable                   (`overflow-corrupts-counter`, `collector-unusable-after-overflow`)
//!   * every call returns: scheduler time-out (confirmed by re-execution), watchdogs around free-running
//!     threads and pipeline runs, SMOKE, and a progress watchdog over the whole check (`collector-call-hangs`,
//!     `run-does-not-terminate`)

use crate::ctx::{Ctx, guarded};
use crate::pipe::{self, Fn_, Mode as PMode, Outcome, Prog as PProg, Shape, Step, V};
use ironbeam::metrics::{CounterMetric, GaugeMetric, Metric, MetricsCollector};
use ironbeam::{ExecMode, NodeId, Pipeline, Runner, from_vec};
use std::cell::{Cell, RefCell};
use std::collections::{BTreeMap, BTreeSet, HashSet};
use std::sync::{Arc, Mutex, Once};

// ---------------------------------------------------------------------------------------------
// programs
// ---------------------------------------------------------------------------------------------

#[derive(Clone, Copy, Debug, PartialEq, Eq, Hash)]
enum Op {
    Inc(&'static str, u64),
    Set(&'static str, u64),
    RegC(&'static str, u64),
    RegG(&'static str, u64),
    St,
    En,
    El,
    Js,
    Sn,
}

#[derive(Clone, Copy, Debug, PartialEq, Eq, Hash)]
enum Val {
    C(u64),
    G(u64),
}

type Init = Vec<(&'static str, Val)>;
type Prog = Vec<Vec<Op>>;

fn enc_op(o: &Op) -> String {
    match o {
        Op::Inc(k, n) => format!("i:{k}:{n}"),
        Op::Set(k, n) => format!("s:{k}:{n}"),
        Op::RegC(k, n) => format!("rc:{k}:{n}"),
        Op::RegG(k, n) => format!("rg:{k}:{n}"),
        Op::St => "st".into(),
        Op::En => "en".into(),
        Op::El => "el".into(),
        Op::Js => "js".into(),
        Op::Sn => "sn".into(),
    }
}
fn enc_ops(ops: &[Op]) -> String {
    if ops.is_empty() { "-".into() } else { ops.iter().map(enc_op).collect::<Vec<_>>().join(",") }
}
fn enc_prog(p: &Prog) -> String {
    p.iter().map(|t| enc_ops(t)).collect::<Vec<_>>().join("/")
}
fn enc_init(i: &Init) -> String {
    if i.is_empty() {
        "-".into()
    } else {
        i.iter()
            .map(|(k, v)| match v { Val::C(n) => format!("{k}:c{n}"), Val::G(n) => format!("{k}:g{n}") })
            .collect::<Vec<_>>()
            .join(",")
    }
}
fn enc_sched(s: &[usize]) -> String {
    if s.is_empty() { "-".into() } else { s.iter().map(|x| x.to_string()).collect::<Vec<_>>().join(",") }
}

fn boxed(k: &str, v: Val) -> Box<dyn Metric> {
    match v {
        Val::C(n) => Box::new(CounterMetric::with_value(k, n)),
        Val::G(n) => Box::new(GaugeMetric::new(k, n as f64)),
    }
}

fn mk_collector(init: &Init) -> MetricsCollector {
    let mut c = MetricsCollector::new();
    // register_all is a loop over register
    c.register_all(init.iter().map(|(k, v)| boxed(k, *v)).collect());
    c
}

fn apply(c: &MetricsCollector, op: &Op) {
    match op {
        Op::Inc(k, n) => c.increment_counter(k, *n),
        Op::Set(k, n) => c.set_counter(k, *n),
        Op::RegC(k, n) => {
            let mut h = c.clone(); // clones share the inner state
            h.register(boxed(k, Val::C(*n)));
        }
        Op::RegG(k, n) => {
            let mut h = c.clone();
            h.register(boxed(k, Val::G(*n)));
        }
        Op::St => c.record_start(),
        Op::En => c.record_end(),
        Op::El => { let _ = c.elapsed(); }
        Op::Js => { let _ = c.to_json(); }
        Op::Sn => { let _ = c.snapshot(); }
    }
}

fn join_or(v: Vec<String>, sep: &str) -> String {
    if v.is_empty() { "-".into() } else { v.join(sep) }
}

fn canon_snapshot(c: &MetricsCollector) -> String {
    let snap = c.snapshot();
    let mut rows: Vec<String> = snap
        .iter()
        .map(|(k, v)| {
            if let Some(n) = v.as_u64() {
                format!("{k}:c{n}")
            } else if let Some(f) = v.as_f64() {
                format!("{k}:g{}", f as u64)
            } else {
                format!("{k}:?")
            }
        })
        .collect();
    rows.sort();
    join_or(rows, ",")
}
const EXEC_KEY: &str = "execution_time_ms";
const EXEC_DESC: &str = "Total pipeline execution time in milliseconds";

fn is_exec_entry(e: &serde_json::Value) -> bool {
    e.get("description").and_then(|d| d.as_str()) == Some(EXEC_DESC) && e.get("value").is_some_and(|v| v.is_u64())
}

/// What `to_json()` shows, canonically: sorted `key:val` (`c<n>` / `g<n>` for a metric's value, `T` for the
/// execution-time member), the sorted keys, and the verdict of the property's own statement about the
/// export evaluated on the REAL values (independent of the model): every metric of the snapshot is a member
/// with exactly its value; nothing else is a member except the execution time, which equals `elapsed()`.
struct JsonObs {
    canon: String,
    keys: Vec<String>,
    fail: Option<(&'static str, String)>,
}
fn json_obs(c: &MetricsCollector) -> JsonObs {
    let snap = c.snapshot();
    let el = c.elapsed();
    let j = c.to_json();
    let empty = serde_json::Map::new();
    let obj = j.as_object().unwrap_or(&empty);
    let mut rows = vec![];
    let mut keys = vec![];
    let mut fail: Option<(&'static str, String)> = None;
    let set_fail = |sig: &'static str, d: String, fail: &mut Option<(&'static str, String)>| {
        // a listed known finding must not mask another failure of the same case
        if fail.is_none() || fail.as_ref().is_some_and(|f| f.0 == "json-user-metric-shadowed-by-execution-time") {
            *fail = Some((sig, d));
        }
    };
    for (k, e) in obj {
        keys.push(k.clone());
        let v = e.get("value").cloned().unwrap_or(serde_json::Value::Null);
        let shown = if is_exec_entry(e) && k == EXEC_KEY {
            "T".to_string()
        } else if let Some(n) = v.as_u64() {
            format!("c{n}")
        } else if let Some(f) = v.as_f64() {
            format!("g{}", f as u64)
        } else {
            "?".to_string()
        };
        rows.push(format!("{k}:{shown}"));
        match snap.get(k) {
            Some(sv) => {
                if *sv != v || (is_exec_entry(e) && k == EXEC_KEY) {
                    if k == EXEC_KEY && is_exec_entry(e) {
                        set_fail("json-user-metric-shadowed-by-execution-time", format!("snapshot has {k} = {sv} but to_json()[{k}] is the execution time {e}"), &mut fail);
                    } else {
                        set_fail("json-value-differs-from-snapshot", format!("to_json()[{k}].value = {v}, snapshot()[{k}] = {sv}"), &mut fail);
                    }
                }
            }
            None => {
                if !(k == EXEC_KEY && is_exec_entry(e)) {
                    set_fail("json-has-unregistered-member", format!("to_json() has {k} = {e} which is not a stored metric"), &mut fail);
                }
            }
        }
        if k == EXEC_KEY && is_exec_entry(e) {
            let ms = el.map(|d| d.as_millis() as u64);
            if v.as_u64() != ms || ms.is_none() {
                set_fail("json-execution-time-differs-from-elapsed", format!("to_json()[{k}].value = {v}, elapsed() = {el:?}"), &mut fail);
            }
        }
    }
    for k in snap.keys() {
        if !obj.contains_key(k) {
            set_fail("json-missing-registered-key", format!("{k} is in the snapshot but to_json keys = {keys:?}"), &mut fail);
        }
    }
    if el.is_some() && !obj.get(EXEC_KEY).is_some_and(is_exec_entry) {
        set_fail("json-execution-time-missing", format!("elapsed() = {el:?} but to_json() has no execution-time member"), &mut fail);
    }
    rows.sort();
    keys.sort();
    JsonObs { canon: join_or(rows, ","), keys, fail }
}

// ---------------------------------------------------------------------------------------------
// the cooperative scheduler
// ---------------------------------------------------------------------------------------------

const RUNNING: u8 = 0;
const PARKED: u8 = 1;
const FINISHED: u8 = 2;
const NO_GRANT: usize = usize::MAX;

/// Scheduler state shared by the managed threads of one execution. Hand-offs are by atomics with a
/// short spin and then micro-sleeps (a critical section lasts microseconds; a futex round trip per
/// hand-off was the dominating cost of the enumeration).
struct Coop {
    st: Vec<std::sync::atomic::AtomicU8>,
    grant: std::sync::atomic::AtomicUsize,
    /// set by the scheduler when it gives up on this execution (a managed thread neither parked nor
    /// finished within `HANG_SECS`): parked threads then run on freely so that they do not spin for ever
    abandoned: std::sync::atomic::AtomicBool,
}

/// a critical section of the collector lasts microseconds; a managed thread that stays RUNNING this long
/// is blocked (a lock taken twice, a lock held across a yield point, …): the execution is a HANG
const HANG_SECS: u64 = 10;
static HANGS: std::sync::atomic::AtomicUsize = std::sync::atomic::AtomicUsize::new(0);
/// time-outs that did not repeat (machine stalls), reported in the evidence
static STALLS: std::sync::atomic::AtomicUsize = std::sync::atomic::AtomicUsize::new(0);
fn hangs() -> usize {
    HANGS.load(std::sync::atomic::Ordering::Relaxed)
}

/// spin, then yield, then micro-sleep until `cond` holds; `false` when `limit` elapsed first
fn wait_until(limit: Option<std::time::Duration>, mut cond: impl FnMut() -> bool) -> bool {
    let mut n = 0u32;
    let mut t0: Option<std::time::Instant> = None;
    while !cond() {
        n += 1;
        if n < 4000 {
            std::hint::spin_loop();
        } else if n < 4200 {
            std::thread::yield_now();
        } else {
            std::thread::sleep(std::time::Duration::from_micros(50));
            if let Some(l) = limit {
                let t = *t0.get_or_insert_with(std::time::Instant::now);
                if t.elapsed() > l {
                    return cond();
                }
            }
        }
    }
    true
}

thread_local! {
    static ME: RefCell<Option<(usize, Arc<Coop>)>> = const { RefCell::new(None) };
    static SECS: Cell<u32> = const { Cell::new(0) };
}

fn install_callback() {
    static ONCE: Once = Once::new();
    ONCE.call_once(|| {
        ironbeam::verif_hooks::set_yield_callback(Some(Arc::new(|site: &'static str| {
            if !site.starts_with("metrics:") {
                return;
            }
            let me = ME.with(|m| m.borrow().clone());
            if let Some((tid, coop)) = me {
                use std::sync::atomic::Ordering::{Acquire, Release};
                if coop.abandoned.load(Acquire) {
                    return;
                }
                coop.st[tid].store(PARKED, Release);
                wait_until(None, || coop.grant.load(Acquire) == tid || coop.abandoned.load(Acquire));
                if coop.abandoned.load(Acquire) {
                    return;
                }
                coop.grant.store(NO_GRANT, Release);
                SECS.with(|s| s.set(s.get() + 1));
            }
        })));
    });
}

type Job = Box<dyn FnOnce() + Send>;
static POOL: Mutex<Vec<std::sync::mpsc::Sender<Job>>> = Mutex::new(Vec::new());

/// persistent worker threads (one per thread id) so that an execution does not pay for thread creation
fn pool_submit(worker: usize, job: Job) {
    let mut p = POOL.lock().unwrap();
    while p.len() <= worker {
        let (tx, rx) = std::sync::mpsc::channel::<Job>();
        let name = format!("c16-sched-{}", p.len());
        std::thread::Builder::new().name(name).spawn(move || {
            while let Ok(j) = rx.recv() {
                j();
            }
        }).expect("spawn");
        p.push(tx);
    }
    p[worker].send(job).expect("worker alive");
}

struct FinishGuard(usize, Arc<Coop>);
impl Drop for FinishGuard {
    fn drop(&mut self) {
        self.1.st[self.0].store(FINISHED, std::sync::atomic::Ordering::Release);
    }
}

enum Policy<'a> {
    /// forced prefix (entries naming a finished / unknown thread are skipped), then lowest enabled thread
    Prefix(&'a [usize]),
    /// a uniformly random enabled thread at every step
    Random(&'a mut crate::ctx::Rng),
}

struct Exec {
    taken: Vec<usize>,
    enabled: Vec<Vec<usize>>,
    complete: bool,
    secs: Vec<Vec<u32>>,
    snap: String,
    keys: Vec<String>,
    json: String,
    json_fail: Option<(&'static str, String)>,
    el: bool,
    panicked: bool,
    hang: bool,
}

impl Exec {
    fn answer(&self) -> String {
        if self.hang {
            return "HANG".into();
        }
        if self.panicked {
            return "PANIC".into();
        }
        let secs = self
            .secs
            .iter()
            .map(|t| join_or(t.iter().map(|x| x.to_string()).collect(), "."))
            .collect::<Vec<_>>()
            .join("/");
        format!(
            "snap={} el={} json={} secs={} complete={}",
            self.snap,
            if self.el { "T" } else { "F" },
            self.json,
            secs,
            if self.complete { "T" } else { "F" }
        )
    }
}

/// Run `prog` on a fresh collector with real threads under the cooperative scheduler. A time-out is
/// CONFIRMED by re-running the schedule prefix that led to it (on a fresh collector, fresh threads): a
/// deadlock is deterministic at lock granularity and hangs again; a stall of the machine (the box is shared,
/// load averages of 60 on 16 cores occur) does not. Only a confirmed time-out is reported as HANG.
fn execute(init: &Init, prog: &Prog, policy: Policy) -> Exec {
    let (ex, again) = match policy {
        Policy::Prefix(p) => {
            let ex = execute_once(init, prog, Policy::Prefix(p));
            if !ex.hang {
                return ex;
            }
            (ex, execute_once(init, prog, Policy::Prefix(p)))
        }
        Policy::Random(r) => {
            let ex = execute_once(init, prog, Policy::Random(r));
            if !ex.hang {
                return ex;
            }
            // same choices up to the time-out, then the lowest enabled thread: a complete schedule
            let mut again = execute_once(init, prog, Policy::Prefix(&ex.taken));
            again.complete = !again.hang;
            (ex, again)
        }
    };
    if again.hang {
        HANGS.fetch_add(1, std::sync::atomic::Ordering::Relaxed);
        return Exec { taken: ex.taken, ..again };
    }
    STALLS.fetch_add(1, std::sync::atomic::Ordering::Relaxed);
    again
}

fn execute_once(init: &Init, prog: &Prog, mut policy: Policy) -> Exec {
    install_callback();
    let n = prog.len();
    let coll = mk_collector(init);
    use std::sync::atomic::Ordering::{Acquire, Release};
    let coop = Arc::new(Coop {
        st: (0..n).map(|_| std::sync::atomic::AtomicU8::new(RUNNING)).collect(),
        grant: std::sync::atomic::AtomicUsize::new(NO_GRANT),
        abandoned: std::sync::atomic::AtomicBool::new(false),
    });
    let (rtx, rrx) = std::sync::mpsc::channel::<(usize, Option<Vec<u32>>)>();
    for (tid, ops) in prog.iter().enumerate() {
        let ops = ops.clone();
        let c = coll.clone();
        let coop2 = coop.clone();
        let rtx = rtx.clone();
        pool_submit(tid, Box::new(move || {
            let r = std::panic::catch_unwind(std::panic::AssertUnwindSafe(|| {
                let _fin = FinishGuard(tid, coop2.clone());
                ME.with(|m| *m.borrow_mut() = Some((tid, coop2.clone())));
                let mut secs = Vec::with_capacity(ops.len());
                for op in &ops {
                    let before = SECS.with(Cell::get);
                    apply(&c, op);
                    secs.push(SECS.with(Cell::get) - before);
                }
                secs
            }));
            ME.with(|m| *m.borrow_mut() = None);
            let _ = rtx.send((tid, r.ok()));
        }));
    }
    let mut taken = vec![];
    let mut enabled_log = vec![];
    let mut complete = false;
    let mut pos = 0usize; // position in a forced prefix
    let mut prefix_done = false;
    let mut hang = false;
    loop {
        // wait until no managed thread is running
        if !wait_until(Some(std::time::Duration::from_secs(HANG_SECS)), || coop.st.iter().all(|s| s.load(Acquire) != RUNNING)) {
            hang = true;
            break;
        }
        let enabled: Vec<usize> = (0..n).filter(|i| coop.st[*i].load(Acquire) == PARKED).collect();
        let choice = match &mut policy {
            Policy::Prefix(p) => {
                let mut ch = None;
                while pos < p.len() {
                    let t = p[pos];
                    pos += 1;
                    if enabled.contains(&t) {
                        ch = Some(t);
                        break;
                    }
                }
                if ch.is_none() && !prefix_done {
                    prefix_done = true;
                    complete = enabled.is_empty();
                }
                ch.or_else(|| enabled.first().copied())
            }
            Policy::Random(r) => {
                if enabled.is_empty() {
                    complete = true;
                    None
                } else {
                    Some(enabled[r.below(enabled.len())])
                }
            }
        };
        match choice {
            None => break,
            Some(t) => {
                taken.push(t);
                enabled_log.push(enabled);
                coop.st[t].store(RUNNING, Release);
                coop.grant.store(t, Release);
            }
        }
    }
    if let Policy::Prefix(p) = &policy {
        if !prefix_done {
            // the whole prefix was consumed exactly when the last thread finished
            let _ = p;
            complete = true;
        }
    }
    if hang {
        // release the parked threads, abandon the blocked one(s) together with their worker threads
        // (a thread blocked on a mutex cannot be cancelled), and never touch this collector again
        coop.abandoned.store(true, Release);
        POOL.lock().unwrap_or_else(std::sync::PoisonError::into_inner).clear();
        std::mem::forget(coll);
        return Exec { taken, enabled: enabled_log, complete: false, secs: vec![vec![]; n], snap: String::new(), keys: vec![], json: String::new(), json_fail: None, el: false, panicked: false, hang: true };
    }
    let mut secs = vec![vec![]; n];
    let mut panicked = false;
    for _ in 0..n {
        match rrx.recv() {
            Ok((tid, Some(s))) => secs[tid] = s,
            _ => panicked = true,
        }
    }
    let obs = guarded(|| (canon_snapshot(&coll), json_obs(&coll), coll.elapsed().is_some()));
    match obs {
        Ok((snap, j, el)) => Exec { taken, enabled: enabled_log, complete, secs, snap, keys: j.keys, json: j.canon, json_fail: j.fail, el, panicked, hang: false },
        Err(_) => Exec { taken, enabled: enabled_log, complete, secs, snap: String::new(), keys: vec![], json: String::new(), json_fail: None, el: false, panicked: true, hang: false },
    }
}

type State = BTreeMap<String, Val>;

fn state_of(c: &MetricsCollector) -> State {
    c.snapshot()
        .into_iter()
        .map(|(k, v)| {
            let val = if let Some(n) = v.as_u64() { Val::C(n) } else { Val::G(v.as_f64().unwrap_or(0.0) as u64) };
            (k, val)
        })
        .collect()
}
fn collector_of(st: &State) -> MetricsCollector {
    let mut c = MetricsCollector::new();
    for (k, v) in st {
        c.register(boxed(k, *v));
    }
    c
}

/// All final snapshots the REAL code produces when the calls are made one after the other (single thread,
/// no scheduler) in every order that respects each thread's program order. Computed level by level over the
/// vectors of per-thread positions (the metric map is the whole state that matters for a snapshot; it is
/// rebuilt with the real `register` between calls), so the cost is polynomial, not one run per order.
fn serial_outcomes(init: &Init, prog: &Prog) -> HashSet<String> {
    use std::collections::HashMap;
    let n = prog.len();
    let total: usize = prog.iter().map(Vec::len).sum();
    let mut cur: HashMap<Vec<usize>, HashSet<State>> = HashMap::new();
    cur.entry(vec![0; n]).or_default().insert(state_of(&mk_collector(init)));
    for _ in 0..total {
        let mut next: HashMap<Vec<usize>, HashSet<State>> = HashMap::new();
        for (pos, states) in &cur {
            for t in 0..n {
                if pos[t] < prog[t].len() {
                    let mut np = pos.clone();
                    np[t] += 1;
                    let slot = next.entry(np).or_default();
                    for st in states {
                        let c = collector_of(st);
                        apply(&c, &prog[t][pos[t]]);
                        slot.insert(state_of(&c));
                    }
                }
            }
        }
        cur = next;
    }
    cur.values()
        .flat_map(|states| states.iter())
        .map(|st| {
            join_or(st.iter().map(|(k, v)| match v { Val::C(n) => format!("{k}:c{n}"), Val::G(n) => format!("{k}:g{n}") }).collect(), ",")
        })
        .collect()
}

fn written_names(init: &Init, prog: &Prog) -> BTreeSet<&'static str> {
    let mut s = BTreeSet::new();
    for (k, _) in init {
        s.insert(*k);
    }
    for t in prog {
        for op in t {
            match op {
                Op::Inc(k, _) | Op::Set(k, _) | Op::RegC(k, _) | Op::RegG(k, _) => { s.insert(*k); }
                _ => {}
            }
        }
    }
    s
}

/// `Some(expected final counters)` when the program consists of increments only and every initial metric
/// is a counter: final = initial + Σ increments, per name.
fn inc_only_expectation(init: &Init, prog: &Prog) -> Option<BTreeMap<&'static str, u64>> {
    let mut m = BTreeMap::new();
    for (k, v) in init {
        match v {
            Val::C(n) => { m.insert(*k, *n); }
            Val::G(_) => return None,
        }
    }
    let mut any = false;
    for t in prog {
        for op in t {
            match op {
                Op::Inc(k, n) => { *m.entry(*k).or_insert(0) += *n; any = true; }
                Op::St | Op::En | Op::El | Op::Js | Op::Sn => {}
                _ => return None,
            }
        }
    }
    if any { Some(m) } else { None }
}

struct ProgOracle {
    serial: HashSet<String>,
    inc_only: Option<String>,
    names: BTreeSet<&'static str>,
}
fn prog_oracle(init: &Init, prog: &Prog) -> ProgOracle {
    let inc_only = inc_only_expectation(init, prog)
        .map(|m| join_or(m.iter().map(|(k, n)| format!("{k}:c{n}")).collect(), ","));
    ProgOracle { serial: serial_outcomes(init, prog), inc_only, names: written_names(init, prog) }
}

fn emit(cx: &mut Ctx, init: &Init, prog: &Prog, sched: &[usize], ex: &Exec, orc: &ProgOracle, what: &str) {
    let nt = prog.iter().filter(|t| !t.is_empty()).count() >= 2;
    let req = format!("METRICS init={} th={} sched={}", enc_init(init), enc_prog(prog), enc_sched(sched));
    let i = cx.case(req, ex.answer(), nt);
    tick(cx);
    cx.count(&format!("metrics:{what}"));
    let max_secs = ex.secs.iter().flatten().copied().max().unwrap_or(0);
    cx.count(&format!("metrics:max-sections-per-call={max_secs}"));
    if ex.hang {
        cx.oracle_fail(i, "collector-call-hangs", format!("after the schedule prefix {:?} a thread neither reached its next lock acquisition nor finished within {HANG_SECS} s", ex.taken));
        return;
    }
    if ex.panicked {
        cx.oracle_fail(i, "collector-panicked", "a collector call panicked".into());
        return;
    }
    if let Some(want) = &orc.inc_only {
        if &ex.snap != want {
            cx.oracle_fail(i, "lost-update", format!("increment-only program: final {} but initial + sum of increments = {}", ex.snap, want));
            return;
        }
    }
    if !orc.serial.contains(&ex.snap) {
        cx.oracle_fail(
            i,
            "non-serializable-outcome",
            format!("final snapshot {} is not produced by any one-call-at-a-time order (serial outcomes: {:?})", ex.snap, {
                let mut v: Vec<_> = orc.serial.iter().cloned().collect();
                v.sort();
                v.truncate(6);
                v
            }),
        );
        return;
    }
    for k in &orc.names {
        if !ex.keys.iter().any(|x| x == k) {
            cx.oracle_fail(i, "json-missing-registered-key", format!("{k} was registered but to_json keys = {:?}", ex.keys));
            return;
        }
    }
    if let Some((sig, d)) = &ex.json_fail {
        cx.oracle_fail(i, sig, d.clone());
    }
}

/// Enumerate every complete schedule of `prog` on the real code (stateless DFS); returns the number of
/// executions and whether the enumeration was cut off by `cap`.
fn explore(cx: &mut Ctx, init: &Init, prog: &Prog, cap: usize, what: &str) -> (usize, bool) {
    if hangs() >= 2 {
        cx.count("metrics:skipped-after-2-hangs");
        return (0, true);
    }
    let orc = prog_oracle(init, prog);
    let mut prefix: Vec<usize> = vec![];
    let mut runs = 0usize;
    loop {
        let mut ex = execute(init, prog, Policy::Prefix(&prefix));
        runs += 1;
        // the request carries the whole schedule that was taken (forced prefix + lowest-thread-first tail)
        ex.complete = true;
        let sched = ex.taken.clone();
        emit(cx, init, prog, &sched, &ex, &orc, what);
        if ex.hang {
            return (runs, true);
        }
        // backtrack: deepest position with an untried (larger) enabled thread
        let mut next = None;
        for j in (0..ex.taken.len()).rev() {
            if let Some(t) = ex.enabled[j].iter().copied().filter(|t| *t > ex.taken[j]).min() {
                let mut p = ex.taken[..j].to_vec();
                p.push(t);
                next = Some(p);
                break;
            }
        }
        match next {
            None => return (runs, false),
            Some(p) => prefix = p,
        }
        if runs >= cap {
            cx.count("metrics:enumeration-truncated-programs");
            return (runs, true);
        }
    }
}

fn all_progs(alpha: &[Op], shape: &[usize]) -> Vec<Prog> {
    let mut out: Vec<Prog> = vec![vec![]];
    for &len in shape {
        let mut seqs: Vec<Vec<Op>> = vec![vec![]];
        for _ in 0..len {
            let mut nx = vec![];
            for s in &seqs {
                for o in alpha {
                    let mut t = s.clone();
                    t.push(*o);
                    nx.push(t);
                }
            }
            seqs = nx;
        }
        let mut nx = vec![];
        for p in &out {
            for s in &seqs {
                let mut q = p.clone();
                q.push(s.clone());
                nx.push(q);
            }
        }
        out = nx;
    }
    out
}

/// increments whose amounts are distinct powers of two: the final value says exactly which were reflected
fn binary_weight_prog(threads: usize, per: usize) -> Prog {
    (0..threads).map(|t| (0..per).map(|j| Op::Inc("a", 1u64 << (t * per + j))).collect()).collect()
}

// ---------------------------------------------------------------------------------------------
// free-running stress
// ---------------------------------------------------------------------------------------------

fn stress(cx: &mut Ctx, init: Option<u64>, threads: usize, per: usize, amounts: &[u64], jitter: bool) {
    let amounts_v = amounts.to_vec();
    let want: u64 = init.unwrap_or(0) + (0..threads).map(|t| amounts[t % amounts.len()] * per as u64).sum::<u64>();
    let req = format!(
        "STRESS init={} threads={threads} per={per} amounts={}",
        init.map(|n| n.to_string()).unwrap_or_else(|| "none".into()),
        amounts.iter().map(|x| x.to_string()).collect::<Vec<_>>().join(",")
    );
    // the whole free-running run sits under a watchdog: a deadlocking collector gives HANG, not a hung check
    let r = pipe::with_watchdog(180, move || stress_body(init, threads, per, &amounts_v, jitter));
    let (got, panicked) = match r {
        Some(Ok(x)) => x,
        Some(Err(_)) => (Err("panic".to_string()), true),
        None => {
            HANGS.fetch_add(1, std::sync::atomic::Ordering::Relaxed);
            let i = cx.case(req, "HANG".into(), true);
            cx.oracle_fail(i, "collector-call-hangs", format!("{threads} free-running threads x {per} increments did not finish within 180 s"));
            return;
        }
    };
    let real = match (&got, panicked) {
        (Ok(Some(n)), false) => format!("final={n} complete=T"),
        _ => "PANIC".into(),
    };
    let i = cx.case(req, real, threads >= 2);
    tick(cx);
    cx.count("stress:runs");
    cx.count_n("stress:increments", (threads * per) as u64);
    if got != Ok(Some(want)) {
        cx.oracle_fail(i, "lost-update-free-running", format!("{threads} threads x {per} increments: final {got:?}, initial + sum = {want}"));
    }
}

fn stress_body(init: Option<u64>, threads: usize, per: usize, amounts: &[u64], jitter: bool) -> (Result<Option<u64>, String>, bool) {
    let coll = MetricsCollector::new();
    if let Some(n) = init {
        coll.set_counter("ctr", n);
    }
    let barrier = Arc::new(std::sync::Barrier::new(threads));
    let hs: Vec<_> = (0..threads)
        .map(|t| {
            let c = coll.clone();
            let b = barrier.clone();
            let amt = amounts[t % amounts.len()];
            std::thread::spawn(move || {
                b.wait();
                for j in 0..per {
                    c.increment_counter("ctr", amt);
                    if jitter && j % 64 == 0 {
                        std::thread::yield_now();
                    }
                }
            })
        })
        .collect();
    let mut panicked = false;
    for h in hs {
        panicked |= h.join().is_err();
    }
    let got = guarded(|| coll.snapshot().get("ctr").and_then(|v| v.as_u64()));
    (got, panicked)
}

// ---------------------------------------------------------------------------------------------
// pipelines with / without a collector
// ---------------------------------------------------------------------------------------------

const SLEEP_MS: u64 = 4;
const GAP_MS: u64 = 25;

fn outcome_of(r: Option<Result<anyhow::Result<Vec<V>>, String>>) -> Outcome {
    match r {
        None => Outcome::Hang,
        Some(Err(msg)) => Outcome::Panic(msg),
        Some(Ok(Err(e))) => Outcome::Err(format!("{e}")),
        Some(Ok(Ok(rows))) => Outcome::Rows(rows),
    }
}

/// Build `prog` with the public builders on the GIVEN pipeline (which may carry a collector) and collect
/// it with the real engine; canonical `PIPE` answer.
fn run_prog_on(p: &Pipeline, prog: &PProg, mode: PMode) -> String {
    let mut out = Outcome::Hang;
    // a run that does not come back within 10 s is tried once more with 30 s before it counts as a HANG
    for secs in [10, 30] {
        let (p2, prog2) = (p.clone(), prog.clone());
        out = outcome_of(pipe::with_watchdog(secs, move || {
            let c = pipe::build(&p2, &prog2);
            pipe::collect(c, mode)
        }));
        if !matches!(out, Outcome::Hang) {
            break;
        }
    }
    pipe::outcome_answer(&out, prog.canon())
}

/// One `run_collect` that fails while planning (`pe`: unknown terminal node) or while executing
/// (`ee`: the requested element type is not the collection's).
fn run_failing(p: &Pipeline, kind: &str) -> String {
    let r = Runner { mode: ExecMode::Sequential, ..Default::default() };
    match kind {
        "pe" => match r.run_collect::<i64>(p, NodeId::new(987_654_321)) {
            Err(_) => "pe".into(),
            Ok(_) => "ok:unexpected".into(),
        },
        _ => {
            let c = from_vec(p, vec![1i64, 2, 3]);
            match r.run_collect::<String>(p, c.node_id()) {
                Err(_) => "ee".into(),
                Ok(_) => "ok:unexpected".into(),
            }
        }
    }
}

/// the request text of a pipeline: the `PIPE` grammar without the `PIPE` kind
fn prog_text(prog: &PProg, mode: PMode) -> String {
    prog.request(&mode.enc()).trim_start_matches("PIPE ").to_string()
}

/// `MRUN`: the same generated program collected (a) on a pipeline without a collector — the baseline —,
/// (b) on a second pipeline without one, (c) on a pipeline WITH a collector, optionally while another
/// thread hammers that collector. The model computes the expected result from the program's description.
fn mrun(cx: &mut Ctx, prog: &PProg, mode: PMode, pre: &[Op], runs: &[&str], hammer: bool) {
    let canon = prog.canon();
    let base = run_prog_on(&Pipeline::default(), prog, mode);
    // independent plain-Rust evaluation of the same steps (no ironbeam, no Lean)
    let want_ref = pipe::ref_answer(&pipe::reference(prog), canon);
    for with in [false, true] {
        let p = Pipeline::default();
        let coll = MetricsCollector::new();
        for op in pre {
            apply(&coll, op);
        }
        if with {
            p.set_metrics(coll.clone());
        }
        let stop = Arc::new(std::sync::atomic::AtomicBool::new(false));
        let hammer_thread = if with && hammer {
            let c = coll.clone();
            let s = stop.clone();
            Some(std::thread::spawn(move || {
                let mut n = 0u64;
                while !s.load(std::sync::atomic::Ordering::Relaxed) {
                    c.increment_counter("hammer", 1);
                    let _ = c.snapshot();
                    n += 1;
                }
                n
            }))
        } else {
            None
        };
        let mut res = vec![];
        let mut last_ok = false;
        let mut mismatch = None;
        for k in runs {
            if *k == "ok" {
                let t = run_prog_on(&p, prog, mode);
                if t != base {
                    mismatch = Some(t.clone());
                }
                last_ok = t.starts_with("OK");
                res.push(t);
            } else {
                let (p2, k2) = (p.clone(), k.to_string());
                res.push(match pipe::with_watchdog(10, move || run_failing(&p2, &k2)) {
                    None => "HANG".into(),
                    Some(Err(_)) => "PANIC".into(),
                    Some(Ok(t)) => t,
                });
                last_ok = false;
            }
        }
        stop.store(true, std::sync::atomic::Ordering::Relaxed);
        let hammered = hammer_thread.map(|h| h.join().unwrap_or(0));
        let got = p.get_metrics();
        let mut real = format!("coll={}", if got.is_some() { "T" } else { "F" });
        let mut el = false;
        let mut jfail = None;
        let mut keys = vec![];
        if let Some(c) = &got {
            el = c.elapsed().is_some();
            let j = json_obs(c);
            let strip = |s: &str| join_or(s.split(',').filter(|r| !r.starts_with("hammer:") && *r != "-").map(String::from).collect(), ",");
            let json_s = strip(&j.canon);
            let snap_s = strip(&canon_snapshot(c));
            keys = j.keys;
            jfail = j.fail;
            // is a start stamp present? observable as: after one more record_end an elapsed time exists
            c.record_end();
            let start_set = c.elapsed().is_some();
            let taken = p.take_metrics().is_some();
            let after = p.get_metrics().is_some();
            real.push_str(&format!(
                " el={} start={} json={} snap={} take={} after={}",
                if el { "T" } else { "F" },
                if start_set { "T" } else { "F" },
                json_s,
                snap_s,
                if taken { "T" } else { "F" },
                if after { "T" } else { "F" }
            ));
            if !taken || after {
                jfail = Some(("take-metrics-wrong", format!("take_metrics().is_some() = {taken}, get_metrics() afterwards is_some() = {after}")));
            }
        }
        real.push_str(&format!(" res= {}", res.join(" ;; ")));
        let req = format!("MRUN coll={} pre={} runs={} {}", u8::from(with), enc_ops(pre), runs.join(","), prog_text(prog, mode));
        let i = cx.case(req, real, with && prog.src.len() >= 2 && !prog.steps.is_empty());
        tick(cx);
        cx.count(&format!("mrun:mode:{}", match mode { PMode::Seq => "seq", PMode::Par(_) => "par" }));
        cx.count(if with { "mrun:with-collector" } else { "mrun:without-collector" });
        cx.count(&format!("mrun:outcome:{}", base.split(' ').next().unwrap_or("")));
        if with {
            pipe::count_prog(cx, prog);
        }
        if res.iter().any(|r| r == "HANG") || base == "HANG" {
            cx.oracle_fail(i, "run-does-not-terminate", format!("no result within 10 s: baseline {base}, runs {res:?}"));
            continue;
        }
        if let Some(n) = hammered {
            cx.count("mrun:hammered-during-run");
            if let Some(c) = &got {
                let h = c.snapshot().get("hammer").and_then(|v| v.as_u64());
                if n > 0 && h != Some(n) {
                    cx.oracle_fail(i, "lost-update-free-running", format!("hammer thread made {n} increments, counter shows {h:?}"));
                }
            }
        }
        if let Some(t) = mismatch {
            cx.oracle_fail(i, "collector-changed-result", format!("{} {}: without collector {base}, {} {t}", prog_text(prog, mode), mode.enc(), if with { "with collector" } else { "second pipeline without collector" }));
        }
        if base != want_ref {
            cx.oracle_fail(i, "pipeline-result-differs-from-reference", format!("{}: real (no collector) {base}, plain-vector reference {want_ref}", prog_text(prog, mode)));
        }
        if with && last_ok && !el {
            cx.oracle_fail(i, "elapsed-missing-after-success", "run_collect returned Ok but elapsed() is None".into());
        }
        if with {
            for k in written_names(&vec![], &vec![pre.to_vec()]) {
                if !keys.iter().any(|x| x == k) {
                    cx.oracle_fail(i, "json-missing-registered-key", format!("{k} registered before the run, to_json keys = {keys:?}"));
                }
            }
            if let Some((sig, d)) = jfail {
                cx.oracle_fail(i, sig, d);
            }
        }
    }
}

/// `MSLEEP`: a pipeline whose closure sleeps `SLEEP_MS`, run `nruns` times on one pipeline with a collector
/// (`GAP_MS` apart). The stamps are taken inside the run, on both sides of the sleep, so after EVERY run
/// `SLEEP_MS <= elapsed() <= wall time of THAT run` (measured here around the call): a start stamp that is
/// not refreshed by the second run gives an elapsed time above the window, an end stamp that is not
/// refreshed gives zero (`duration_since` saturates). `execution_time_ms` of `to_json()` must be that elapsed time.
fn msleep(cx: &mut Ctx, mode: PMode, nruns: usize) {
    let n0 = 5i64;
    let prog = PProg { shape: Shape::T, src: vec![V::I(n0)], steps: vec![Step::Map(Fn_::Add(1))] };
    let p = Pipeline::default();
    let coll = MetricsCollector::new();
    p.set_metrics(coll.clone());
    let sleep = std::time::Duration::from_millis(SLEEP_MS);
    let (mut els, mut jts, mut res, mut ticks) = (vec![], vec![], vec![], vec![]);
    let mut fails: Vec<(&'static str, String)> = vec![];
    for r in 0..nruns {
        if r > 0 {
            std::thread::sleep(std::time::Duration::from_millis(GAP_MS));
        }
        let p2 = p.clone();
        let w0 = std::time::Instant::now();
        let out = outcome_of(pipe::with_watchdog(10, move || {
            let c = from_vec(&p2, vec![V::I(n0)]).map(move |v: &V| {
                std::thread::sleep(sleep);
                Fn_::Add(1).eval(v)
            });
            pipe::collect(pipe::Coll::T(c), mode)
        }));
        let wall = w0.elapsed();
        res.push(pipe::outcome_answer(&out, "seq"));
        let el = coll.elapsed();
        let class = match el {
            None => "none",
            Some(d) if d < sleep => "below",
            Some(d) if d > wall => "above",
            Some(_) => "in",
        };
        if class != "in" {
            fails.push(("elapsed-outside-run-window", format!("run {} slept {SLEEP_MS} ms and took {wall:?} of wall time, but elapsed() = {el:?} ({class})", r + 1)));
        }
        let j = coll.to_json();
        let jv = j.get(EXEC_KEY).filter(|e| is_exec_entry(e)).and_then(|e| e.get("value")).and_then(|v| v.as_u64());
        let jt = match el { Some(d) => jv == Some(d.as_millis() as u64), None => j.get(EXEC_KEY).is_none() };
        if !jt {
            fails.push(("json-execution-time-differs-from-elapsed", format!("run {}: elapsed() = {el:?}, to_json()[execution_time_ms] = {:?}", r + 1, j.get(EXEC_KEY))));
        }
        els.push(class);
        jts.push(if jt { "T" } else { "F" });
        // nominal clock handed to the model: the harness reads w0, the run stamps a and b = a + sleep, the harness reads w1
        let b = 100 * r as u64;
        ticks.push(format!("{}.{}.{}.{}", b, b + 1, b + 1 + SLEEP_MS, b + 2 + SLEEP_MS));
    }
    let req = format!("MSLEEP sleep={SLEEP_MS} ticks={} {}", ticks.join(","), prog_text(&prog, mode));
    let real = format!("el={} jt={} res= {}", els.join(","), jts.join(","), res.join(" ;; "));
    let i = cx.case(req, real, nruns >= 2);
    tick(cx);
    cx.count(&format!("msleep:runs={nruns}"));
    for (sig, d) in fails {
        cx.oracle_fail(i, sig, d);
    }
}

struct Panicky;
impl Metric for Panicky {
    fn name(&self) -> &str { "boom" }
    fn value(&self) -> serde_json::Value { panic!("user metric panicked in value()") }
    fn as_any(&self) -> &dyn std::any::Any { self }
}

/// is this build compiled with overflow checks (the harness and ironbeam share one cargo profile)?
fn overflow_checks() -> bool {
    guarded(|| {
        let x = std::hint::black_box(u64::MAX);
        #[allow(arithmetic_overflow)]
        let y = x + std::hint::black_box(1);
        std::hint::black_box(y)
    })
    .is_err()
}

/// `MPOISON how=… checks=…  <pipeline>`: a panic inside a critical section of the collector (u64 overflow of
/// `count + value` with overflow checks on; a user metric whose `value()` panics during `snapshot()`),
/// caught by the caller; afterwards the collector is attached to a pipeline and the pipeline is run.
fn poison_case(cx: &mut Ctx, how: &str, prog: &PProg, mode: PMode) {
    let checks = overflow_checks();
    let base = run_prog_on(&Pipeline::default(), prog, mode);
    let c = MetricsCollector::new();
    match how {
        "overflow" => {
            c.set_counter("c", u64::MAX);
            let _ = guarded(|| c.increment_counter("c", 1));
        }
        "usermetric" => {
            let mut h = c.clone();
            h.register(Box::new(Panicky));
            let _ = guarded(|| c.snapshot());
        }
        _ => c.set_counter("c", 1),
    }
    let p = Pipeline::default();
    p.set_metrics(c.clone());
    let got = run_prog_on(&p, prog, mode);
    let cv = if how == "usermetric" { "-".to_string() } else {
        guarded(|| c.snapshot().get("c").and_then(|v| v.as_u64())).ok().flatten().map_or("?".into(), |n| n.to_string())
    };
    let i = cx.case(format!("MPOISON how={how} checks={} {}", u8::from(checks), prog_text(prog, mode)), format!("c={cv} res= {got}"), how != "none");
    tick(cx);
    cx.count(&format!("mpoison:{how}"));
    if got != base {
        cx.oracle_fail(i, "poisoned-collector-changed-result", format!("pipeline without collector: {base}; with a collector that had a panic inside a critical section ({how}): {got}"));
    }
}

/// `MOVF`: one `increment_counter("c", add)` at the `u64` boundary. Whatever the build profile does with the
/// overflowing addition (panic / wrap), afterwards the collector must still be usable and the metric still
/// a counter; below the boundary the sum must be exact.
fn overflow_case(cx: &mut Ctx, init: Option<Result<u64, ()>>, add: u64) {
    let checks = overflow_checks();
    let c = MetricsCollector::new();
    match init {
        Some(Ok(n)) => c.set_counter("c", n),
        Some(Err(())) => { let mut h = c.clone(); h.register(boxed("c", Val::G(1))); }
        None => {}
    }
    let call = guarded(|| c.increment_counter("c", add));
    let snap = guarded(|| canon_snapshot(&c)).unwrap_or_else(|_| "PANIC".into());
    let usable = guarded(|| { c.increment_counter("other", 1); c.snapshot().get("other").and_then(|v| v.as_u64()) }) == Ok(Some(1));
    let req = format!("MOVF checks={} init={} add={add}", u8::from(checks), match init { Some(Ok(n)) => n.to_string(), Some(Err(())) => "g".into(), None => "none".into() });
    let i = cx.case(req, format!("call={} snap={snap}", if call.is_ok() { "ok" } else { "PANIC" }), true);
    tick(cx);
    cx.count("movf:cases");
    if !usable {
        cx.oracle_fail(i, "collector-unusable-after-overflow", format!("after increment_counter(c, {add}) on {init:?} the collector no longer accepts calls"));
    }
    if let Some(Ok(n)) = init {
        match n.checked_add(add) {
            Some(sum) => {
                if call.is_err() || snap != format!("c:c{sum}") {
                    cx.oracle_fail(i, "lost-update", format!("{n} + {add} fits u64 but the call gave {call:?}, snapshot {snap}"));
                }
            }
            None => {
                // beyond the counter type the sum law cannot hold for any u64 counter (out of the property's
                // scope): the only demands are that the metric is still a counter and the collector usable;
                // WHAT the code does there (panic / wrap) is pinned by the correspondence with `incAtomic64`
                cx.count("movf:overflowing");
                if !snap.starts_with("c:c") {
                    cx.oracle_fail(i, "overflow-corrupts-counter", format!("{n} + {add} overflows u64; afterwards the metric is not a counter any more: {snap}"));
                }
            }
        }
    }
}

// ---------------------------------------------------------------------------------------------
// lock sites of src/metrics.rs (source scan): the scheduler only sees locks that have a yield point
// ---------------------------------------------------------------------------------------------

fn repo_metrics_rs() -> Option<String> {
    let manifest = std::fs::read_to_string(concat!(env!("CARGO_MANIFEST_DIR"), "/Cargo.toml")).ok()?;
    let line = manifest.lines().find(|l| l.trim_start().starts_with("ironbeam"))?;
    let i = line.find("path")?;
    let rest = &line[i..];
    let q1 = rest.find('"')?;
    let q2 = rest[q1 + 1..].find('"')?;
    let path = &rest[q1 + 1..q1 + 1 + q2];
    std::fs::read_to_string(format!("{path}/src/metrics.rs")).ok()
}

/// `LOCKSITES`: every `.lock()` of src/metrics.rs, per method, and how many of them are NOT immediately
/// preceded by a `verif_hooks::yield_point("metrics:<method>:…")` (such a lock would be invisible to the
/// cooperative scheduler, so the lock-granular enumeration would silently stop being exhaustive).
fn lock_sites(cx: &mut Ctx) {
    let Some(src) = repo_metrics_rs() else {
        cx.notes.push("C16: src/metrics.rs not readable from the harness; LOCKSITES skipped".into());
        return;
    };
    let mut per: BTreeMap<String, u32> = BTreeMap::new();
    let mut uncovered = vec![];
    let mut cur = String::new();
    let lines: Vec<&str> = src.lines().collect();
    for (n, l) in lines.iter().enumerate() {
        let t = l.trim_start();
        if t.starts_with("//") {
            continue;
        }
        if let Some(i) = t.find("fn ") {
            if t.starts_with("pub fn ") || t.starts_with("fn ") || t.starts_with("pub(crate) fn ") {
                cur = t[i + 3..].chars().take_while(|c| c.is_alphanumeric() || *c == '_').collect();
            }
        }
        if t.contains(".lock()") || t.contains(".try_lock()") {
            *per.entry(cur.clone()).or_insert(0) += 1;
            let prev = lines[..n].iter().rev().map(|x| x.trim()).find(|x| !x.is_empty() && !x.starts_with("#[cfg")).unwrap_or("");
            if !prev.contains(&format!("yield_point(\"metrics:{cur}:")) {
                uncovered.push(format!("{cur}@line{}", n + 1));
            }
        }
    }
    let real = format!(
        "sites={} uncovered={}",
        join_or(per.iter().map(|(k, v)| format!("{k}:{v}")).collect(), ","),
        uncovered.len()
    );
    let i = cx.case("LOCKSITES".into(), real, false);
    cx.count_n("locksites:locks-in-metrics.rs", per.values().map(|v| u64::from(*v)).sum());
    if !uncovered.is_empty() {
        cx.oracle_fail(i, "lock-without-yield-point", format!("lock acquisitions without a preceding yield point: {uncovered:?}"));
    }
}

// ---------------------------------------------------------------------------------------------
// the run
// ---------------------------------------------------------------------------------------------

const A4: [Op; 4] = [Op::Inc("a", 1), Op::Inc("a", 2), Op::Set("a", 5), Op::RegC("a", 7)];
const A3: [Op; 3] = [Op::Inc("a", 1), Op::Set("a", 5), Op::RegC("a", 7)];
const A7: [Op; 7] =
    [Op::Inc("a", 1), Op::Inc("a", 2), Op::Set("a", 5), Op::RegC("a", 7), Op::RegG("a", 3), Op::Inc("b", 4), Op::St];

fn random_op(cx: &mut Ctx) -> Op {
    let names = ["a", "b", "execution_time_ms"];
    let nn = if cx.rng.chance(1, 8) { 3 } else { 2 };
    let k = names[cx.rng.below(nn)];
    match cx.rng.below(14) {
        0..=4 => Op::Inc(k, 1 + cx.rng.below(9) as u64),
        5 | 6 => Op::Set(k, cx.rng.below(50) as u64),
        7 | 8 => Op::RegC(k, cx.rng.below(50) as u64),
        9 => Op::RegG(k, cx.rng.below(9) as u64),
        10 => Op::St,
        11 => Op::En,
        12 => *cx.rng.pick(&[Op::El, Op::Js]),
        _ => Op::Sn,
    }
}

/// `SMOKE`: every public call of the collector (and the pipeline's metric calls), one after the other on
/// ONE thread, on collectors in every state the calls distinguish (name absent / counter / other metric),
/// under a watchdog. Everything else in this check makes such calls on the harness's own thread (the serial
/// oracle, the `pre` calls of MRUN, MOVF, …): a call that dead-locks on its own (a lock taken twice) would
/// hang the CHECK instead of being reported. If this block does not come back the verdict is HANG and the
/// remaining blocks are skipped.
fn smoke(cx: &mut Ctx) -> bool {
    let body = || {
        let ops = [
            Op::Inc("a", 1), Op::Inc("a", 2), Op::Set("a", 5), Op::Inc("a", 1), Op::RegC("a", 7), Op::Inc("a", 3), Op::RegG("a", 3),
            Op::Inc("a", 1), Op::El, Op::Js, Op::St, Op::El, Op::Js, Op::En, Op::El, Op::Js, Op::Sn, Op::Inc("b", 4), Op::Inc("b", 4),
            Op::Set("execution_time_ms", 9), Op::Inc("execution_time_ms", 1), Op::Js, Op::St, Op::En,
        ];
        for init in [vec![], vec![("a", Val::C(10))], vec![("a", Val::G(2))]] {
            let c = mk_collector(&init);
            for op in &ops {
                apply(&c, op);
            }
            let _ = (canon_snapshot(&c), json_obs(&c).canon, c.elapsed());
            let p = Pipeline::default();
            p.set_metrics(c.clone());
            p.record_metrics_start();
            p.record_metrics_end();
            let _ = p.get_metrics().map(|m| m.elapsed());
            let _ = p.take_metrics();
            p.record_metrics_start();
            p.record_metrics_end();
        }
    };
    let mut r = pipe::with_watchdog(20, body);
    if r.is_none() {
        r = pipe::with_watchdog(60, body); // confirm: a machine stall does not repeat, a dead-lock does
    }
    let real = match &r { Some(Ok(())) => "ok", Some(Err(_)) => "PANIC", None => "HANG" };
    let i = cx.case("SMOKE".into(), real.into(), false);
    tick(cx);
    match r {
        Some(Ok(())) => true,
        Some(Err(msg)) => {
            cx.oracle_fail(i, "collector-panicked", format!("a collector call made on one thread, without any concurrency, panicked: {msg}"));
            true
        }
        None => {
            cx.oracle_fail(i, "collector-call-hangs", "a sequence of collector / pipeline metric calls made on ONE thread did not return within 60 s (a call dead-locks on its own); all other blocks skipped".into());
            false
        }
    }
}

/// progress of the worker thread (cases registered so far), watched by `run`
static PROGRESS: std::sync::atomic::AtomicU64 = std::sync::atomic::AtomicU64::new(0);
static LAST_REQ: Mutex<String> = Mutex::new(String::new());
fn tick(cx: &Ctx) {
    PROGRESS.fetch_add(1, std::sync::atomic::Ordering::Relaxed);
    if let (Some(r), Ok(mut g)) = (cx.reqs.last(), LAST_REQ.try_lock()) {
        g.clear();
        g.push_str(r);
    }
}
/// no new case for this long = some call on the worker's own thread does not return
const STALL_SECS: u64 = 240;

/// The whole check runs on a worker thread; this thread only watches its progress. Every block has its own
/// guard (SMOKE, the scheduler's time-out, watchdogs around free-running threads and pipeline runs), but the
/// worker also calls the real collector directly (serial oracle, `pre` calls, MOVF, …): should such a call
/// block in a state the SMOKE block did not reach, the check must still END with a verdict — HANG, a
/// violation — instead of hanging itself.
pub fn run(cx: &mut Ctx) {
    let (prop, seed, tier) = (cx.prop.clone(), cx.seed, cx.tier);
    let (tx, rx) = std::sync::mpsc::channel::<Ctx>();
    std::thread::Builder::new()
        .name("c16-worker".into())
        .stack_size(64 << 20)
        .spawn(move || {
            let mut inner = Ctx::new(&prop, seed, tier);
            run_inner(&mut inner);
            let _ = tx.send(inner);
        })
        .expect("spawn");
    let mut last = (PROGRESS.load(std::sync::atomic::Ordering::Relaxed), std::time::Instant::now());
    loop {
        match rx.recv_timeout(std::time::Duration::from_secs(1)) {
            Ok(inner) => {
                *cx = inner;
                return;
            }
            Err(std::sync::mpsc::RecvTimeoutError::Disconnected) => panic!("C16 worker thread died"),
            Err(std::sync::mpsc::RecvTimeoutError::Timeout) => {
                let p = PROGRESS.load(std::sync::atomic::Ordering::Relaxed);
                if p != last.0 {
                    last = (p, std::time::Instant::now());
                } else if last.1.elapsed().as_secs() > STALL_SECS {
                    let lastreq = LAST_REQ.lock().map(|g| g.clone()).unwrap_or_default();
                    let i = cx.case("SMOKE".into(), "HANG".into(), false);
                    cx.oracle_fail(i, "collector-call-hangs", format!("the check made no progress for {STALL_SECS} s after {p} cases: a call into the real code does not return (last registered request: {lastreq})"));
                    return;
                }
            }
        }
    }
}

fn run_inner(cx: &mut Ctx) {
    if !smoke(cx) {
        return;
    }
    let init10: Init = vec![("a", Val::C(10))];
    // the exhaustive blocks do not depend on the seed: the search tier keeps the quick shapes and
    // spends its larger budget on the random blocks
    let quick = cx.tier != crate::ctx::Tier::Thorough;
    let cap = if quick { 4000 } else { 400_000 };

    lock_sites(cx);
    // a collector whose mutex was poisoned by a panic inside one of its own critical sections must
    // still not change (here: abort) the pipeline it is attached to
    {
        let kv = |k: i64, v: i64| V::pair(V::I(k), V::I(v));
        let fixed = PProg { shape: Shape::KV, src: (0..40).map(|i| kv(i % 5, i)).collect(), steps: vec![Step::Gbk] };
        for how in ["overflow", "usermetric", "none"] {
            poison_case(cx, how, &fixed, PMode::Seq);
            let g = gen_inert_prog(cx, 0);
            let mode = if cx.rng.chance(1, 2) { PMode::Seq } else { PMode::Par(1 + cx.rng.below(4)) };
            poison_case(cx, how, &g, mode);
        }
    }
    // the u64 boundary of `count + value`
    for (init, add) in [
        (Some(Ok(u64::MAX)), 1u64), (Some(Ok(u64::MAX)), 2), (Some(Ok(u64::MAX - 1)), 1), (Some(Ok(u64::MAX - 1)), 2),
        (Some(Ok(u64::MAX - 5)), 5), (Some(Ok(u64::MAX - 5)), 6), (Some(Ok(1 << 63)), 1 << 63), (Some(Ok(1 << 63)), (1 << 63) - 1),
        (Some(Ok(7)), u64::MAX), (Some(Ok(0)), u64::MAX), (None, u64::MAX), (Some(Err(())), u64::MAX), (Some(Ok(10)), 5),
    ] {
        overflow_case(cx, init, add);
    }
    for _ in 0..cx.budget(10, 100) {
        let near = u64::MAX - cx.rng.below(20) as u64;
        let add = cx.rng.below(40) as u64;
        overflow_case(cx, Some(Ok(near)), add);
    }

    // (1) corpus: design witness of defect #14 (two threads, one increment each, read-read-write-write)
    {
        let prog: Prog = vec![vec![Op::Inc("a", 1)], vec![Op::Inc("a", 1)]];
        let orc = prog_oracle(&init10, &prog);
        for sched in [vec![0, 1, 0, 1], vec![0, 0, 1, 1], vec![1, 0], vec![]] {
            let ex = execute(&init10, &prog, Policy::Prefix(&sched));
            emit(cx, &init10, &prog, &sched, &ex, &orc, "corpus");
        }
        let prog3: Prog = vec![vec![Op::Inc("a", 1), Op::Inc("a", 2)], vec![Op::Set("a", 5)], vec![Op::Inc("a", 4)]];
        let orc3 = prog_oracle(&init10, &prog3);
        for sched in [vec![0, 2, 0, 2, 1, 0, 0], vec![2, 1, 0, 0, 2]] {
            let ex = execute(&init10, &prog3, Policy::Prefix(&sched));
            emit(cx, &init10, &prog3, &sched, &ex, &orc3, "corpus");
        }
    }

    let t_start = std::time::Instant::now();
    let lap = |what: &str| {
        if std::env::var("IBH_TIMING").is_ok() {
            eprintln!("[c16] {what}: {:.2}s", t_start.elapsed().as_secs_f64());
        }
    };
    // (2) exhaustive small scope: every program of the shape over the alphabet x EVERY complete schedule
    let shapes: Vec<Vec<usize>> = if quick {
        vec![vec![1, 1], vec![2, 1], vec![1, 2], vec![2, 2], vec![3, 1], vec![1, 3], vec![3, 2], vec![2, 3], vec![1, 1, 1], vec![2, 1, 1]]
    } else {
        vec![
            vec![1, 1], vec![2, 1], vec![1, 2], vec![2, 2], vec![3, 1], vec![1, 3], vec![3, 2], vec![2, 3], vec![3, 3],
            vec![1, 1, 1], vec![2, 1, 1], vec![1, 2, 1], vec![1, 1, 2], vec![2, 2, 1], vec![2, 1, 2], vec![1, 2, 2], vec![2, 2, 2],
        ]
    };
    let mut total_scheds = 0usize;
    let mut total_progs = 0usize;
    let mut truncated = 0usize;
    for shape in &shapes {
        for prog in all_progs(&A4, shape) {
            let (r, cut) = explore(cx, &init10, &prog, cap, "exhaustive-A4");
            total_scheds += r;
            total_progs += 1;
            truncated += usize::from(cut);
        }
    }
    cx.exhaustive_blocks.push(format!(
        "METRICS: init a=10; every program of shapes {shapes:?} (ops per thread) over {{inc a 1, inc a 2, set a 5, register counter a 7}} x every complete lock-granular schedule of the real code: {total_progs} programs, {total_scheds} schedules, {truncated} programs cut off at {cap} schedules"
    ));
    lap("A4");
    // two threads x THREE mixed calls each (quick tier too): every program over {inc, set, register}
    {
        let (mut s3, mut p3, mut t3) = (0usize, 0usize, 0usize);
        for prog in all_progs(&A3, &[3, 3]) {
            let (r, cut) = explore(cx, &init10, &prog, cap, "exhaustive-A3-3x3");
            s3 += r;
            p3 += 1;
            t3 += usize::from(cut);
        }
        cx.exhaustive_blocks.push(format!(
            "METRICS: init a=10; every program of shape [3, 3] over {{inc a 1, set a 5, register counter a 7}} x every complete schedule: {p3} programs, {s3} schedules, {t3} cut off"
        ));
    }
    lap("A3 3x3");
    // THREE threads x THREE mixed calls each: every thread runs one of the mixed kind sequences of the menu
    // (I = increment by a distinct power of two, S = set, R = register a counter; distinct values per
    // position, so the final value tells which serialisation happened); all multisets of three sequences
    // in the thorough tier, two programs in the quick tier; EVERY complete schedule (1680 per program)
    {
        let menu: Vec<&str> = vec!["ISI", "SIR", "IRS", "RII", "IIS", "SRI", "ISS", "RSR"];
        let mut picks: Vec<[usize; 3]> = vec![];
        if quick {
            picks.push([0, 1, 2]);
            picks.push([3, 4, 5]);
        } else {
            for a in 0..menu.len() { for b in a..menu.len() { for c in b..menu.len() { picks.push([a, b, c]); } } }
        }
        let (mut s9, mut t9) = (0usize, 0usize);
        for pk in &picks {
            let prog: Prog = pk.iter().enumerate().map(|(t, m)| mixed_thread(menu[*m], t)).collect();
            let (r, cut) = explore(cx, &init10, &prog, cap, "exhaustive-3-threads-x-3-mixed");
            s9 += r;
            t9 += usize::from(cut);
        }
        cx.exhaustive_blocks.push(format!(
            "METRICS: init a=10; 3 threads x 3 mixed calls each, thread programs drawn from the kind sequences {menu:?} (I inc / S set / R register, distinct amounts): {} programs x every complete schedule = {s9} schedules, {t9} cut off at {cap}",
            picks.len()
        ));
    }
    lap("3x3x3 mixed");
    // wider alphabet (gauge under the same name, a second name, record_start), absent initial counter
    let mut s7 = 0usize;
    let mut p7 = 0usize;
    let mut t7 = 0usize;
    let shapes7: Vec<Vec<usize>> = if quick { vec![vec![1, 1], vec![2, 1], vec![1, 1, 1]] } else { vec![vec![1, 1], vec![2, 1], vec![2, 2], vec![1, 1, 1], vec![2, 1, 1]] };
    for init in [vec![], vec![("a", Val::C(10))], vec![("a", Val::G(2))]] {
        for shape in &shapes7 {
            for prog in all_progs(&A7, shape) {
                let (r, cut) = explore(cx, &init, &prog, cap, "exhaustive-A7");
                s7 += r;
                p7 += 1;
                t7 += usize::from(cut);
            }
        }
    }
    cx.exhaustive_blocks.push(format!(
        "METRICS: init in {{none, a=counter 10, a=gauge 2}}; shapes {shapes7:?} over {{inc a 1, inc a 2, set a 5, reg counter a 7, reg gauge a 3, inc b 4, record_start}} x every complete schedule: {p7} programs, {s7} schedules, {t7} cut off"
    ));
    lap("A7");
    // increments with distinct power-of-two amounts: 2 and 3 threads x up to 3 increments, every schedule
    let mut sb = 0usize;
    let mut tb = 0usize;
    let bw: Vec<(usize, usize)> = vec![(2, 1), (2, 2), (2, 3), (3, 1), (3, 2), (3, 3)];
    for (t, per) in &bw {
        for init in [vec![("a", Val::C(10))], vec![]] {
            let (r, cut) = explore(cx, &init, &binary_weight_prog(*t, *per), cap, "exhaustive-binary-weights");
            sb += r;
            tb += usize::from(cut);
        }
    }
    cx.exhaustive_blocks.push(format!(
        "METRICS: (threads, increments per thread) in {bw:?}, amounts distinct powers of two, init a=10 and absent, every complete schedule: {sb} schedules, {tb} cut off at {cap}"
    ));

    lap("binary");
    // (3) random programs, random schedules; plus arbitrary (possibly incomplete / over-long) forced schedules
    let rounds = cx.budget(250, 6000);
    for _ in 0..rounds {
        if hangs() >= 2 {
            cx.count("metrics:skipped-after-2-hangs");
            break;
        }
        let nthreads = 2 + cx.rng.below(3);
        let prog: Prog = (0..nthreads).map(|_| { let l = cx.rng.below(5); (0..l).map(|_| random_op(cx)).collect() }).collect();
        let init: Init = match cx.rng.below(4) {
            0 => vec![],
            1 => vec![("a", Val::C(cx.rng.below(100) as u64))],
            2 => vec![("a", Val::C(cx.rng.below(100) as u64)), ("b", Val::C(3))],
            _ => vec![("a", Val::G(1)), ("b", Val::C(cx.rng.below(10) as u64))],
        };
        let orc = prog_oracle(&init, &prog);
        for _ in 0..3 {
            let ex = {
                let mut r = cx.rng.clone();
                let ex = execute(&init, &prog, Policy::Random(&mut r));
                cx.rng = r;
                ex
            };
            let sched = ex.taken.clone();
            emit(cx, &init, &prog, &sched, &ex, &orc, "random-schedule");
        }
        let glen = cx.rng.below(12);
        let garbage: Vec<usize> = (0..glen).map(|_| cx.rng.below(nthreads + 1)).collect();
        let ex = execute(&init, &prog, Policy::Prefix(&garbage));
        emit(cx, &init, &prog, &garbage, &ex, &orc, "arbitrary-forced-schedule");
    }
    lap("random");
    // 16 threads under the scheduler, increments only, random schedules
    for _ in 0..cx.budget(10, 200) {
        if hangs() >= 2 {
            cx.count("metrics:skipped-after-2-hangs");
            break;
        }
        let per = 1 + cx.rng.below(4);
        let prog: Prog = (0..16).map(|t| (0..per).map(|_| Op::Inc("a", 1 + (t as u64 % 5))).collect()).collect();
        let init: Init = vec![("a", Val::C(cx.rng.below(1000) as u64))];
        let orc = ProgOracle { serial: HashSet::new(), inc_only: inc_only_expectation(&init, &prog).map(|m| join_or(m.iter().map(|(k, n)| format!("{k}:c{n}")).collect(), ",")), names: written_names(&init, &prog) };
        let ex = {
            let mut r = cx.rng.clone();
            let ex = execute(&init, &prog, Policy::Random(&mut r));
            cx.rng = r;
            ex
        };
        // serial set of an increment-only program is the single expected outcome
        let orc = ProgOracle { serial: orc.inc_only.iter().cloned().collect(), ..orc };
        let sched = ex.taken.clone();
        emit(cx, &init, &prog, &sched, &ex, &orc, "random-schedule-16-threads");
    }

    lap("16 threads");
    // (4) free-running stress (no scheduler): 16 threads x 20 000 increments and smaller shapes
    let reps = cx.budget(1, 3);
    for r in 0..reps {
        if hangs() > 0 {
            cx.count("stress:skipped-after-a-hang");
            break;
        }
        stress(cx, Some(5), 16, 20_000, &[1], false);
        stress(cx, None, 16, 20_000, &[1, 2, 3], r % 2 == 0);
        stress(cx, Some(1000), 2, 50_000, &[1, 7], false);
        stress(cx, Some(0), 4, 20_000, &[3], true);
        stress(cx, Some(0), 8, 5_000, &[1, 2], true);
    }

    lap("stress");
    // (5) real pipelines with and without a collector: GENERATED programs (pipe::gen_prog: every transform
    // family, barriers, joins, global combines), reorder-inert and hazard-free so that the plain-vector
    // reference applies; the model computes the expected result from the description
    let prounds = cx.budget(70, 700);
    for round in 0..prounds {
        let prog = gen_inert_prog(cx, round);
        let mode = if cx.rng.chance(1, 2) { PMode::Seq } else { PMode::Par(*cx.rng.pick(&pipe::partition_choices(prog.src.len()))) };
        let npre = cx.rng.below(4);
        let pre: Vec<Op> = (0..npre)
            .map(|_| match cx.rng.below(4) {
                0 => Op::RegC("rows", cx.rng.below(100) as u64),
                1 => Op::RegG("ratio", cx.rng.below(9) as u64),
                2 => Op::Inc("calls", 1 + cx.rng.below(5) as u64),
                _ => Op::Set("execution_time_ms", 9),
            })
            .collect();
        let runs: Vec<&str> = match round % 7 {
            0 | 1 => vec!["ok"],
            2 => vec!["ok", "ok"],
            3 => vec!["pe"],
            4 => vec!["ok", "pe"],
            5 => vec!["ee", "ok"],
            _ => vec!["ok", "ee"],
        };
        let hammer = hangs() == 0 && round % 3 == 0;
        mrun(cx, &prog, mode, &pre, &runs, hammer);
    }
    {
        let small = PProg { shape: Shape::T, src: (1..=5).map(V::I).collect(), steps: vec![Step::Map(Fn_::Mul(2)), Step::Filter(pipe::Pred::Ne(6))] };
        for runs in [vec!["pe"], vec!["ee"], vec!["pe", "ee", "ok"], vec!["ok", "ee", "pe"]] {
            mrun(cx, &small, PMode::Seq, &[Op::RegC("rows", 1)], &runs, false);
        }
        // the shadowing witness: a user counter named execution_time_ms, then a successful run
        mrun(cx, &small, PMode::Seq, &[Op::Set("execution_time_ms", 9)], &["ok"], false);
    }
    lap("pipelines");
    // (6) sleeping pipeline, run once / twice / three times: elapsed covers exactly the LAST run
    for mode in [PMode::Seq, PMode::Par(2)] {
        for nruns in [1usize, 2, 3] {
            msleep(cx, mode, nruns);
        }
    }
    for _ in 0..cx.budget(0, 6) {
        let mode = if cx.rng.chance(1, 2) { PMode::Seq } else { PMode::Par(1 + cx.rng.below(3)) };
        msleep(cx, mode, 2);
    }
    lap("sleep");
    let stalls = STALLS.load(std::sync::atomic::Ordering::Relaxed);
    if stalls > 0 {
        cx.count_n("metrics:time-outs-not-confirmed-by-re-execution(machine-stall)", stalls as u64);
    }
}

/// a generated program in which the value-only reorder pass is the identity (known finding of C02/C03)
/// and no hash-ordered list reaches an order-sensitive step: for these the plain-vector reference is exact
fn gen_inert_prog(cx: &mut Ctx, round: usize) -> PProg {
    let opts = pipe::GenOpts {
        max_steps: 7,
        max_rows: cx.budget(16, 40),
        barriers: round % 2 == 0,
        joins: round % 5 == 0,
        globals: round % 3 == 0,
        nonlocal_batches: false,
    };
    loop {
        let p = pipe::gen_prog(&mut cx.rng, &opts);
        if pipe::reorder_inert(&p) && pipe::hazard_free(&p) {
            return p;
        }
        cx.count("mrun:generated-program-rejected(reorder-active-or-hash-order-hazard)");
    }
}

/// thread `t` of a 3 x 3 mixed program: the kind sequence with amounts that identify thread and position
fn mixed_thread(kinds: &str, t: usize) -> Vec<Op> {
    kinds
        .chars()
        .enumerate()
        .map(|(j, k)| {
            let pos = (3 * t + j) as u64;
            match k {
                'I' => Op::Inc("a", 1 << pos),
                'S' => Op::Set("a", 1000 * (pos + 1)),
                _ => Op::RegC("a", 100_000 * (pos + 1)),
            }
        })
        .collect()
}
